"""C05 - the request-body stream is exact, ordered and bounded.

Model: lean/CpModel/Reader.lean, theorems: lean/CpProofs/C05.lean (+ C05Lemmas.lean), driver:
lean/Drv/C05.lean.

Real code, two routes per generated case:
  * `direct`: `cherrypy._cpreqbody.SizedReader` over an instrumented, fragmenting stream, driven
    through a bare `Entity` (so `read/readline/readlines/next` go through the Entity wrappers);
  * `wsgi`: a POST (Content-Type application/octet-stream) through `cherrypy.Application` called
    in-process, `request.body.maxbytes` / `request.body.bufsize` set by config (request_namespace),
    the page handler performs the operation history on `cherrypy.request.body`; 413 / 411 are
    observed as response statuses.
The oracle is a plain cursor over `body[:declared length]` written from the property statement.
"""
import io
import json
import os

from . import common

PROPERTY = 'C05'
LEAN_TARGETS = ['CpProofs.C05', 'CpProofs.C05Sink', 'CpProofs.C05Process', 'drv_c05']
DRIVER = 'drv_c05'
THEOREMS = [
    'CpProofs.C05.C05_refines_cursor',
    'CpProofs.C05.C05_step_refines',
    'CpProofs.C05.C05_never_overreads',
    'CpProofs.C05.C05_exhaustive',
    'CpProofs.C05.C05_maxbytes_delivered_le',
    'CpProofs.C05.C05_maxbytes_no_spurious_413',
    'CpProofs.C05.C05_maxbytes_refused',
    'CpProofs.C05.C05_readlines_nolength',
    'CpProofs.C05.C05_frag_independent',
    'CpProofs.C05.C05_never_fuel',
    'CpProofs.C05.C05_readline_n_quirk',
    'CpProofs.C05.C05_regression_F5',
    # sinks and iteration (CpModel.ReaderSink, CpProofs.C05Sink)
    'CpProofs.C05.readW_spec',
    'CpProofs.C05.C05_iter_all_lines',
    'CpProofs.C05.C05X_step',
    'CpProofs.C05.C05X_exact_in_order',
    'CpProofs.C05.C05X_never_overreads',
    'CpProofs.C05.C05X_never_delivers_beyond_maxbytes',
    'CpProofs.C05.C05F_never_overreads',
    'CpProofs.C05.C05F_accounting',
    # around the reader (CpModel.ReaderProcess, CpProofs.C05Process)
    'CpProofs.C05.C05_process_skipped_iff',
    'CpProofs.C05.C05_process_411_iff',
    'CpProofs.C05.C05_process_wrapped',
    'CpProofs.C05.C05_length_absent',
    'CpProofs.C05.C05_length_chunked',
    'CpProofs.C05.C05_length_decimal',
    'CpProofs.C05.C05_length_junk',
    'CpProofs.C05.lookupProc_exact',
    'CpProofs.C05.lookupProc_major',
    'CpProofs.C05.lookupProc_default',
    'CpProofs.C05.C05_table_formdata',
    'CpProofs.C05.C05_table_urlencoded',
    'CpProofs.C05.C05_table_no_content_type',
    'CpProofs.C05.C05_table_multipart_any',
    'CpProofs.C05.C05_config_most_specific',
    'CpProofs.C05.C05_effective_maxbytes',
    'CpProofs.C05.C05_configured_limit_enforced',
    'CpProofs.C05.C05_server_limit',
    'CpProofs.C05.C05_server_limit_own',
    'CpProofs.C05.C05_server_refuses_iff',
    'CpProofs.C05.C05_server_no_limit',
    'CpProofs.C05.trailerLoop_wellformed',
    'CpProofs.C05.C05_trailer_once_intact',
    'CpProofs.C05.C05_no_trailer_untouched',
    'CpProofs.C05.C05_trailer_intact_once',
    'CpProofs.C05.C05_trailer_reread_false',
    'CpProofs.C05.C05_trailer_reread_witness',
    'CpProofs.C05.C05_trailer_413',
    'CpProofs.C05.C05_trailer_comma_join',
    'CpProofs.C05.C05_trailer_last_wins',
    'CpProofs.C05.C05_trailer_examples',
    'CpProofs.C05.C05_history_trailer_intact',
]
LEVEL = 'proof'
TECHNIQUE = ('Lean 4 proof: refinement of SizedReader (buffer, bytes_read, push-back, socket fragmentation) to a '
             'cursor over body[:Content-Length] by invariant + induction over the operation history, extended to sinks '
             '(fp_out / read_into_file) and iteration; decision model of RequestBody.process / config wiring / '
             'finish()+trailers with tables regenerated from the live classes; everything tied to the real code by '
             'a differential run over generated histories, requests and trailers')
LEVEL_TEXT = ('Proved in Lean, for every body, declared length (exact/shorter/longer/absent), buffer size >= 1, socket '
              'fragmentation and every history over read/read(n)/readline/readline(n)/readlines/readlines(h)/next: up '
              'to the first 413 every operation returns exactly what a cursor over body[:length] returns, the '
              'underlying stream is never read beyond the declared length (also after errors), read() returns the '
              'whole undelivered rest, a body within the limit is never refused and a longer body that is read to the '
              'end is refused with 413; results do not depend on the fragmentation. Extended histories with '
              'read(n, fp_out), read_into_file and `for line in body` (C05Sink): what a sink receives / the iterator '
              'yields - also by a call that then raises 413 - is the next bytes of the body in order, an error-free '
              'history delivers every byte exactly once, and with maxbytes=m>0 EVERY history (413s caught and reading '
              'continued included) hands at most m bytes to the application (no server-limit event assumed for that '
              'last theorem); under any plan of transient faults of the raw stream the offset stays <= Content-Length and '
              'the accounting invariant holds (C05F_*). Around the reader (C05Process): body not processed iff process_request_body is off or '
              'the method is not in methods_with_bodies; 411 iff processed and neither Content-Length nor '
              'Transfer-Encoding; otherwise SizedReader(length, maxbytes, bufsize, has_trailers) with length = '
              'int(Content-Length) unless Transfer-Encoding mentions chunked (decimal numerals proved, junk -> None), '
              'maxbytes = the most specific request.body.maxbytes of the merged per-path config (so that the delivery '
              'bound holds for the configured limit: C05_configured_limit_enforced), processor looked up in the table '
              'regenerated from a live RequestBody; finish(): a well-formed trailer is parsed (title-cased names, '
              'comma-separated headers joined in wire order, otherwise last wins, MaxSizeExceeded -> 413) and - for the '
              'repaired code - consumed once, so the bytes behind it stay on the connection after every history '
              '(C05_history_trailer_intact); for the code that re-reads the trailer on every finish() the statement is '
              'proved false (F27 witness); each HTTP server is given its own adapter\'s limits whatever the other '
              'adapters (global server included) say (C05_server_limit_own). Correspondence only: cheroot itself (ChunkedRFile is exercised, not '
              'modelled), the merge of body params into request.params (C03).')
LEVEL_NOTE = ('Trusted: Lean kernel, the hand models lean/CpModel/Reader.lean, ReaderSink.lean, ReaderProcess.lean as '
              'validated by the differential run (SizedReader directly, request.body through in-process WSGI with '
              'config at three levels, finish() over a stand-in stream with cheroot\'s read_trailer_lines contract and '
              'over cheroot\'s own ChunkedRFile), the harness. cheroot\'s KnownLengthRFile/ChunkedRFile are not '
              'modelled; their MaxSizeExceeded is an input event of the model. Finding F27 (trailer re-read) is known, '
              'fix proposed; the model takes the measured repair flag Gen.C05.trailersReadOnce.')
TRUSTED_BASE = [
    'the underlying stream is modelled as: read(n) returns 1..n bytes while data is left, b"" only at EOF, or '
    'raises MaxSizeExceeded (cheroot server-wide limit) - cheroot itself is not modelled',
    'read_trailer_lines() of the stream (cheroot) is an environment function: it hands out the lines behind the body '
    'lazily, up to and including the first blank line, or fails',
    'int(), str.strip(), bytes.title(), dict ordering of CPython as transcribed in ReaderProcess.lean; the per-path '
    'merge of the configuration is modelled as dict.update from the global config to the deepest path section',
]
ASSUMPTIONS = [
    'bufsize >= 1; sizes and hints are non-negative integers',
    'no concurrent reader on the same request body',
    'C05X_never_delivers_beyond_maxbytes: no MaxSizeExceeded event of the server-wide limit in the same history',
    'header values are Latin-1 text (WSGI); Content-Length numerals have fewer than 4300 digits',
]
RULE = ('random op histories (1..14 ops over read/read(n)/readline/readline(n)/readlines/readlines(h)/next/'
        'read(n, fp_out)/read_into_file(sink | default make_file)/for-line iteration with n,h from 1 to beyond bufsize) '
        'x body (newline-dense / sparse / newline-free / all-LF, 0..200 KiB, mostly < 64 bytes so that buffer '
        'boundaries are dense) x declared length (exact, shorter incl. 0/1/n-1 with pipelined bytes behind, longer, '
        'absent) x bufsize (1..65536) x socket fragmentation (whole, 1-byte, random) x maxbytes (None, 0, <, =, > '
        'available) x optional MaxSizeExceeded event or a plan of TRANSIENT faults of the raw stream (timeout / reset at the '
        'k-th next read, the application reads on), each run on SizedReader directly or through '
        'in-process WSGI; second part: Content-Length texts x Transfer-Encoding; requests (method x '
        'methods_with_bodies / process_request_body / request.body.maxbytes|bufsize|length at three config levels x '
        'Content-Length absent/empty/valid/invalid x Transfer-Encoding x Trailer x Content-Type); several HTTP server '
        'adapters (global cherrypy.server via server.<key>, additional ones via server.<name>.<key> or constructed) with '
        'different max_request_body_size / max_request_header_size: the limits of the CPWSGIServer each builds (unbound), '
        'and per run one case with real cheroot servers on ephemeral ports (declared and chunked bodies around each '
        'server\'s limit); finish() over trailer '
        'blocks (continuation lines, repeated / comma-separated names, malformed lines, missing blank line, failures '
        'while fetching) followed by a pipelined request; histories over chunked bodies with a trailer (stand-in stream '
        'and cheroot ChunkedRFile); urlencoded form bodies with declared length exact/shorter/0; plus (thorough) '
        'exhaustive enumeration of short histories over small bodies. A case is non-trivial when at least one '
        'operation delivered data / the body was wrapped / a trailer was parsed; distinct = distinct case tuple')


# ----------------------------------------------------------------------------------------------
# a call into the code under test that does not come back is an observation, not a harness failure
# ----------------------------------------------------------------------------------------------
class Hang(BaseException):
    pass


HANG_SECONDS = 60


def guarded(fn, case, seconds=None):
    """fn(case), or None when it did not return in time (the loops of the reader can only hang when the code
    under test was changed; the statement's operations all terminate)."""
    import signal
    if not hasattr(signal, 'setitimer'):
        return fn(case)

    def on_alarm(signum, frame):
        raise Hang()
    try:
        old = signal.signal(signal.SIGALRM, on_alarm)
    except ValueError:              # not in the main thread
        return fn(case)
    signal.setitimer(signal.ITIMER_REAL, seconds or HANG_SECONDS)
    try:
        return fn(case)
    except Hang:
        return None
    finally:
        signal.setitimer(signal.ITIMER_REAL, 0)
        signal.signal(signal.SIGALRM, old)


def report_hang(ctx, case, what):
    ctx.case(case if len(json.dumps(case)) < 4000 else {'large_case': True}, nontrivial=False, key=json.dumps(case))
    ctx.oracle_fail(case, '%s did not return within %d s' % (what, HANG_SECONDS), 'hang')


# ----------------------------------------------------------------------------------------------
# instrumented underlying stream
# ----------------------------------------------------------------------------------------------
class MaxSizeExceeded(Exception):
    """Same class NAME as cheroot.errors.MaxSizeExceeded (SizedReader matches on the name)."""


import socket as _socket
FAULTS = [_socket.timeout, ConnectionResetError, OSError, BrokenPipeError]
FAULT_NAMES = {c.__name__ for c in FAULTS} | {'TimeoutError', 'timeout'}


def _is_fault(r):
    return r.startswith('x:') and r[2:].split('+')[0] in FAULT_NAMES


class FragStream:
    def __init__(self, data, frag, fail_at=None, fail_kind='max', faults=None):
        self.fail_kind = fail_kind
        # transient faults of the connection: the k-th next read() raises (timeout, reset, ...), once; then the
        # next countdown of the plan is armed
        self.faults = list(faults or [])
        self.fault_in = self.faults.pop(0) if self.faults else None
        self.nfaults = 0
        self.data = data
        self.pos = 0
        self.frag = list(frag)
        self.fi = 0
        self.fail_at = fail_at
        self.calls = 0
        self.req_end = 0        # furthest offset any read() call asked for

    def read(self, n=None):
        if self.fault_in is not None:
            if self.fault_in == 0:
                self.fault_in = self.faults.pop(0) if self.faults else None
                self.nfaults += 1
                raise FAULTS[self.nfaults % len(FAULTS)]('transient failure of the connection')
            self.fault_in -= 1
        if self.fail_at is not None:
            if self.fail_at == 0:
                if self.fail_kind == 'io':
                    raise ConnectionResetError('connection reset by peer')
                raise MaxSizeExceeded('Request Entity Too Large', 7)
            self.fail_at -= 1
        self.calls += 1
        if n is None or n < 0:
            n = len(self.data) - self.pos + 1
            self.req_end = float('inf')
        else:
            self.req_end = max(self.req_end, self.pos + n)
        k = n
        if self.fi < len(self.frag):
            k = min(n, self.frag[self.fi] + 1)
        self.fi += 1
        out = self.data[self.pos:self.pos + k]
        self.pos += len(out)
        return out

    def readline(self, n=None):
        raise common.HarnessError('unexpected readline on the raw stream')


# ----------------------------------------------------------------------------------------------
# real-code runners
# ----------------------------------------------------------------------------------------------
def _norm(case):
    body = bytes.fromhex(case['body_hex'])
    c = dict(case)
    c.setdefault('length', len(body))
    c.setdefault('maxbytes', None)
    c.setdefault('bufsize', 8192)
    c.setdefault('frag', [])
    c.setdefault('fail_at', None)
    c.setdefault('faults', None)
    c.setdefault('via', 'direct')
    return c, body


class Sink:
    """A write-only sink handed to read(size, fp_out) / read_into_file: keeps everything written to it,
    whatever happens to the call afterwards."""

    def __init__(self):
        self.chunks = []

    def write(self, data):
        self.chunks.append(bytes(data))
        return len(data)

    def getvalue(self):
        return b''.join(self.chunks)


def _file_content(f):
    try:
        f.seek(0)
        return f.read()
    except Exception:
        return None


def _do_ops(ent, ops, stop_at_error):
    """Perform the history on an Entity; returns the list of canonical per-op results.

    result = `b:<hex>` (returned bytes) | `l:<hex>/...` (returned lines) | `stop` | `w:<hex>` (what a sink holds
    after a successful read(n, fp_out) / read_into_file) | `y:<hex>/...` (lines yielded by `for line in body`)
    | `e<code>[+<hex>]` / `x:<Exception>[+<hex>]` (the call raised; for sink / iteration operations: what
    the sink had received / the loop had yielded before)."""
    import cherrypy
    outs = []
    for op in ops:
        name, _, arg = op.partition(':')
        n = int(arg) if arg else None
        partial = None          # () -> bytes delivered by this call although it raised
        try:
            if name == 'read':
                r = 'b:' + ent.read(n).hex()
            elif name == 'readfp':
                f = Sink()
                partial = f.getvalue
                ent.read(n, f)
                r = 'w:' + f.getvalue().hex()
            elif name == 'rif':
                f = Sink()
                partial = f.getvalue
                ent.read_into_file(f)
                r = 'w:' + f.getvalue().hex()
            elif name == 'rifmk':
                # the default sink: whatever make_file() returns (tempfile.TemporaryFile), recorded
                made = []
                mk = ent.make_file

                def recording_make_file():
                    made.append(mk())
                    return made[-1]
                partial = lambda: b''.join(_file_content(x) or b'' for x in made)
                ent.make_file = recording_make_file
                try:
                    ret = ent.read_into_file()
                finally:
                    del ent.make_file
                if not made and ret is not None:
                    made.append(ret)
                r = 'w:' + partial().hex()
                for x in made:
                    x.close()
            elif name == 'readline':
                r = 'b:' + ent.readline(n).hex()
            elif name == 'readlines':
                r = 'l:' + '/'.join(x.hex() for x in ent.readlines(n))
            elif name in ('next', 'nextm'):
                try:
                    r = 'b:' + (next(ent) if name == 'next' else ent.next()).hex()
                except StopIteration:
                    r = 'stop'
            elif name == 'iter':
                got = []
                partial = lambda: b''.join(got)
                for line in ent:
                    got.append(bytes(line))
                r = 'y:' + '/'.join(x.hex() for x in got)
            else:
                raise common.HarnessError('unknown op %r' % op)
        except cherrypy.HTTPError as e:
            r = 'e%d' % e.code
        except common.HarnessError:
            raise
        except Exception as e:      # anything else is an observable (the property allows only 413)
            r = 'x:' + type(e).__name__
        if not _is_ok(r) and partial is not None:
            try:
                r += '+' + partial().hex()
            except Exception:
                r += '+'
        outs.append(r)
        if stop_at_error and not _is_ok(r) and not _is_fault(r):
            break                   # (after a transient failure of the connection the handler reads on)
    return outs


def run_direct(case):
    from cherrypy import _cpreqbody
    c, body = _norm(case)
    fp = FragStream(body, c['frag'], c['fail_at'], c.get('fail_kind', 'max'), c['faults'])
    rd = _cpreqbody.SizedReader(fp, c['length'], c['maxbytes'], bufsize=c['bufsize'])
    ent = _cpreqbody.Entity.__new__(_cpreqbody.Entity)
    ent.fp = rd
    outs = _do_ops(ent, c['ops'], stop_at_error=False)
    return {'outs': outs, 'off': fp.pos, 'req_end': fp.req_end, 'status': None}


_APP_CACHE = {}
_JOURNAL = {}


def _app(maxbytes, bufsize):
    import cherrypy
    key = (maxbytes, bufsize)
    app = _APP_CACHE.get(key)
    if app is None:
        if not _APP_CACHE:
            cherrypy.config.update({'environment': 'test_suite', 'log.screen': False})

        class Root:
            @cherrypy.expose
            def index(self):
                _JOURNAL['entered'] = True
                _JOURNAL['outs'] = []
                body = cherrypy.request.body
                _JOURNAL['is_sized'] = type(body.fp).__name__
                outs = _do_ops(body, _JOURNAL['ops'], stop_at_error=True)
                _JOURNAL['outs'] = outs
                last = outs[-1] if outs else ''
                if last.startswith('e413'):
                    raise cherrypy.HTTPError(413)
                return b'ok'
        conf = {'request.body.bufsize': bufsize}
        if maxbytes is not None:
            conf['request.body.maxbytes'] = maxbytes
        if len(_APP_CACHE) > 200:
            _APP_CACHE.clear()
            _APP_CACHE[None] = None
        app = cherrypy.Application(Root(), '', {'/': conf})
        _APP_CACHE[key] = app
    return app


def run_wsgi(case):
    c, body = _norm(case)
    fp = FragStream(body, c['frag'], c['fail_at'], c.get('fail_kind', 'max'), c['faults'])
    env = {'REQUEST_METHOD': 'POST', 'PATH_INFO': '/', 'SCRIPT_NAME': '', 'QUERY_STRING': '',
           'SERVER_NAME': 'x', 'SERVER_PORT': '80', 'SERVER_PROTOCOL': 'HTTP/1.1', 'HTTP_HOST': 'x',
           'wsgi.version': (1, 0), 'wsgi.url_scheme': 'http', 'wsgi.input': fp,
           'wsgi.errors': io.StringIO(), 'wsgi.multithread': False, 'wsgi.multiprocess': False,
           'wsgi.run_once': False, 'CONTENT_TYPE': 'application/octet-stream', 'REMOTE_ADDR': '127.0.0.1'}
    if c.get('nolen411'):
        pass                                   # neither Content-Length nor Transfer-Encoding
    elif c['length'] is None:
        env['HTTP_TRANSFER_ENCODING'] = 'chunked'
    else:
        env['CONTENT_LENGTH'] = str(c['length'])
    _JOURNAL.clear()
    _JOURNAL['ops'] = c['ops']
    st = []
    it = _app(c['maxbytes'], c['bufsize'])(env, lambda status, headers, exc=None: st.append(status))
    try:
        for _ in it:
            pass
    finally:
        if hasattr(it, 'close'):
            it.close()
    return {'outs': list(_JOURNAL.get('outs', [])), 'off': fp.pos, 'req_end': fp.req_end,
            'status': int(st[0].split()[0]) if st else None, 'entered': bool(_JOURNAL.get('entered')),
            'fp_type': _JOURNAL.get('is_sized')}


def run_real(case):
    return run_wsgi(case) if case.get('via') == 'wsgi' else run_direct(case)


# ----------------------------------------------------------------------------------------------
# oracle: a cursor over body[:declared length], from the property statement
# ----------------------------------------------------------------------------------------------
def _is_ok(r):
    return r[:2] in ('b:', 'l:', 'w:', 'y:') or r == 'stop'


def _split_err(r):
    """'e413+6162' -> ('e413', b'ab'); 'e413' -> ('e413', b'')"""
    st, _, part = r.partition('+')
    try:
        return st, bytes.fromhex(part)
    except ValueError:
        return st, b''


def _line(rest):
    i = rest.find(b'\n')
    return rest if i < 0 else rest[:i + 1]


def oracle(case, obs):
    """List of (what, signature) for every way the property is false on this observation."""
    c, body = _norm(case)
    bad = []
    avail = body if c['length'] is None else body[:c['length']]
    m = c['maxbytes'] or None
    ext_fail = c['fail_at'] is not None
    if c.get('nolen411'):
        if obs['status'] != 411 or obs.get('entered'):
            bad.append(('no Content-Length / Transfer-Encoding: status %s, handler entered=%s (want 411)'
                        % (obs['status'], obs.get('entered')), 'missing_411'))
        if obs['off'] != 0:
            bad.append(('411 case consumed %d bytes' % obs['off'], 'overread'))
        return bad
    if c.get('via') == 'wsgi' and obs.get('fp_type') != 'SizedReader':
        bad.append(('request.body.fp is %r, not the bounded reader' % obs.get('fp_type'), 'not_wrapped'))
    pos = 0                 # cursor
    delivered = 0           # bytes handed to the application: returned, written to a sink, yielded
    errored = False
    gap = False             # a transient failure of the connection aborted an operation: what that call had read
                            # is lost; from then on: still in order, never twice, never beyond the declared length

    def bound(op):
        if m is not None and delivered > m:
            bad.append(('%d bytes delivered to the application (return values, fp_out sinks, yielded lines; '
                        'last by %s) with maxbytes=%d' % (delivered, op, m), 'maxbytes:delivered_over_limit'))
            return False
        return True

    for op, r in zip(c['ops'], obs['outs']):
        name, _, arg = op.partition(':')
        n = int(arg) if arg else None
        if not _is_ok(r) and c['faults'] and _is_fault(r) and not errored:
            st, part = _split_err(r)
            p = avail.find(part, pos) if gap else (pos if avail[pos:pos + len(part)] == part else -1)
            if p < 0:
                bad.append(('%s was aborted by %s after delivering %r..., which is not body data in order (offset '
                            '%d)' % (op, st, part[:24], pos), 'order:partial_' + name))
                break
            pos = p + len(part)
            delivered += len(part)
            gap = True
            if not bound(op):
                break
            continue
        if gap and _is_ok(r) and not errored:
            if r == 'stop':
                got = b''
            elif r[:2] in ('l:', 'y:'):
                got = b''.join(bytes.fromhex(x) for x in r[2:].split('/')) if r[2:] else b''
            else:
                got = bytes.fromhex(r[2:])
            p = avail.find(got, pos)
            if p < 0:
                bad.append(('after a transient failure of the connection %s delivered %r..., which does not occur in '
                            'the declared body behind offset %d' % (op, got[:24], pos), 'order:after_fault'))
                break
            pos = p + len(got)
            delivered += len(got)
            if not bound(op):
                break
            continue
        if not _is_ok(r):
            st, part = _split_err(r)
            delivered += len(part)
            if not errored:
                # what a sink received / the iterator yielded before the refusal is still body data, in order
                if (avail.find(part, pos) < 0) if gap else (avail[pos:pos + len(part)] != part):
                    bad.append(('%s raised %s after delivering %r..., which is not the next %d bytes of the body '
                                '(offset %d: %r...)' % (op, st, part[:24], len(part), pos, avail[pos:pos + 24]),
                                'order:partial_' + name))
                io_fail = ext_fail and c.get('fail_kind') == 'io' and st == 'x:ConnectionResetError'
                if not io_fail and not (st == 'e413' and (ext_fail or (m is not None and len(avail) > m))):
                    bad.append(('%s -> %s although the body (%d bytes) is within the limit %s'
                                % (op, st, len(avail), m), 'spurious_error:' + st.split(':')[0]))
            errored = True
            if not bound(op):
                break
            continue            # refused: nothing more is promised about the content, only the bound
        if errored:
            # an application that caught the 413 and goes on reading: still never more than the limit
            if r[:2] in ('b:', 'w:'):
                delivered += len(r[2:]) // 2
            elif r[:2] in ('l:', 'y:'):
                delivered += sum(len(x) // 2 for x in r[2:].split('/'))
            if not bound(op):
                break
            continue
        rest = avail[pos:]
        if r == 'stop':
            got = b''
            if name not in ('next', 'nextm') or rest:
                bad.append(('%s raised StopIteration with %d bytes left' % (op, len(rest)), 'content:next'))
        elif r[:2] in ('l:', 'y:'):
            parts = [bytes.fromhex(x) for x in r[2:].split('/')] if r[2:] else []
            got = b''.join(parts)
            if (r[0] == 'l') != (name == 'readlines') or (r[0] == 'y') != (name == 'iter'):
                bad.append(('%s returned a list' % op, 'content:' + name))
            else:
                # every element is a whole line of the rest; without a hint all lines are returned
                q = rest
                for p in parts:
                    if not p or p != _line(q):
                        bad.append(('%s element %r is not the next line of %r' % (name, p[:40], q[:40]),
                                    'content:' + name))
                        break
                    q = q[len(p):]
                else:
                    if n is None and q:
                        bad.append(('%s stopped with %d bytes left' % (op, len(q)), 'content:%s_short' % name))
                    if n is not None and q and (len(got) < n or not parts):
                        bad.append(('readlines(%d) returned %d bytes with %d left' % (n, len(got), len(q)),
                                    'content:readlines_hint'))
        else:
            got = bytes.fromhex(r[2:])
            if (r[0] == 'w') != (name in ('readfp', 'rif', 'rifmk')):
                bad.append(('%s: result %s' % (op, r[:20]), 'content:' + name))
            elif name in ('read', 'readfp', 'rif', 'rifmk'):
                if n is None:
                    want = rest
                elif n == 0:
                    want = None                       # outside the quantifier (n >= 1): prefix check only
                else:
                    want = rest[:n]
                if want is not None and got != want:
                    bad.append(('%s delivered %d bytes %r..., cursor says %d bytes %r...'
                                % (op, len(got), got[:24], len(want), want[:24]), 'content:read'))
            elif name == 'readline':
                if n is None:
                    if got != _line(rest):
                        bad.append(('readline() returned %r, next line is %r' % (got[:40], _line(rest)[:40]),
                                    'content:readline'))
                elif n > 0:
                    # weakest reading: a non-empty prefix of the next line (an LF can only be its last byte)
                    ln = _line(rest)
                    if not ln.startswith(got) or (rest and not got):
                        bad.append(('readline(%d) returned %r, next line is %r' % (n, got[:40], ln[:40]),
                                    'content:readline_n'))
            elif name in ('next', 'nextm'):
                if not rest or got != _line(rest):
                    bad.append(('next() returned %r, next line is %r' % (got[:40], _line(rest)[:40]),
                                'content:next'))
        # exactly once, in order: whatever was delivered must be the next bytes of the body
        if avail[pos:pos + len(got)] != got:
            bad.append(('%s delivered %r... which is not the next %d bytes of the body (offset %d: %r...)'
                        % (op, got[:24], len(got), pos, avail[pos:pos + 24]), 'order:' + name))
            break
        pos += len(got)
        delivered += len(got)
        if not bound(op):
            break
    # bounded: never consume (or ask the connection for) more than the declared length
    if c['length'] is not None:
        if obs['off'] > c['length']:
            bad.append(('consumed %d bytes of the connection, declared length %d' % (obs['off'], c['length']),
                        'overread'))
        elif obs['req_end'] > c['length']:
            bad.append(('asked the connection for bytes up to offset %s, declared length %d'
                        % (obs['req_end'], c['length']), 'overread_request'))
    # a longer body read to the end must have been refused
    if not errored and not gap and len(obs['outs']) == len(c['ops']):
        drained = any(o in ('read', 'readfp', 'readlines', 'rif', 'rifmk', 'iter') for o in c['ops'][-1:])
        if drained and pos != len(avail):
            bad.append(('history ends with %s but only %d of %d bytes were delivered'
                        % (c['ops'][-1], pos, len(avail)), 'content:not_exhausted'))
        if m is not None and len(avail) > m and pos == len(avail):
            bad.append(('body of %d bytes fully delivered with maxbytes=%d' % (len(avail), m), 'missing_413'))
    if c.get('via') == 'wsgi':
        want = 413 if (obs['outs'] and obs['outs'][-1].startswith('e413')) else 200
        if c.get('fail_kind') == 'io' and obs['outs'] and obs['outs'][-1].startswith('x:ConnectionResetError'):
            want = obs['status']            # the connection broke: whatever the handler made of it
        if obs['outs'] and not _is_ok(obs['outs'][-1]) and not obs['outs'][-1].startswith('e413'):
            want = obs['status']
        if obs['status'] != want:
            bad.append(('response status %s, expected %s' % (obs['status'], want), 'status'))
    return bad


# ----------------------------------------------------------------------------------------------
# model side
# ----------------------------------------------------------------------------------------------
def _opt(x):
    return 'N' if x is None else str(x)


def model_line(case, nops=None):
    c, body = _norm(case)
    ops = c['ops'] if nops is None else c['ops'][:nops]
    ops = [o.replace('rifmk', 'rif').replace('nextm', 'next') for o in ops]
    fail_at = None if c.get('fail_kind') == 'io' else c['fail_at']
    fa = ('t' + '.'.join(map(str, c['faults']))) if c['faults'] else _opt(fail_at)
    return ' '.join([_opt(c['length']), _opt(c['maxbytes']), str(c['bufsize']), fa,
                     body.hex() or '-', ','.join(map(str, c['frag'])) or '-', ','.join(ops) or '-'])


def _canon_model_out(o):
    if o[:2] in ('b:', 'w:'):
        return o[:2] + ('' if o[2:] == '-' else o[2:])
    if o[:2] in ('l:', 'y:'):
        parts = o[2:].split('/') if o[2:] else []
        return o[:2] + '/'.join('' if p == '-' else p for p in parts)
    if '+' in o:
        st, _, part = o.partition('+')
        return st + '+' + ('' if part == '-' else part)
    return o


def parse_model(line):
    f = line.split(' ')
    outs = [] if f[0] == '-' else [_canon_model_out(o) for o in f[0].split(',')]
    kv = dict(x.split('=') for x in f[1:])
    return {'outs': outs, 'off': int(kv['off'])}


# ----------------------------------------------------------------------------------------------
# generators
# ----------------------------------------------------------------------------------------------
ALPH = b'abcdefgh'


def gen_body(rng, n):
    mode = rng.choice(['dense', 'dense', 'sparse', 'none', 'lf', 'crlf'])
    if mode == 'none':
        return bytes(rng.choice(ALPH) for _ in range(n))
    if mode == 'lf':
        return b'\n' * n
    p = {'dense': 0.3, 'sparse': 0.04, 'crlf': 0.15}[mode]
    out = bytearray()
    while len(out) < n:
        if rng.random() < p:
            out += b'\r\n' if mode == 'crlf' else b'\n'
        else:
            out.append(rng.choice(ALPH))
    return bytes(out[:n])


def gen_big_body(rng, n):
    mode = rng.choice(['dense', 'sparse', 'none'])
    unit = {'dense': b'abc\n' + b'defgh' * 37 + b'\n\n' + b'xy' * 60 + b'\r\n' + b'q' * 300, 'sparse': b'a' * 700 + b'\n' + b'b' * 1311, 'none': b'abcdefg'}[mode]
    rot = rng.randrange(len(unit))
    unit = unit[rot:] + unit[:rot]
    return (unit * (n // len(unit) + 1))[:n]


def gen_case(rng, big=False):
    if big:
        n = rng.choice([4096, 8191, 8192, 8193, 20000, 65536, 65537, 100000, 204800])
        body = gen_big_body(rng, n)
        bufsize = rng.choice([1024, 4096, 8192, 8192, 65536])
    else:
        n = rng.choice([0, 1, 2, 3, 5, 8, 12, 16, 20, 24, 31, 40, 64, 100, 300])
        body = gen_body(rng, n)
        bufsize = rng.choice([1, 2, 3, 4, 5, 7, 8, 16, 64, 8192, 65536])
    k = rng.random()
    if k < 0.5:
        length = n
    elif k < 0.7:
        # shorter than what the connection holds (the rest is a pipelined following request): boundary values
        # 0, 1, n-1 as often as something in between
        length = rng.choice([0, 1, n - 1, rng.randrange(0, n), rng.randrange(0, n)]) if n else 0
        length = max(0, min(length, n))
    elif k < 0.8:
        length = n + rng.choice([1, 2, 10])
    else:
        length = None
    avail = n if length is None else min(n, length)
    k = rng.random()
    if k < 0.5:
        maxbytes = None
    elif k < 0.55:
        maxbytes = 0
    elif k < 0.72:
        maxbytes = rng.randrange(1, avail) if avail > 1 else 1
    elif k < 0.86:
        maxbytes = max(avail, 1)
    else:
        maxbytes = avail + rng.choice([1, 5, 1000])
    k = rng.random()
    if k < 0.3:
        frag = []
    elif k < 0.55:
        frag = [0] * min(4000, n + 40)
    else:
        frag = [rng.choice([0, 0, 1, 2, 3, 6, 15, 100, 5000]) for _ in range(rng.choice([3, 10, 40, 200]))]
    fail_at = rng.choice([0, 1, 2, 3, 5]) if rng.random() < 0.05 else None
    fail_kind = 'io' if fail_at is not None and rng.random() < 0.25 else 'max'
    faults = None
    if fail_at is None and rng.random() < 0.14:
        # transient failures of the connection at the k-th next read() of the raw stream - first, second or later
        # chunk of whatever operation is running - after which the application reads on
        faults = [rng.choice([0, 0, 1, 1, 1, 2, 2, 3, 5, 8]) for _ in range(rng.choice([1, 1, 2, 3]))]
    nops = rng.randint(1, 14 if not big else 6)
    maxline = max(len(x) for x in body.split(b'\n')) + 1
    sizes = [1, 1, 2, 3, 4, 5, 7, max(1, bufsize - 1), bufsize, bufsize + 1, 2 * bufsize + 1, max(1, avail - 1),
             max(1, avail), avail + 1, avail + 10]
    if big:
        sizes = [1, 100, 4096, 8192, 65535, 65536, 65537, bufsize + 1, max(1, avail - 1), avail + 1]
    ops = []
    for _ in range(nops):
        kind = rng.choices(['read', 'readn', 'readline', 'readlinen', 'readlines', 'readlinesh', 'next', 'readfp',
                            'zero', 'rif', 'iter'],
                           weights=[3, 22, 20, 24, 2, 8, 14, 6, 1, 2, 2])[0]
        if kind == 'read':
            ops.append('read')
        elif kind == 'readn':
            ops.append('read:%d' % rng.choice(sizes))
        elif kind == 'readline':
            ops.append('readline')
        elif kind == 'readlinen':
            # the model's line loop is quadratic in the number of chunks per line: keep that <= ~1500
            ok = [x for x in sizes if min(x, bufsize) * 1500 >= maxline]
            ops.append('readline:%d' % rng.choice(ok or [bufsize]))
        elif kind == 'readlines':
            ops.append('readlines')
        elif kind == 'readlinesh':
            ops.append('readlines:%d' % rng.choice(sizes))
        elif kind == 'next':
            ops.append(rng.choice(['next', 'next', 'next', 'nextm']))
        elif kind == 'readfp':
            ops.append(rng.choice(['readfp', 'readfp:%d' % rng.choice(sizes), 'readfp:%d' % rng.choice(sizes)]))
        elif kind == 'rif':
            ops.append(rng.choice(['rif', 'rif', 'rifmk']))
        elif kind == 'iter':
            ops.append('iter')
        else:
            ops.append(rng.choice(['read:0', 'readline:0', 'readlines:0']))
    if rng.random() < 0.6:
        # every way of draining the body: into the return value, into a caller's sink, into the default file,
        # line by line
        ops.append(rng.choice(['read', 'read', 'readlines', 'readfp', 'rif', 'rifmk', 'iter']))
    via = 'wsgi' if rng.random() < 0.3 else 'direct'
    case = {'body_hex': body.hex(), 'length': length, 'maxbytes': maxbytes, 'bufsize': bufsize, 'frag': frag,
            'fail_at': fail_at, 'ops': ops, 'via': via}
    if faults:
        case['faults'] = faults
        if len(ops) < 4:
            case['ops'] = ops + [rng.choice(['read:%d' % rng.choice(sizes), 'readline', 'next', 'readfp:%d' % rng.choice(sizes)])
                                 for _ in range(3)] + ['read']
    if fail_kind == 'io':
        case['fail_kind'] = 'io'    # the stream fails with something that is not the size limit: propagated
    if via == 'wsgi' and rng.random() < 0.04:
        case['nolen411'] = True
        case['length'] = None
    return case


def enum_small():
    """Exhaustive small scope: bodies over {a, LF} of length <= 4, bufsize in {1,2,3}, declared length
    exact or one short, histories of length <= 3 over a 9-op alphabet (sink and iteration included), then a
    draining read()."""
    import itertools
    alpha = ['read:1', 'read:2', 'readline', 'readline:1', 'readline:2', 'readlines:2', 'next', 'readfp:2', 'iter']
    hists = [list(h) for k in (1, 2, 3) for h in itertools.product(alpha, repeat=k)]
    for n in range(0, 5):
        for bits in itertools.product(b'a\n', repeat=n):
            body = bytes(bits)
            for bufsize in (1, 2, 3):
                for length in {n, max(0, n - 1)}:
                    for h in hists:
                        yield {'body_hex': body.hex(), 'length': length, 'maxbytes': None, 'bufsize': bufsize,
                               'frag': [], 'fail_at': None, 'ops': h + ['read'], 'via': 'direct'}


# ----------------------------------------------------------------------------------------------
def _kind(op):
    name, _, arg = op.partition(':')
    return name + ('(n)' if arg else '()')


def case_key(case):
    c, _ = _norm(case)
    return json.dumps([c['body_hex'], c['length'], c['maxbytes'], c['bufsize'], c['fail_at'], c.get('fail_kind'),
                       c['faults'], c['ops'],
                       c['via'], bool(c.get('nolen411')), len(c['frag']), c['frag'][:8]])


def check_cases(ctx, cases, compare=True, stats=True):
    obs_list = [guarded(run_real, c) for c in cases]
    for c, o in zip(cases, obs_list):
        if o is None:
            report_hang(ctx, c, 'the operation history on the request body')
    cases = [c for c, o in zip(cases, obs_list) if o is not None]
    obs_list = [o for o in obs_list if o is not None]
    model = None
    if compare:
        lines = []
        for c, o in zip(cases, obs_list):
            nops = len(o['outs']) if c.get('via') == 'wsgi' else None
            lines.append(model_line(c, nops))
        model = ctx.model(lines)
    for i, (case, obs) in enumerate(zip(cases, obs_list)):
        c, body = _norm(case)
        nontrivial = any(o[:2] in ('b:', 'l:', 'w:', 'y:') and len(o) > 2 for o in obs['outs'])
        ctx.case(case, nontrivial=nontrivial, key=case_key(case))
        if stats:
            ctx.count('via:' + c['via'])
            ctx.count('bodylen:%s' % ('0' if not body else '<=16' if len(body) <= 16 else '<=64' if len(body) <= 64
                                      else '<=300' if len(body) <= 300 else '>4k'))
            ctx.count('length:' + ('absent' if c['length'] is None else 'exact' if c['length'] == len(body)
                                   else 'shorter' if c['length'] < len(body) else 'longer'))
            ctx.count('maxbytes:' + ('none' if not c['maxbytes'] else 'lt' if c['maxbytes'] < len(body)
                                     else 'ge'))
            ctx.count('bufsize:%s' % ('1' if c['bufsize'] == 1 else '2-8' if c['bufsize'] <= 8 else '16-64'
                                      if c['bufsize'] <= 64 else 'big'))
            ctx.count('frag:' + ('whole' if not c['frag'] else '1byte' if set(c['frag']) == {0} else 'random'))
            if c['faults']:
                nf = sum(1 for o in obs['outs'] if _is_fault(o))
                ctx.count('transient_faults_hit:%d' % nf)
                if nf and any(_is_ok(o) and len(o) > 2 for o in obs['outs'][[_is_fault(o) for o in obs['outs']].index(True):]):
                    ctx.count('transient_fault:data_delivered_afterwards')
            for op, o in zip(c['ops'], obs['outs']):
                ctx.count('op:' + _kind(op))
                ctx.count('result:' + ('data' if o.startswith('b:') and len(o) > 2 else 'empty' if o == 'b:'
                                       else 'lines' if o.startswith('l:') else 'sink' if o.startswith('w:')
                                       else 'yielded' if o.startswith('y:')
                                       else o.split('+')[0] + ('+partial' if '+' in o and not o.endswith('+')
                                                               else '')))
            if obs.get('status'):
                ctx.count('status:%s' % obs['status'])
        fails = oracle(case, obs)
        for what, sig in fails:
            ctx.oracle_fail(case, what, sig)
        if model is not None and not c.get('nolen411'):
            ctx.compared()
            m = parse_model(model[i])
            impl = {'outs': obs['outs'], 'off': obs['off']}
            if c['faults']:
                avail_n = len(body if c['length'] is None else body[:c['length']])
                if c['maxbytes'] and avail_n > c['maxbytes']:
                    continue        # limit and fault in one history: the model's fault plan is exact only without
                impl['outs'] = [('e413' + o[2:][len(o[2:].split('+')[0]):]) if _is_fault(o) else o for o in impl['outs']]
            if c.get('fail_kind') == 'io':
                # the model has no such event: compare what happened before it
                k = next((j for j, o in enumerate(impl['outs']) if o.startswith('x:ConnectionResetError')), None)
                if k is not None:
                    impl = {'outs': impl['outs'][:k], 'off': 0}
                    m = {'outs': m['outs'][:k], 'off': 0}
            if impl != m and not fails:
                k = next((j for j, (a, b) in enumerate(zip(impl['outs'], m['outs'])) if a != b), None)
                what = ('op %d (%s)' % (k, c['ops'][k]) if k is not None else
                        'final offset' if impl['outs'] == m['outs'] else 'number of results')
                ctx.disagree(case, impl, m, 'SizedReader and model differ at ' + what)


def corpus_cases():
    d = os.path.join(common.CORPUS, PROPERTY)
    out = []
    if os.path.isdir(d):
        for f in sorted(os.listdir(d)):
            if f.endswith('.json'):
                out.append(json.load(open(os.path.join(d, f))))
    return out


def tables(ctx):
    from . import c05_proc
    return c05_proc.tables(ctx)


def regression_cases(ctx):
    """Witnesses of the repaired defects (findings `fixed`), on both routes and two buffer sizes."""
    out = []
    for e in ctx.known:
        w = e.get('witness')
        if not w or w.get('kind'):
            continue
        for via in ('direct', 'wsgi'):
            for bufsize in (8192, 64):
                c = dict(w)
                c['via'] = via
                c['bufsize'] = bufsize
                out.append(c)
    return out


def _gen_batch(args):
    seed, n, big_every = args
    import random
    rng = random.Random(seed)
    return [gen_case(rng, big=(big_every and i % big_every == big_every - 1)) for i in range(n)]


class _WorkerCtx:
    """Collects what check_cases reports, inside a worker process; merged into the real ctx afterwards."""

    def __init__(self, driver_name):
        self.driver = common.Driver(driver_name)
        self.cases, self.hist, self.fails, self.disagreements, self.ncompared = [], {}, [], [], 0
        self.known = []

    def model(self, lines):
        return self.driver(lines) if self.driver.available() else None

    def case(self, case, nontrivial=True, key=None):
        small = case if len(json.dumps(case)) < 1500 else None
        self.cases.append((key, nontrivial, small))

    def count(self, key, n=1):
        self.hist[key] = self.hist.get(key, 0) + n

    def compared(self, n=1):
        self.ncompared += n

    def oracle_fail(self, case, what, signature=None):
        self.fails.append((case, what, signature))

    def disagree(self, case, impl, model, what=''):
        self.disagreements.append((case, impl, model, what))

    def match_known(self, signature):
        return None

    def kept_fails(self, per_signature=4):
        """At most a few failures per signature, so that a flood of one kind cannot hide another."""
        seen, out = {}, []
        for f in self.fails:
            seen[f[2]] = seen.get(f[2], 0) + 1
            if seen[f[2]] <= per_signature:
                out.append(f)
        return out


def _worker(args):
    seed, n, big_every = args
    w = _WorkerCtx(DRIVER)
    cases = _gen_batch((seed, n, big_every))
    check_cases(w, cases)
    from . import c05_proc
    import random
    rng = random.Random(seed ^ 0x5bd1e995)
    c05_proc.check_cases(w, [c05_proc.gen_case(rng) for _ in range(n // 2)])
    return w.cases, w.hist, w.kept_fails(), w.disagreements[:20], w.ncompared, w.driver.lines


def merge_worker(ctx, res):
    import hashlib
    cases, hist, fails, disagreements, ncompared, lines = res
    for key, nontrivial, small in cases:
        ctx.case(small if small is not None else
                 {'large_case_key_sha1': hashlib.sha1(str(key).encode()).hexdigest()},
                 nontrivial=nontrivial, key=key)
    for k, v in hist.items():
        ctx.count(k, v)
    for case, what, sig in fails:
        ctx.oracle_fail(case, what, sig)
    for d in disagreements:
        ctx.disagree(*d)
    ctx.compared(ncompared)
    if ctx.driver:
        ctx.driver.lines += lines


ANCHORED = ['SizedReader', 'RequestBody.process', 'Entity.read', 'Entity.readline', 'Entity.readlines',
            'Entity.__iter__', 'Entity.__next__', 'Entity.next', 'Entity.read_into_file', 'Entity.make_file']


def run(ctx):
    from . import c05_cov
    c05_cov.start()
    try:
        _run(ctx)
        if not ctx.quick():
            # the worker processes of the thorough tier are not monitored: a sample in this process
            import random
            rng = random.Random(ctx.seed)
            from . import c05_proc
            check_cases(ctx, [gen_case(rng, big=(i % 60 == 59)) for i in range(1500)], compare=False, stats=False)
            c05_proc.check_cases(ctx, [c05_proc.gen_case(rng) for _ in range(1500)], compare=False, stats=False)
        from cherrypy import _cpreqbody
        ctx.extra['anchored_lines_not_executed'] = c05_cov.not_executed(_cpreqbody, ANCHORED)
        ctx.extra['anchored_lines_explained'] = (
            'SizedReader.read: the `raise HTTPError(413)` right after bytes were taken from the push-back buffer '
            'is dead code - buffered bytes were counted and checked when they came off the stream (the model has '
            'the branch; CpProofs.C05.read_post shows the state it needs is unreachable under the invariant)')
    finally:
        c05_cov.stop()


def _run(ctx):
    from . import c05_proc
    check_cases(ctx, regression_cases(ctx))
    corpus = corpus_cases()
    check_cases(ctx, [c for c in corpus if not c.get('kind')])
    c05_proc.check_cases(ctx, [e['witness'] for e in ctx.known if (e.get('witness') or {}).get('kind')]
                         + [c for c in corpus if c.get('kind')], stats=False)
    if ctx.quick():
        cases = [gen_case(ctx.rng, big=(i % 60 == 59)) for i in range(3500)]
        check_cases(ctx, cases)
        c05_proc.check_cases(ctx, [c05_proc.gen_case(ctx.rng) for _ in range(2500)])
        c05_proc.check_cases(ctx, [c05_proc.gen_srvlive(ctx.rng)])
    else:
        nproc = 12
        seeds = [ctx.rng.randrange(1 << 30) for _ in range(nproc * 4)]
        if ctx.model(['N N 1 N - - -']) is None:
            raise common.HarnessError('driver unavailable in thorough tier')
        for res in common.parallel_map(_worker, [(s, 4000, 400) for s in seeds], procs=nproc):
            merge_worker(ctx, res)
        c05_proc.check_cases(ctx, [c05_proc.gen_srvlive(ctx.rng) for _ in range(4)])
        small = list(enum_small())
        check_cases(ctx, small, stats=False)
        ctx.extra['exhaustive_small_scope'] = len(small)


def search(ctx, around=None):
    """Oracle-only hunt, biased to the neighbourhood of a disagreeing case."""
    cases = []
    if around is not None and not around.get('kind'):
        c, body = _norm(around)
        for _ in range(3000):
            d = dict(c)
            d['ops'] = list(c['ops'])
            k = ctx.rng.random()
            if k < 0.3:
                d['bufsize'] = ctx.rng.choice([1, 2, 3, 5, 8, 64, 8192])
            elif k < 0.6 and d['ops']:
                d['ops'].insert(ctx.rng.randrange(len(d['ops']) + 1),
                                ctx.rng.choice(['readline', 'readline:2', 'read:1', 'read:3', 'next']))
            elif k < 0.8:
                d['frag'] = [ctx.rng.choice([0, 1, 3]) for _ in range(50)]
            else:
                d['length'] = ctx.rng.choice([None, len(body), max(0, len(body) - 1)])
            if d['ops'] and d['ops'][-1] != 'read':
                d['ops'].append('read')
            cases.append(d)
    cases += [gen_case(ctx.rng, big=(i % 80 == 79)) for i in range(20000)]
    check_cases(ctx, cases, compare=False, stats=False)
    from . import c05_proc
    c05_proc.check_cases(ctx, [c05_proc.gen_case(ctx.rng) for _ in range(20000)], compare=False, stats=False)
    if not ctx.oracle_failures:
        check_cases(ctx, list(enum_small()), compare=False, stats=False)


def replay(ctx, case):
    if case.get('kind'):
        from . import c05_proc
        obs = c05_proc.RUN[case['kind']](case)
        print('case   :', json.dumps(case)[:1500])
        print('impl   :', json.dumps(obs, default=repr)[:1500])
        m = ctx.model([c05_proc.LINE[case['kind']](case)])
        if m:
            print('model  :', m[0][:1500])
        c05_proc.check_cases(ctx, [case], stats=False)
        return
    obs = run_real(case)
    c, body = _norm(case)
    print('case   :', json.dumps({k: v for k, v in c.items() if k != 'frag'}), 'frag[:12]=', c['frag'][:12])
    print('body   :', repr(body[:200]))
    print('impl   :', json.dumps({'outs': obs['outs'], 'off': obs['off'], 'status': obs.get('status')}))
    nops = len(obs['outs']) if c.get('via') == 'wsgi' else None
    if not c.get('nolen411'):
        m = ctx.model([model_line(case, nops)])
        if m:
            print('model  :', json.dumps(parse_model(m[0])))
    check_cases(ctx, [case], stats=False)
