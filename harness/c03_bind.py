"""C03 - the last step of "reach the handler": binding request.params to the handler's signature.

Generated signatures (bound method / callable object / plain function; positional, positional-only, defaulted,
*args, keyword-only with and without default, **kwargs) are turned into real handlers by `exec`, and the three
functions of the model `lean/CpModel/UrlEncBind.lean` are compared with the live code:

  pyCallOk   vs  a twin function with the same signature, really called   (CPython's own binding rules)
  specCheck  vs  cherrypy._cpdispatch.test_callable_spec(handler, atoms, kwargs)  (called directly, with a stand-in
                 for cherrypy.serving.request that carries body.params)
  respond    vs  whole in-process WSGI requests to an application whose handler has that signature (c03.run_real)

What the statement demands here is only the Python-level consequence of "the handler receives exactly those keys and
values": when CPython can bind the request's parameters to the handler, the handler is called, once, with exactly
those values; which error code a request gets whose parameters do not fit is compared with the model, not judged.
"""
from . import common

PARAMS = ['a', 'b', 'c', 'd']
KWONLY = ['k', 'm']
KEYS = PARAMS + KWONLY + ['zz', 'self', 'args', 'kwargs', 'kw', 'é', 'x', 'y']


def tx(s):
    return '.'.join(str(ord(c)) for c in s) if s else '-'


def gen_sig(rng):
    """A handler signature (dict, JSON-able)."""
    kind = rng.choices(['method', 'callobj', 'plain'], weights=[70, 15, 15])[0]
    nparams = rng.choice([0, 0, 1, 1, 2, 2, 3])
    params = PARAMS[:nparams]
    pos_only = rng.choice([0, 0, 0, 0, 1, nparams]) if nparams else 0
    pos_only = min(pos_only, nparams)
    self_posonly = kind != 'plain' and (pos_only > 0 or rng.random() < 0.1)
    ndefaults = rng.choice([0, 0, 1, nparams]) if nparams else 0
    ndefaults = min(ndefaults, nparams)
    varargs = rng.random() < 0.3
    kwonly = []
    for name in KWONLY[:rng.choice([0, 0, 0, 1, 2])]:
        kwonly.append([name, rng.random() < 0.6])
    varkw = rng.random() < 0.4
    return {'kind': kind, 'params': params, 'pos_only': pos_only, 'self_posonly': self_posonly,
            'defaults': ndefaults, 'varargs': varargs, 'kwonly': kwonly, 'varkw': varkw}


CATCH_ALL = {'kind': 'plain', 'params': [], 'pos_only': 0, 'self_posonly': False, 'defaults': 0, 'varargs': True,
             'kwonly': [], 'varkw': True}


def is_catch_all(sig):
    return (not sig['params'] and not sig['kwonly'] and sig['varargs'] and sig['varkw']
            and (sig['kind'] == 'plain' or sig['self_posonly']))


def param_list(sig):
    """The parameter list as source text (without the parentheses)."""
    out = []
    bound = sig['kind'] != 'plain'
    names = (['self'] if bound else []) + list(sig['params'])
    npos = (1 if bound and sig['self_posonly'] else 0)
    if sig['pos_only']:
        npos = (1 if bound else 0) + sig['pos_only']
    first_default = len(sig['params']) - sig['defaults']
    for i, n in enumerate(names):
        j = i - (1 if bound else 0)          # index among params
        if j >= 0 and j >= first_default:
            out.append('%s=%r' % (n, 'D:' + n))
        else:
            out.append(n)
        if npos and i + 1 == npos:
            out.append('/')
    if sig['varargs']:
        out.append('*args')
    elif sig['kwonly']:
        out.append('*')
    for n, has_default in sig['kwonly']:
        out.append('%s=%r' % (n, 'D:' + n) if has_default else n)
    if sig['varkw']:
        out.append('**kw')
    return ', '.join(out)


def source(sig, fname='default'):
    return 'def %s(%s):\n    _REC(locals())\n    return b"ok"\n' % (
        '__call__' if sig['kind'] == 'callobj' else fname, param_list(sig))


def make_root(sig, rec, fname='default'):
    """A root object whose `fname` attribute is a handler with that signature; `rec(locals_dict)` is called by it."""
    ns = {'_REC': rec}
    exec(compile(source(sig, fname), '<c03-handler>', 'exec'), ns)
    if sig['kind'] == 'method':
        fn = ns[fname]
        fn.exposed = True
        return type('Root', (object,), {fname: fn})()
    if sig['kind'] == 'callobj':
        H = type('H', (object,), {'__call__': ns['__call__'], 'exposed': True})
        return type('Root', (object,), {fname: H()})()
    fn = ns[fname]
    fn.exposed = True
    return type('Root', (object,), {fname: staticmethod(fn)})()


def sig_token(sig):
    bound = sig['kind'] != 'plain'
    return ';'.join([
        tx('self') if bound else 'N',
        '1' if bound and sig['self_posonly'] else '0',
        ','.join(tx(p) for p in sig['params']) or '~',
        str(sig['pos_only']), str(sig['defaults']), '1' if sig['varargs'] else '0',
        ','.join('%s:%d' % (tx(n), 1 if d else 0) for n, d in sig['kwonly']) or '~',
        '1' if sig['varkw'] else '0'])


def kwargs_token(flagged):
    return ','.join('%s:%d' % (tx(k), 1 if b else 0) for k, b in flagged) or '~'


def flatten(sig, loc):
    """What a handler received, from its locals(): (positional values incl. *args, {keyword: value})."""
    loc = dict(loc)
    loc.pop('self', None)
    extra = loc.pop('kw', {}) if sig['varkw'] else {}
    rest = list(loc.pop('args', ())) if sig['varargs'] else []
    named = {k: v for k, v in loc.items()}
    return named, rest, dict(extra)


_twins = {}


def py_bind(sig, atoms, kwargs):
    """CPython's binding rules, by CPython: a twin of the handler (same signature, body `return locals()`) is called
    with the same arguments.  The bound locals (without `self`), or None when the call raises TypeError.
    (inspect.Signature.bind is not used: it rejects a positional-only name passed by keyword even when **kw would
    take it, and it does not see the clash of a key named like the bound `self`.)"""
    key = sig_token(sig)
    if key not in _twins:
        box = []
        root = make_root(sig, box.append)
        _twins[key] = (getattr(root, 'default'), box)
        if len(_twins) > 4000:
            _twins.pop(next(iter(_twins)))
    twin, box = _twins[key]
    del box[:]
    try:
        twin(*atoms, **kwargs)
    except TypeError:
        return None
    loc = dict(box[0])
    loc.pop('self', None)
    return loc


class _Body(object):
    def __init__(self, params):
        self.params = params


class _Req(object):
    def __init__(self, params):
        self.body = _Body(params)


def live_spec(cherrypy, handler, atoms, kwargs, body_keys):
    """cherrypy._cpdispatch.test_callable_spec called directly -> HTTPError status, None (it returned), or
    'raised X' (anything else: PageHandler.__call__ re-raises the TypeError then)."""
    from cherrypy import _cpdispatch
    serving = cherrypy.serving
    old = getattr(serving, 'request', None)
    serving.request = _Req({k: kwargs[k] for k in body_keys})
    try:
        try:
            _cpdispatch.test_callable_spec(handler, list(atoms), dict(kwargs))
        except cherrypy.HTTPError as e:
            return e.status
        except Exception as e:           # noqa: an observation
            return 'raised ' + type(e).__name__
        return None
    finally:
        serving.request = old


def gen_call(rng, sig):
    """(number of path atoms, [(key, from_body)]) aimed at the boundaries of that signature."""
    n = len(sig['params'])
    nargs = rng.choice([0, 0, 0, 1, 1, 2, n, n + 1, max(0, n - 1)])
    names = list(sig['params']) + [k for k, _ in sig['kwonly']]
    pool = names * 3 + KEYS
    nk = rng.choice([0, 1, 1, 2, 2, 3, 4])
    keys = []
    if rng.random() < 0.35:                  # exactly what is required, then perturbed
        keys = [p for p in sig['params'][nargs:len(sig['params']) - sig['defaults']]
                if sig['params'].index(p) >= sig['pos_only']]
        keys += [k for k, d in sig['kwonly'] if not d]
        r = rng.random()
        if r < 0.3 and keys:
            keys.remove(rng.choice(keys))
        elif r < 0.6:
            keys.append(rng.choice(pool))
    else:
        for _ in range(nk):
            keys.append(rng.choice(pool))
    out = []
    for k in keys:
        if k not in [x for x, _ in out]:
            out.append((k, rng.random() < 0.4))
    return nargs, out


def check_units(ctx, cherrypy, n):
    """pyCallOk / specCheck / bindDecision against CPython and the live test_callable_spec."""
    rng = ctx.rng
    cases = []
    for _ in range(n):
        sig = gen_sig(rng)
        for _ in range(6):
            nargs, flagged = gen_call(rng, sig)
            cases.append((sig, nargs, flagged))
    lines = ctx.model(['bind %s %d %s' % (sig_token(s), na, kwargs_token(fl)) for s, na, fl in cases])
    cache = {}
    for i, (sig, nargs, flagged) in enumerate(cases):
        key = sig_token(sig)
        if key not in cache:
            root = make_root(sig, lambda loc: None)
            cache[key] = getattr(root, 'default')
        handler = cache[key]
        atoms = ['p%d' % j for j in range(nargs)]
        kwargs = {k: 'v' + k for k, _ in flagged}
        ok = py_bind(sig, atoms, kwargs) is not None
        spec = live_spec(cherrypy, handler, atoms, kwargs, [k for k, b in flagged if b])
        if isinstance(spec, str):
            spec_c = 'N'
            ctx.count('bind_spec:' + spec)
        else:
            spec_c = 'N' if spec is None else str(spec)
        dec = 'C' if ok else ('500' if spec_c == 'N' else spec_c)
        real = 'ok=%d spec=%s dec=%s' % (1 if ok else 0, spec_c, dec)
        case = {'kind': 'bind', 'sig': sig, 'nargs': nargs, 'kwargs': [[k, b] for k, b in flagged]}
        ctx.case(case, nontrivial=bool(flagged or nargs), key='bind|%s|%d|%s' % (key, nargs, kwargs_token(flagged)))
        ctx.count('bind_decision:' + dec)
        ctx.count('bind_kind:' + sig['kind'])
        if lines is not None:
            ctx.compared()
            if lines[i] != real:
                ctx.disagree(case, real, lines[i], 'binding decision differs (def default(%s), %d path atoms, keys %r)'
                             % (param_list(sig), nargs, flagged))


def replay_unit(ctx, cherrypy, case):
    sig, nargs = case['sig'], case['nargs']
    flagged = [(k, b) for k, b in case['kwargs']]
    handler = getattr(make_root(sig, lambda loc: None), 'default')
    atoms = ['p%d' % j for j in range(nargs)]
    kwargs = {k: 'v' + k for k, _ in flagged}
    print('handler: def default(%s)' % param_list(sig))
    print('python binds:', py_bind(sig, atoms, kwargs))
    print('test_callable_spec:', live_spec(cherrypy, handler, atoms, kwargs, [k for k, b in flagged if b]))
    print('model:', ctx.model(['bind %s %d %s' % (sig_token(sig), nargs, kwargs_token(flagged))]))


__all__ = ['gen_sig', 'gen_call', 'make_root', 'sig_token', 'kwargs_token', 'flatten', 'py_bind', 'check_units',
           'is_catch_all', 'param_list', 'CATCH_ALL', 'replay_unit', 'common']
