"""C01 - which lines of the anchored functions the run executes.

`sys.monitoring` LINE events restricted to the code objects of the functions the property is anchored in (the WSGI
adapter and middleware of _cpwsgi.py, release_serving, Request.run / respond / _do_respond / handle_error / close,
ResponseBody.__set__, Response.finalize / collapse_body / _flush_body, the exception classes' set_response,
get_error_page, bare_error, file_generator, is_closable_iterator).  Every location reports once and is then disabled,
so the cost is negligible.  Lines that never ran end up in ctx.extra['anchored_lines_not_executed'].
"""
import importlib
import linecache
import os
import sys
import types

# (module, [qualified names])
ANCHORED = [
    ('cherrypy._cpwsgi', ['InternalRedirector.__call__', 'ExceptionTrapper.__call__', '_TrappedResponse.__init__',
                          '_TrappedResponse.__iter__', '_TrappedResponse.__next__', '_TrappedResponse.close',
                          '_TrappedResponse.trap', 'AppResponse.__init__', 'AppResponse.__iter__', 'AppResponse.__next__',
                          'AppResponse.close', 'AppResponse.run']),
    ('cherrypy._cptree', ['Application.release_serving', 'Application.get_serving']),
    ('cherrypy._cprequest', ['Request.run', 'Request.respond', 'Request._do_respond', 'Request.handle_error',
                             'Request.close', 'ResponseBody.__set__', 'Response.finalize', 'Response.collapse_body',
                             'Response._flush_body', 'HookMap.run', 'HookMap.run_hooks']),
    ('cherrypy._cperror', ['InternalRedirect.__init__', 'HTTPRedirect.set_response', 'HTTPError.__init__',
                           'HTTPError.set_response', 'HTTPError.get_error_page', 'clean_headers', 'get_error_page',
                           'bare_error', 'format_exc']),
    ('cherrypy.lib', ['is_iterator', 'is_closable_iterator', 'file_generator.__next__']),
    ('cherrypy.lib.encoding', ['prepare_iter']),
]

# why a line that never runs cannot run in this harness: (function, substring of the source line, reason)
EXPLAINED = [
    ('Request.run', 'raise', 'request.throw_errors is off in the statement'),
    ('Request.respond', 'raise', 'request.throw_errors is off in the statement'),
    ('Request._do_respond', 'raise cherrypy.NotFound()', 'Request.app is never None for a request created by Application.get_serving'),
    ('_TrappedResponse.trap', 'raise', 'KeyboardInterrupt / SystemExit are excluded by the statement; start_response supplied by the server '
                                       'does not raise (assumption)'),
    ('_TrappedResponse.trap', 'except Exception:', 'start_response supplied by the server does not raise (assumption)'),
    ('_TrappedResponse.trap', '_cherrypy.log(traceback=True', 'start_response supplied by the server does not raise (assumption)'),
    ('get_error_page', 'except ValueError:', 'HTTPError.set_response passes a status its constructor validated; only a direct call '
                                             'of get_error_page by user code gets here'),
    ('get_error_page', 'raise cherrypy.HTTPError(500', 'as above'),
    ('get_error_page', "kwargs['message'] = message", 'HTTPError always passes its message; only a direct call gets here'),
    ('get_error_page', "kwargs[k] = ''", 'HTTPError passes no None values; only a direct call gets here'),
    ('format_exc', "return ''", 'only outside an except block'),
    ('is_closable_iterator', 'return False', 'AppResponse.iter_response is the result of iter(): always an iterator'),
    ('is_iterator', 'return False', 'AppResponse.iter_response is the result of iter(): always an iterator'),
]


def _funcs(obj):
    if isinstance(obj, (classmethod, staticmethod)):
        obj = obj.__func__
    if isinstance(obj, property):
        return [f for f in (obj.fget, obj.fset, obj.fdel) if f is not None]
    if isinstance(obj, types.FunctionType):
        return [obj]
    w = getattr(obj, '__wrapped__', None)
    if isinstance(w, types.FunctionType):
        return [w]
    f = getattr(obj, '__func__', None)
    if isinstance(f, types.FunctionType):
        return [f]
    return []


class Coverage(object):
    def __init__(self):
        self.codes = {}
        self.hit = set()
        self.tid = None
        self.missing_anchors = []
        for modname, names in ANCHORED:
            try:
                mod = importlib.import_module(modname)
            except Exception:
                self.missing_anchors.append(modname)
                continue
            for qn in names:
                obj = mod
                try:
                    for part in qn.split('.'):
                        obj = vars(obj)[part] if isinstance(obj, type) else getattr(obj, part)
                except (AttributeError, KeyError):
                    self.missing_anchors.append('%s.%s' % (modname, qn))
                    continue
                fs = _funcs(obj)
                if not fs:
                    self.missing_anchors.append('%s.%s' % (modname, qn))
                for f in fs:
                    self._code(f.__code__)

    def _code(self, code):
        if code in self.codes:
            return
        self.codes[code] = True
        for c in code.co_consts:
            if isinstance(c, types.CodeType):
                self._code(c)

    def executable(self):
        out = set()
        for code in self.codes:
            for _, _, line in code.co_lines():
                if line is not None and line != code.co_firstlineno:
                    out.add((code.co_filename, line, code.co_qualname))
        return out

    def _line(self, code, line):
        self.hit.add((code.co_filename, line))
        return sys.monitoring.DISABLE

    def start(self):
        mon = getattr(sys, 'monitoring', None)
        if mon is None:
            return False
        for tid in (3, 4, 5, 2):
            try:
                mon.use_tool_id(tid, 'c01-cov')
            except ValueError:
                continue
            self.tid = tid
            break
        if self.tid is None:
            return False
        mon.register_callback(self.tid, mon.events.LINE, self._line)
        for code in self.codes:
            mon.set_local_events(self.tid, code, mon.events.LINE)
        return True

    def stop(self):
        if self.tid is None:
            return
        mon = sys.monitoring
        try:
            for code in self.codes:
                mon.set_local_events(self.tid, code, 0)
            mon.register_callback(self.tid, mon.events.LINE, None)
            mon.free_tool_id(self.tid)
        except ValueError:
            pass
        self.tid = None

    def hits(self):
        return sorted(self.hit)

    def add_hits(self, hits):
        for f, l in hits:
            self.hit.add((f, l))

    def report(self, ctx):
        ex = self.executable()
        missed = sorted((f, l, q) for f, l, q in ex if (f, l) not in self.hit)
        lines = []
        unexplained = 0
        for f, l, q in missed:
            src = linecache.getline(f, l).strip()
            rel = f.split(os.sep + 'cherrypy' + os.sep, 1)[-1]
            why = [w for fn, sub, w in EXPLAINED if q.endswith(fn) and sub in src]
            if not why:
                unexplained += 1
            lines.append('%s:%d %s: %s%s' % (rel, l, q, src[:100], '   [%s]' % why[0] if why else ''))
        ctx.extra['anchored_lines_executable'] = len(ex)
        ctx.extra['anchored_lines_executed'] = len(ex) - len(missed)
        ctx.extra['anchored_lines_not_executed'] = lines
        ctx.extra['anchored_lines_not_executed_unexplained'] = unexplained
        if self.missing_anchors:
            ctx.extra['anchored_functions_not_found'] = self.missing_anchors
        ctx.count('anchored_lines_not_executed', len(lines))
        ctx.count('anchored_lines_executable', len(ex))


_current = {'cov': None}


def start():
    """start measuring in this process; returns the Coverage object (measuring or not)"""
    cov = Coverage()
    if cov.start():
        _current['cov'] = cov
    return cov


def current():
    return _current['cov']


def stop():
    cov = _current['cov']
    if cov is not None:
        cov.stop()
    _current['cov'] = None
    return cov
