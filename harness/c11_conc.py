"""C11: two requests on two real threads under a baton scheduler that pre-empts at line granularity
inside cherrypy/lib/static.py (whole file) and cherrypy/lib/sessions.py (Session / FileSession / hook
functions).  A static-serving (or session-path) decision must be a function of the request and its
section's configuration only: every interleaving has to give each request the status and the touched
paths it gets when it runs alone, and each request has to stay inside ITS root.

A plan is a list of segments [tid, k]: thread `tid` runs k traced lines and is pre-empted right before
the next one (k = None: until it finishes).  When the plan is used up the live threads finish in order.
"""
import random
import sys
import threading

from . import common


class Baton:
    def __init__(self, plan, n_threads, timeout=20.0):
        self.plan = [list(p) for p in plan]
        self.n = n_threads
        self.timeout = timeout
        self.cv = threading.Condition()
        self.seg = 0
        self.left = self.plan[0][1] if self.plan else None
        self.done = set()
        self.steps = {t: 0 for t in range(n_threads)}
        self.free = False           # gave up scheduling (stuck): everybody runs
        self.stuck = False
        self.switches = 0

    def _advance(self):
        self.seg += 1
        self.left = self.plan[self.seg][1] if self.seg < len(self.plan) else None

    def _current(self):
        while self.seg < len(self.plan) and self.plan[self.seg][0] in self.done:
            self._advance()
        if self.seg < len(self.plan):
            return self.plan[self.seg][0]
        live = [t for t in range(self.n) if t not in self.done]
        return live[0] if live else None

    def _wait_turn(self, tid):
        while not self.free and self._current() != tid:
            if not self.cv.wait(self.timeout):
                self.stuck = True
                self.free = True
                self.cv.notify_all()

    def start(self, tid):
        with self.cv:
            self._wait_turn(tid)

    def step(self, tid):
        if self.free:
            return
        with self.cv:
            self.steps[tid] += 1
            if self.seg < len(self.plan) and self.plan[self.seg][0] == tid and self.left is not None:
                if self.left <= 0:
                    self._advance()
                    self.switches += 1
                    self.cv.notify_all()
                    self._wait_turn(tid)
                else:
                    self.left -= 1

    def finish(self, tid):
        with self.cv:
            self.done.add(tid)
            self.cv.notify_all()


def make_tracer(baton, tid, traced):
    """`traced`: {filename: None | tuple of qualname prefixes}."""
    def local(frame, event, arg):
        if event == 'line':
            baton.step(tid)
        return local

    def tracer(frame, event, arg):
        if event == 'call':
            co = frame.f_code
            q = traced.get(co.co_filename, 0)
            if q is None or (q != 0 and co.co_qualname.startswith(q)):
                return local
        return None
    return tracer


SESS_QUALS = ('FileSession.', 'Session.__init__', 'Session._regenerate', 'Session.id')


class Deadlock(Exception):
    """A request thread never came back although everybody was allowed to run: the code under test blocks
    for good under this interleaving.  Not a path question (the statement is silent about it) and nothing this
    process can recover from: the sweep stops and says so."""


def run_threads(sb, app, reqs, plan, traced, stuck_after=20.0):
    """Run the requests, one thread each, under `plan`.  Returns ([per-request result], baton).  A thread that
    blocks while it holds the baton (the code under test took a lock the pre-empted thread holds) makes the
    plan infeasible: after `stuck_after` seconds everybody runs freely (`baton.stuck`), the results are still
    judged."""
    from . import c11_fs as fs
    baton = Baton(plan, len(reqs), timeout=stuck_after)
    results = [None] * len(reqs)
    errors = []

    def worker(tid, req):
        try:
            st = fs.TAP.register()
            sb.cur = {'label': req['label'], 'gen_n': 0}
            baton.start(tid)
            sys.settrace(make_tracer(baton, tid, traced))
            try:
                status, body = sb.call(app, 'GET', '', req['path'], req.get('qs', ''), req.get('cookie'))
            finally:
                sys.settrace(None)
            results[tid] = {'status': status, 'body': body, 'log': list(st.log),
                            'cookie_seen': sb.cur.get('cookie_seen')}
        except BaseException as e:      # noqa - reported below
            errors.append((tid, e))
        finally:
            baton.finish(tid)

    fs.TAP.open()
    try:
        threads = [threading.Thread(target=worker, args=(i, r), name='c11-%d' % i) for i, r in enumerate(reqs)]
        for t in threads:
            t.start()
        for t in threads:
            t.join(60 + stuck_after)
            if t.is_alive():
                baton.free = True
                with baton.cv:
                    baton.cv.notify_all()
                t.join(30)
                if t.is_alive():
                    raise Deadlock('thread %s did not finish under plan %r' % (t.name, plan))
    finally:
        fs.TAP.close()
    for tid, e in errors:
        if isinstance(e, common.HarnessError) or fs.origin(e) != 'code':
            raise common.HarnessError('scheduler worker %d raised %r' % (tid, e))
        results[tid] = {'status': fs.describe(e), 'body': b'', 'log': [], 'cookie_seen': None}
    return results, baton


def plans_one(n, first):
    """All schedules with at most one pre-emption of `first` (the other thread runs in between)."""
    other = 1 - first
    return [[[first, k], [other, None], [first, None]] for k in range(0, n[first] + 1)]


def plans_two(n, first):
    other = 1 - first
    return [[[first, k1], [other, k2], [first, None], [other, None]]
            for k1 in range(0, n[first]) for k2 in range(1, n[other])]


def run_conc(sb, case):
    from . import c11_fs as fs
    half = case['half']
    if half == 'static':
        app, roots, reqs = sb.conc_static(case)
        traced = {sb.static.__file__: None}
    else:
        app, roots, reqs = sb.conc_session(case)
        traced = {sb.sessions.__file__: SESS_QUALS, sb.static.__file__: None}
    restore = (lambda: sb.restore()) if half == 'session' else (lambda: [])

    def summary(res):
        return {'status': res['status'], 'acc': fs.Sandboxes.canon_acc(res['log']),
                'body': sb.content.get(res['body'], None) if res['status'] == '200' else None}

    # each request alone: the reference, and the number of traced lines
    import time
    seq, n = [], {}
    slowest = 0.0
    for i, r in enumerate(reqs):
        t0 = time.time()
        try:
            res, baton = run_threads(sb, app, [r], [[0, None]], traced)
        except Deadlock as e:
            return {'oracle': [], 'hist': ['conc:%s:request-alone-never-returns' % half],
                    'code_raised': 'hang: %s' % e}
        slowest = max(slowest, time.time() - t0)
        seq.append(summary(res[0]))
        n[i] = baton.steps[0]
        restore()
    # a thread that holds the baton and makes no progress for this long is blocked on the other thread
    stuck_after = min(20.0, max(3.0, 100 * slowest))
    # State left behind by earlier requests (module globals, class attributes, caches) is part of what a
    # schedule runs against.  Every schedule therefore starts from a stated history: the requests run alone,
    # untraced, in the order `pre` - which makes a failing (pre, plan) replayable on its own.
    mode = case.get('mode', 'sweep1')
    orders = [[0, 1], [1, 0]]
    if mode == 'plan':
        plans = [(case.get('pre', [0, 1]), case['plan'])]
    elif mode == 'sweep1':
        plans = [(pre, pl) for pre in orders for pl in plans_one(n, 0) + plans_one(n, 1)]
    else:
        rnd = random.Random(case.get('seed', 0))
        plans = plans_two(n, 0) + plans_two(n, 1)
        if case.get('samples') and len(plans) > case['samples']:
            plans = rnd.sample(plans, case['samples'])
        plans = [(orders[rnd.randrange(2)], pl) for pl in plans]
    bad, ran, switched, stuck, dead = [], 0, 0, 0, 0
    for pre, plan in plans:
        for i in pre:
            sb.cur = {'label': 'pre%d' % i, 'gen_n': 0}
            sb.call(app, 'GET', '', reqs[i]['path'], reqs[i].get('qs', ''), reqs[i].get('cookie'))
        sb.cur = {}
        restore()
        try:
            res, baton = run_threads(sb, app, reqs, plan, traced, stuck_after)
        except Deadlock:
            dead += 1
            break                   # threads of this process are lost: nothing more can be scheduled here
        changed = restore()
        ran += 1
        switched += 1 if baton.switches else 0
        if baton.stuck:
            stuck += 1              # infeasible plan (the pre-empted thread holds a lock the other one wants)
            if stuck >= 3:
                break
        replay = dict(case, mode='plan', plan=plan, pre=pre)
        replay.pop('samples', None)
        replay.pop('seed', None)
        found = []
        for i, r in enumerate(res):
            for what, sig in sb.judge(roots[i], r['log'], []):
                found.append(('request %d (%s) after %s under plan %s: %s' % (i, reqs[i]['show'], pre, plan, what),
                              'conc_' + sig))
            got = summary(r)
            if got != seq[i]:
                found.append(('request %d (%s) after %s under plan %s: alone it gets %s, interleaved %s'
                              % (i, reqs[i]['show'], pre, plan, _short(seq[i]), _short(got)),
                              'conc_differs_from_sequential'))
        for rel in changed:
            p = sb.top + '/' + rel
            if not any(p == rt or p.startswith(rt + '/') for rt in roots):
                found.append(('under plan %s the tree outside both roots changed: %s' % (plan, rel),
                              'conc_outside_modified'))
        for what, sig in found:
            bad.append((what.replace(sb.top, '{TOP}'), sig, replay))
        if len(bad) >= 6:
            break
    return {'oracle': bad, 'seq': [_short(x) for x in seq], 'lines': [n[i] for i in range(len(reqs))],
            'hist': ['conc:%s:%s' % (half, mode)],
            'counts': {'conc:schedules-run': ran, 'conc:schedules-with-a-switch': switched,
                       'conc:schedules-infeasible(blocked)': stuck, 'conc:deadlocks': dead}}


def _short(x):
    return {'status': x['status'], 'acc': [[op, p.rsplit('/c11-', 1)[-1]] for op, p in x['acc']], 'body': x['body']}
