"""C14 - which lines of the anchored functions the run executes.

`sys.monitoring` LINE events restricted to the code objects of the functions the property is anchored in; every
location reports once per process and is then disabled, so the cost is negligible.  In the thorough tier the evaluation
happens in forked children: each child starts its own measurement and ships the new hits back with its results.  Lines
that never ran end up in ctx.extra['anchored_lines_not_executed'] (file:line function: source text).
"""
import importlib
import linecache
import os
import sys
import types

# (module, [qualified names])
ANCHORED = [
    ('cherrypy.lib.sessions', [
        'Session.id', 'Session.__init__', 'Session.now', 'Session.regenerate', 'Session._regenerate',
        'Session.clean_up', 'Session.generate_id', 'Session.save', 'Session.load', 'Session.delete',
        'Session.__getitem__', 'Session.__setitem__', 'Session.__delitem__', 'Session.pop',
        'Session.__contains__', 'Session.get', 'Session.update', 'Session.setdefault', 'Session.clear',
        'Session.keys', 'Session.items', 'Session.values',
        'RamSession.clean_up', 'RamSession._exists', 'RamSession._load', 'RamSession._save',
        'RamSession._delete', 'RamSession.__len__',
        'FileSession.__init__', 'FileSession.setup', 'FileSession._get_file_path', 'FileSession._exists',
        'FileSession._load', 'FileSession._save', 'FileSession._delete', 'FileSession.clean_up',
        'FileSession.__len__',
        'MemcachedSession.setup', 'MemcachedSession._exists', 'MemcachedSession._load',
        'MemcachedSession._save', 'MemcachedSession._delete', 'MemcachedSession.__len__',
        'save', 'close', 'init', 'set_response_cookie', '_add_MSIE_max_age_workaround', 'expire']),
    ('cherrypy._cptools', ['SessionTool._setup', 'SessionTool.regenerate', 'SessionTool._lock_session']),
]

def _funcs(obj):
    if isinstance(obj, (classmethod, staticmethod)):
        obj = obj.__func__
    if isinstance(obj, property):
        return [f for f in (obj.fget, obj.fset) if isinstance(f, types.FunctionType)]
    if isinstance(obj, types.FunctionType):
        return [obj]
    f = getattr(obj, '__func__', None)
    if isinstance(f, types.FunctionType):
        return [f]
    return []


class Coverage(object):
    def __init__(self):
        self.codes = {}
        self.hit = set()
        self.fresh = []
        self.tid = None
        self.missing_anchors = []
        for modname, names in ANCHORED:
            try:
                mod = importlib.import_module(modname)
            except Exception:
                self.missing_anchors.append(modname)
                continue
            for qn in names:
                obj = mod
                try:
                    for part in qn.split('.'):
                        obj = vars(obj)[part] if isinstance(obj, type) else getattr(obj, part)
                except (AttributeError, KeyError):
                    self.missing_anchors.append('%s.%s' % (modname, qn))
                    continue
                fs = _funcs(obj)
                if not fs:
                    self.missing_anchors.append('%s.%s' % (modname, qn))
                for f in fs:
                    self._code(f.__code__)

    def _code(self, code):
        if code in self.codes:
            return
        self.codes[code] = True
        for c in code.co_consts:
            if isinstance(c, types.CodeType):
                self._code(c)

    def executable(self):
        out = set()
        for code in self.codes:
            for _, _, line in code.co_lines():
                if line is not None and line != code.co_firstlineno:
                    out.add((code.co_filename, line, code.co_qualname))
        return out

    def _line(self, code, line):
        k = (code.co_filename, line)
        if k not in self.hit:
            self.hit.add(k)
            self.fresh.append(k)
        return sys.monitoring.DISABLE

    def start(self):
        mon = getattr(sys, 'monitoring', None)
        if mon is None:
            return False
        for tid in (3, 4, 5, 2):
            try:
                mon.use_tool_id(tid, 'c14-cov')
            except ValueError:
                continue
            self.tid = tid
            break
        if self.tid is None:
            return False
        mon.register_callback(self.tid, mon.events.LINE, self._line)
        for code in self.codes:
            mon.set_local_events(self.tid, code, mon.events.LINE)
        return True

    def take(self):
        """The lines hit since the last call (picklable)."""
        out, self.fresh = self.fresh, []
        return out


_active = []


def start():
    """Start measuring in this process (idempotent); None when sys.monitoring is unavailable."""
    if _active:
        return _active[0]
    try:
        cov = Coverage()
        if cov.start():
            _active.append(cov)
            return cov
    except Exception:
        pass
    return None


def take():
    return _active[0].take() if _active else []


def report(ctx, hits, explain):
    """`explain(relpath, qualname, source)` -> reason or None: the lines with a reason are listed separately."""
    cov = _active[0] if _active else Coverage()
    ex = cov.executable()
    hits = set(hits)
    missed = sorted((f, l, q) for f, l, q in ex if (f, l) not in hits)
    lines, explained = [], []
    for f, l, q in missed:
        src = linecache.getline(f, l).strip()
        rel = f.split(os.sep + 'cherrypy' + os.sep, 1)[-1]
        text = '%s:%d %s: %s' % (rel, l, q, src[:100])
        why = explain(rel, q, src)
        if why:
            explained.append(text + '   # ' + why)
        else:
            lines.append(text)
    ctx.extra['anchored_lines_executable'] = len(ex)
    ctx.extra['anchored_lines_executed'] = len(ex) - len(missed)
    ctx.extra['anchored_lines_not_executed'] = lines
    ctx.extra['anchored_lines_not_executed_by_design'] = explained
    if cov.missing_anchors:
        ctx.extra['anchored_functions_not_found'] = cov.missing_anchors
    ctx.count('anchored_lines_not_executed', len(lines))
    ctx.count('anchored_lines_not_executed_by_design', len(explained))
    ctx.count('anchored_lines_executable', len(ex))
