"""C08 - `cherrypy.config.update(...)`: a flat dict, a dict with a `global` section, an INI file object, an INI
file name; `environment` expansion from the live `Config.environments`; what is handed to the namespaces.
Runs on a private `_cpconfig.Config` instance whose namespace set is a set of recorders (nothing global is
touched).  Model: lean/CpModel/ConfigUpdate.lean, theorems: lean/CpProofs/C08Upd.lean.
"""
import io
import json
import os
import shutil
import tempfile

from . import c02_tree as T

KEYS = ['k1', 'ns.k3', 'log.screen', 'checker.on', 'engine.autoreload.on', 'tools.log_headers.on', 'request.show_tracebacks',
        'request.show_mismatched_params', 'engine.SIGHUP', 'tools.staticdir.dir', 'tools.p1.on']
VALUES = [True, False, None, 0, 1, 'v', '']
RECORDED_NS = ['engine', 'checker', 'log', 'tools', 'request', 'ns', 'server']


def gen_upd_case(rng):
    import cherrypy
    envs = sorted(cherrypy._cpconfig.environments)
    steps = []
    for _ in range(rng.choice([1, 1, 2, 3])):
        c = {}
        for k in KEYS:
            if rng.random() < 0.25:
                c[k] = rng.choice(VALUES)
        r = rng.random()
        if r < 0.45:
            c['environment'] = rng.choice(envs)
        elif r < 0.52:
            c['environment'] = rng.choice(['nosuch_env', '', None, 'Production'])
        if rng.random() < 0.5:
            items = list(c.items())
            rng.shuffle(items)
            c = dict(items)
        form = rng.choice(['dict', 'gdict', 'gdict+', 'ini', 'ini+', 'file', 'setitem'])
        if form == 'setitem':
            k = rng.choice(KEYS + ['environment'])
            c = {k: rng.choice(VALUES + ['production'])}
        other = {}
        if form in ('gdict+', 'ini+', 'file') and rng.random() < 0.7:
            other = {'/': {'k1': 'S:/', 'environment': 'production'}, '/a': {'log.screen': True}}
        steps.append({'conf': c, 'form': form, 'other': other})
    return {'upd': {'steps': steps}}


def ini_of(sections):
    out = []
    for name, conf in sections.items():
        out.append('[%s]' % name)
        for k, v in conf.items():
            out.append('%s = %s' % (k, repr(v).replace('%', '%%')))
        out.append('')
    return '\n'.join(out)


def run_upd_real(case):
    import cherrypy
    from cherrypy.lib import reprconf
    handed = []
    nsset = reprconf.NamespaceSet()
    for ns in RECORDED_NS:
        nsset[ns] = (lambda ns: lambda k, v: handed[-1].append((ns + '.' + k, v)))(ns)
    cfg = cherrypy._cpconfig.Config()
    cfg.namespaces = nsset
    cfg.clear()
    files = cherrypy.engine.autoreload.files
    before_files = set(files)
    tmpdir = None
    out = []
    try:
        for st in case['upd']['steps']:
            handed.append([])
            c, form = dict(st['conf']), st['form']
            sections = dict(st['other'])
            sections['global'] = c
            try:
                if form == 'setitem':
                    for k, v in c.items():
                        cfg[k] = v
                elif form == 'dict':
                    cfg.update(c)
                elif form in ('gdict', 'gdict+'):
                    cfg.update({k: dict(v) for k, v in sections.items()})
                elif form in ('ini', 'ini+'):
                    cfg.update(io.StringIO(ini_of(sections)))
                else:
                    if tmpdir is None:
                        tmpdir = tempfile.mkdtemp(prefix='c08u')
                    fn = os.path.join(tmpdir, 'g%d.ini' % len(out))
                    with open(fn, 'w') as f:
                        f.write(ini_of(sections))
                    cfg.update(fn)
                err = None
            except KeyError:
                err = 'KeyError'
            except Exception as e:
                err = 'other:' + type(e).__name__
            out.append({'err': err, 'config': dict(cfg), 'handed': list(handed[-1])})
    finally:
        for f in list(files):
            if f not in before_files:
                files.discard(f)
        if tmpdir is not None:
            shutil.rmtree(tmpdir, ignore_errors=True)
    return out


def ref_update(envs, cfg, conf):
    """The documented meaning: the update's own entries, plus - when it names an environment - the entries of
    that environment's template for the keys the update does not set itself; all of it overlaid on the config."""
    c = dict(conf)
    if 'tools.staticdir.dir' in c:
        c['tools.staticdir.section'] = 'global'
    which = c.get('environment')
    if which:
        if which not in envs:
            return None
        for k, v in envs[which].items():
            c.setdefault(k, v)
    new = dict(cfg)
    new.update(c)
    return new, c


def check_upd_cases(ctx, cases, compare_model=True):
    import cherrypy
    envs = cherrypy._cpconfig.environments
    lines, meta = [], []
    for case in cases:
        ctx.case(case, nontrivial=True, key='upd:' + json.dumps(case['upd'], sort_keys=True, default=repr))
        obs = run_upd_real(case)
        cfg = {}
        for st, o in zip(case['upd']['steps'], obs):
            ctx.count('upd:form:' + st['form'])
            if st['form'] != 'setitem':
                ctx.count('upd:env:' + ('none' if 'environment' not in st['conf'] else
                                        ('known' if st['conf']['environment'] in envs else 'unknown/falsy')))
            if st['form'] == 'setitem':
                # one entry assigned: stored as it is (no environment template), handed to its namespace
                new = dict(cfg)
                new.update(st['conf'])
                want = (new, dict(st['conf']))
            else:
                want = ref_update(envs, cfg, st['conf'])
            if want is None:
                if o['err'] != 'KeyError':
                    ctx.oracle_fail(case, 'update naming the unknown environment %r: %s, config %s'
                                    % (st['conf'].get('environment'), o['err'] or 'no error', o['config']), 'environment_unknown')
            else:
                new, c = want
                routed = [(k, v) for k, v in c.items() if '.' in k and k.split('.', 1)[0] in RECORDED_NS]
                if o['err'] is not None or o['config'] != new:
                    diff = {k: (o['config'].get(k), new.get(k)) for k in set(new) | set(o['config']) if o['config'].get(k, KeyError) != new.get(k, KeyError)}
                    ctx.oracle_fail(case, 'cherrypy.config.update(%s as %s) on %s: %s, {key: (got, want)} = %s'
                                    % (st['conf'], st['form'], cfg, o['err'] or 'done', diff), 'config_update')
                elif sorted(o['handed'], key=repr) != sorted(routed, key=repr):
                    ctx.oracle_fail(case, 'cherrypy.config.update(%s as %s) handed %s to the namespaces, the update (with its environment) holds %s'
                                    % (st['conf'], st['form'], o['handed'], routed), 'config_update_namespaces')
            form = 'F' if st['form'] == 'dict' else 'S'
            if st['form'] == 'setitem':
                (k, v), = st['conf'].items()
                lines.append('cfgset %s %s %s' % (T.enc_conf(cfg) if cfg else 'E', T.enc_text(k), T.enc_val(v)))
                meta.append((case, o))
                cfg = dict(o['config'])
                continue
            if form == 'F':
                payload = T.enc_conf(st['conf']) if st['conf'] else 'E'
            else:
                secs = dict(st['other'])
                secs['global'] = st['conf']
                payload = ';'.join('%s|%s' % (T.enc_text(n), T.enc_conf(c) if c else 'E') for n, c in secs.items())
            lines.append('cfgupd %s %s %s' % (T.enc_conf(cfg) if cfg else 'E', form, payload))
            meta.append((case, o))
            cfg = dict(o['config'])
    if not compare_model:
        return
    out = ctx.model(lines)
    if out is None:
        return
    for (case, o), mline in zip(meta, out):
        if mline == '?':
            ctx.count('upd:model_not_modelled')
            continue
        ctx.compared()
        if o['err'] is not None:
            mine = 'ERR'
        else:
            ns = {k: v for k, v in o['handed']}
            mine = 'K=%s' % (T.enc_conf(o['config']) if o['config'] else 'E')
            mline_k = mline.split(' NS=')[0]
            if mline_k != mine:
                ctx.disagree(case, mine, mline, 'global config after update differs')
                continue
            # what the recorders saw is the routed part of what the model says was handed over
            mh = mline.split(' NS=')[1]
            from .c08_hist import dec_conf
            mroute = {k: v for k, v in dec_conf(mh).items() if '.' in k and k.split('.', 1)[0] in RECORDED_NS}
            if mroute != ns:
                ctx.disagree(case, ns, mroute, 'entries handed to the namespaces differ')
            continue
        if mline != mine:
            ctx.disagree(case, mine, mline, 'update outcome differs')
