"""C13: whole in-process WSGI requests (sessions tool on, RAM backend) on real threads under the
deterministic scheduler.  Oracle only (no model comparison): the probe handler performs a
read-modify-write of a session counter — in the handler body or inside a streamed generator — with
a yield point between the read and the write.

case = {'kind': 'wsgi', 'n': 2|3, 'mode': implicit|early, 'where': handler|stream, 'cache': [v, exp],
        'tbl': bool, 'sched': [tokens]}      tokens as in c13_ram ('<i>', 'S', 'K<d>')
"""
from __future__ import annotations

import datetime as _dt

from . import common
from . import c13_sched as S
from . import c13_ram as RAM
from .c13_req import _environ

SID = RAM.SID


class WsgiRun:
    def __init__(self, n, mode, where, cache, tbl):
        import cherrypy
        self.cherrypy = cherrypy
        self.n = n
        self.sched = S.Sched(interesting=RAM.interesting)
        self.P = RAM.Patched(self.sched)
        self.P.__enter__()
        R = self.R = self.P.sessions.RamSession
        if cache is not None:
            dict.__setitem__(R.cache, SID, ({'n': cache[0]},
                                            RAM.BASE + _dt.timedelta(seconds=RAM.UNIT * cache[1])))
        if tbl:
            dict.__setitem__(R.locks, SID, S.InstrRLock(self.sched))
        self.occ = {}
        self.max_occ = 0
        self.version = {}
        self.lost = False
        self.increments = 0
        self.statuses = {}
        self.orphan_acquire = False
        run = self

        def rmw():
            sess = cherrypy.session
            sid = sess.id                      # occupancy / versions are per session id
            run.occ[sid] = run.occ.get(sid, 0) + 1
            run.max_occ = max(run.max_occ, run.occ[sid])
            try:
                v = sess.get('n', 0)
                seen = run.version.get(sid, 0)
                run.sched.yield_point(('data.write', SID))
                if seen != run.version.get(sid, 0):
                    run.lost = True
                run.version[sid] = run.version.get(sid, 0) + 1
                if sid == SID:
                    run.increments += 1
                sess['n'] = v + 1
            finally:
                run.occ[sid] -= 1

        class Root:
            @cherrypy.expose
            def index(self):
                if where == 'handler':
                    rmw()
                    return b'ok'
                cherrypy.response.stream = True

                def gen():
                    yield b'a'
                    rmw()
                    yield b'b'
                return gen()

        conf = {'/': {'tools.sessions.on': True, 'tools.sessions.locking': mode,
                      'tools.sessions.clean_freq': 0, 'tools.sessions.timeout': 1}}
        self.app = cherrypy.Application(Root(), '', conf)
        self.app.log.screen = False
        for i in range(n):
            self.sched.spawn('r%d' % i, self._worker(i))
            self.sched.step('r%d' % i)
        self.sched.spawn('S', self._sweeper)
        self.sched.step('S')

    def _worker(self, i):
        name = 'r%d' % i

        def body():
            got = {}

            def start_response(status, headers, exc_info=None):
                got['status'] = status
                got['cookie'] = [v for k, v in headers if k.lower() == 'set-cookie']
                return lambda b: None
            it = self.app(_environ('/', SID), start_response)
            try:
                for _ in it:
                    pass
            finally:
                it.close()
            self.statuses[name] = got.get('status', '???')[:3]
            same = any(('session_id=' + SID) in c for c in got.get('cookie', []))
            return 'done' if same else 'gone'
        return body

    def _sweeper(self):
        s = self.R.__new__(self.R)
        s.id_observers = []
        while True:
            self.sched.yield_point(('sweep.start', None))
            s.clean_up()

    def step(self, tok):
        sched = self.sched
        if tok.startswith('K'):
            self.P.clock.units += int(tok[1:])
            return
        name = 'S' if tok == 'S' else 'r' + tok
        st = sched.threads[name]
        if name == 'S' and st.status != 'done' and st.pending[0] == 'sweep.start':
            sched.step('S')
        if sched.enabled(name) and name != 'S':
            op = sched.pending(name)
            if op[0] == 'lock.acquire' and op[3] and not any(l is op[1] for l in dict.values(self.R.locks)):
                self.orphan_acquire = True
        sched.step(name)
        if st.status == 'done' and isinstance(st.exc, (common.HarnessError, S._Abandoned)):
            raise common.HarnessError('managed thread %s: %r' % (name, st.exc))

    def finish(self):
        extra = []
        guard = 0
        sw = self.sched.threads['S']
        while sw.status != 'done' and sw.pending[0] != 'sweep.start':
            self.step('S')
            extra.append('S')
            guard += 1
            if guard > 40:
                raise common.HarnessError('sweep does not terminate')
        while True:
            progressed = False
            for i in range(self.n):
                while self.sched.enabled('r%d' % i):
                    self.step(str(i))
                    extra.append(str(i))
                    progressed = True
                    guard += 1
                    if guard > 600:
                        raise common.HarnessError('request threads do not terminate')
            if not progressed:
                break
        return extra

    def observations(self):
        sched = self.sched
        reqs = ['r%d' % i for i in range(self.n)]
        held = [str(l.owner) for l in dict.values(self.R.locks) if l.owner is not None]
        c = dict.get(self.R.cache, SID)
        return {'max_occ': self.max_occ, 'lost': self.lost, 'increments': self.increments,
                'statuses': dict(self.statuses), 'held_by': held,
                'blocked': [r for r in reqs if not sched.done(r) and not sched.enabled(r)],
                'unfinished': [r for r in reqs if not sched.done(r)],
                'results': {r: (sched.threads[r].result if sched.done(r) else None) for r in reqs},
                'thread_errors': {r: type(sched.threads[r].exc).__name__ for r in reqs
                                  if sched.done(r) and sched.threads[r].exc is not None},
                'counter': (c[0].get('n') if c is not None else None),
                'orphan_acquire': self.orphan_acquire}

    def close(self):
        try:
            self.sched.close()
        finally:
            self.P.__exit__()


def run_case(case):
    run = WsgiRun(case['n'], case['mode'], case['where'], case.get('cache'), bool(case.get('tbl')))
    try:
        toks = list(case['sched'])
        for t in toks:
            run.step(t)
        toks += run.finish()
        return toks, run.observations()
    finally:
        run.close()


def gen_case(rng):
    n = rng.choice([2, 2, 3])
    cache = rng.choice([[5, 100], [5, 100], [5, 0]])
    toks = []
    L = rng.randint(6, 45)
    actors = [str(i) for i in range(n)]
    while len(toks) < L:
        r = rng.random()
        if r < 0.7:
            a = rng.choice(actors)
        elif r < 0.95:
            a = 'S'
        else:
            toks.append(rng.choice(['K1', 'K3']))
            continue
        toks += [a] * rng.choice([1, 1, 2, 2, 3, 5, 8])
    return {'kind': 'wsgi', 'n': n, 'mode': rng.choice(['implicit', 'early']),
            'where': rng.choice(['handler', 'stream']), 'cache': cache, 'tbl': rng.random() < 0.5,
            'sched': toks[:L]}
