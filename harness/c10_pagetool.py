"""C10: a tool mounted as a page handler (`tools.X.handler(**kwargs)`) under per-path settings, over histories.

The keyword arguments given to `handler()` live as long as the application (a dict captured when the handler was
defined); per-path `tools.X.*` settings are overlaid on them for ONE request.  Statement: what a request observes -
here the arguments the tool's callable is called with, which decide its response - is the same as if it were the only
request the process ever served.  A case is a history of paths below one such handler (some paths with sections that
add / override settings, in `_cp_config`-free config sections and with the tool also switched on the ordinary way on
another path); every response is compared with the response the same path gets from a freshly built site that serves
nothing else.  Oracle only; runs in a forked child (class-level state stays there).
"""
import io
import itertools

import cherrypy
from cherrypy import _cptools

PATHS = ['/g/quiet', '/g/loud', '/g/other', '/g/loud/deeper', '/plain']
SECTIONS = {
    '/g/loud': {'tools.c10pt.punct': '!', 'tools.c10pt.upper': True},
    '/g/other': {'tools.c10pt.word': 'yo'},
    '/g/loud/deeper': {'tools.c10pt.punct': '?'},
    '/plain': {'tools.c10pt.on': True, 'tools.c10pt.word': 'via-config', 'tools.c10pt.tail': 'T'},
}


def _kw_hook(**kw):
    """an argument-less hook (attached from config as a plain function / by a tool without settings): says which
    keyword arguments it was called with"""
    cherrypy.serving.response.headers['X-C10-KW'] = ','.join('%s=%s' % kv for kv in sorted(kw.items())) or '-'


def _kw_tool(**kw):
    cherrypy.serving.response.headers['X-C10-KWT'] = ','.join('%s=%s' % kv for kv in sorted(kw.items())) or '-'


KW_PATHS = ['/tuned', '/other', '/bare', '/tuned2']


def build_kw():
    """site 2: argument-less hooks; one handler edits the kwargs of the hooks of ITS OWN request"""
    cherrypy.tools.c10kw = _cptools.Tool('before_finalize', _kw_tool, priority=40)

    class Root(object):
        @cherrypy.expose
        def tuned(self):
            for hs in cherrypy.serving.request.hooks.values():
                for h in hs:
                    if h.callback in (_kw_hook, _kw_tool):
                        h.kwargs['mark'] = 'tuned'
            return b'tuned'

        @cherrypy.expose
        def tuned2(self):
            for h in cherrypy.serving.request.hooks.get('before_finalize', []):
                if h.callback is _kw_tool:
                    h.kwargs.update(a=1, b=2)
            return b'tuned2'

        @cherrypy.expose
        def other(self):
            return b'other'

        @cherrypy.expose
        def bare(self):
            return b'bare'
    conf = {'/': {'hooks.before_finalize.c10kw': _kw_hook, 'tools.c10kw.on': True},
            '/bare': {'tools.c10kw.on': False}}
    return cherrypy.Application(Root(), '', conf)


def _say(word='?', punct='', upper=False, tail=''):
    text = (word.upper() if upper else word) + punct + tail
    cherrypy.serving.response.headers['X-C10-PT'] = text
    cherrypy.serving.response.body = text.encode('latin-1')
    return True


def build(kwargs):
    """a fresh tool, a fresh handler closure with its own kwargs dict, a fresh application"""
    cherrypy.tools.c10pt = _cptools.HandlerTool(_say)

    class Root(object):
        g = cherrypy.tools.c10pt.handler(**dict(kwargs))

        @cherrypy.expose
        def plain(self):
            return b'plain page'
    return cherrypy.Application(Root(), '', {k: dict(v) for k, v in SECTIONS.items()})


def call(app, path):
    out = {}

    env = {'REQUEST_METHOD': 'GET', 'SCRIPT_NAME': '', 'PATH_INFO': path, 'QUERY_STRING': '',
           'SERVER_NAME': 'localhost', 'SERVER_PORT': '80', 'SERVER_PROTOCOL': 'HTTP/1.1', 'HTTP_HOST': 'localhost',
           'wsgi.version': (1, 0), 'wsgi.url_scheme': 'http', 'wsgi.input': io.BytesIO(b''),
           'wsgi.errors': io.StringIO(), 'wsgi.multithread': False, 'wsgi.multiprocess': False, 'wsgi.run_once': False}

    def start_response(status, headers, exc_info=None):
        out['status'] = status
        out['kw'] = ' '.join('%s:%s' % (k, v) for k, v in sorted(headers) if k.upper().startswith('X-C10-KW'))
    try:
        it = app(env, start_response)
        try:
            body = b''.join(it)
        finally:
            if hasattr(it, 'close'):
                it.close()
    except Exception as e:      # noqa: BLE001 - an observation
        return 'escaped:%s' % type(e).__name__
    return ('%s %s %s' % (out.get('status', '?')[:3], body.decode('latin-1')[:80], out.get('kw', ''))).strip()


KWARGS = [{'word': 'hi', 'punct': '.'}, {'word': 'hi'}, {}]


def cases():
    out = []
    for kw in KWARGS:
        for n in (2, 3):
            for hist in itertools.product(PATHS, repeat=n):
                if len(set(hist)) > 1:
                    out.append({'pagetool': 1, 'kwargs': kw, 'history': list(hist)})
    for n in (2, 3):
        for hist in itertools.product(KW_PATHS, repeat=n):
            if len(set(hist)) > 1 and any(p.startswith('/tuned') for p in hist):
                out.append({'pagetool': 2, 'kwargs': {}, 'history': list(hist)})
    return out


def run_all(cs):
    cherrypy.config.update({'environment': 'test_suite', 'log.screen': False})
    res = []
    alone = {}
    for c in cs:
        key = repr(sorted(c['kwargs'].items())) + str(c['pagetool'])
        mk = (lambda: build_kw()) if c['pagetool'] == 2 else (lambda: build(c['kwargs']))
        for p in set(c['history']):
            if (key, p) not in alone:
                alone[(key, p)] = call(mk(), p)
        app = mk()
        got = [call(app, p) for p in c['history']]
        bad = []
        for i, (p, g) in enumerate(zip(c['history'], got)):
            want = alone[(key, p)]
            if g != want:
                bad.append(('request %d (%s) of the history %s was answered %r; as the only request ever served it is '
                            'answered %r (%s)'
                            % (i, p, c['history'], g, want,
                               'argument-less hooks; /tuned edits the kwargs of the hooks of its own request'
                               if c['pagetool'] == 2 else
                               'tools.c10pt.handler(**%r) page handler, per-path settings %r' % (c['kwargs'], SECTIONS.get(p))),
                            'pagetool:history_dependent'))
                break
        res.append((c, bad))
    return res
