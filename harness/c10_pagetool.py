"""C10: a tool mounted as a page handler (`tools.X.handler(**kwargs)`) under per-path settings, over histories.

The keyword arguments given to `handler()` live as long as the application (a dict captured when the handler was
defined); per-path `tools.X.*` settings are overlaid on them for ONE request.  Statement: what a request observes -
here the arguments the tool's callable is called with, which decide its response - is the same as if it were the only
request the process ever served.  A case is a history of paths below one such handler (some paths with sections that
add / override settings, in `_cp_config`-free config sections and with the tool also switched on the ordinary way on
another path); every response is compared with the response the same path gets from a freshly built site that serves
nothing else.  Oracle only; runs in a forked child (class-level state stays there).
"""
import io
import itertools

import cherrypy
from cherrypy import _cptools

PATHS = ['/g/quiet', '/g/loud', '/g/other', '/g/loud/deeper', '/plain']
SECTIONS = {
    '/g/loud': {'tools.c10pt.punct': '!', 'tools.c10pt.upper': True},
    '/g/other': {'tools.c10pt.word': 'yo'},
    '/g/loud/deeper': {'tools.c10pt.punct': '?'},
    '/plain': {'tools.c10pt.on': True, 'tools.c10pt.word': 'via-config', 'tools.c10pt.tail': 'T'},
}


def _say(word='?', punct='', upper=False, tail=''):
    text = (word.upper() if upper else word) + punct + tail
    cherrypy.serving.response.headers['X-C10-PT'] = text
    cherrypy.serving.response.body = text.encode('latin-1')
    return True


def build(kwargs):
    """a fresh tool, a fresh handler closure with its own kwargs dict, a fresh application"""
    cherrypy.tools.c10pt = _cptools.HandlerTool(_say)

    class Root(object):
        g = cherrypy.tools.c10pt.handler(**dict(kwargs))

        @cherrypy.expose
        def plain(self):
            return b'plain page'
    return cherrypy.Application(Root(), '', {k: dict(v) for k, v in SECTIONS.items()})


def call(app, path):
    out = {}

    def start_response(status, headers, exc_info=None):
        out['status'] = status
    env = {'REQUEST_METHOD': 'GET', 'SCRIPT_NAME': '', 'PATH_INFO': path, 'QUERY_STRING': '',
           'SERVER_NAME': 'localhost', 'SERVER_PORT': '80', 'SERVER_PROTOCOL': 'HTTP/1.1', 'HTTP_HOST': 'localhost',
           'wsgi.version': (1, 0), 'wsgi.url_scheme': 'http', 'wsgi.input': io.BytesIO(b''),
           'wsgi.errors': io.StringIO(), 'wsgi.multithread': False, 'wsgi.multiprocess': False, 'wsgi.run_once': False}
    try:
        it = app(env, start_response)
        try:
            body = b''.join(it)
        finally:
            if hasattr(it, 'close'):
                it.close()
    except Exception as e:      # noqa: BLE001 - an observation
        return 'escaped:%s' % type(e).__name__
    return '%s %s' % (out.get('status', '?')[:3], body.decode('latin-1')[:80])


KWARGS = [{'word': 'hi', 'punct': '.'}, {'word': 'hi'}, {}]


def cases():
    out = []
    for kw in KWARGS:
        for n in (2, 3):
            for hist in itertools.product(PATHS, repeat=n):
                if len(set(hist)) > 1:
                    out.append({'pagetool': 1, 'kwargs': kw, 'history': list(hist)})
    return out


def run_all(cs):
    cherrypy.config.update({'environment': 'test_suite', 'log.screen': False})
    res = []
    alone = {}
    for c in cs:
        key = repr(sorted(c['kwargs'].items()))
        for p in set(c['history']):
            if (key, p) not in alone:
                alone[(key, p)] = call(build(c['kwargs']), p)
        app = build(c['kwargs'])
        got = [call(app, p) for p in c['history']]
        bad = []
        for i, (p, g) in enumerate(zip(c['history'], got)):
            want = alone[(key, p)]
            if g != want:
                bad.append(('request %d (%s) of the history %s was answered %r; as the only request ever served it is '
                            'answered %r (tools.c10pt.handler(**%r) page handler, per-path settings %r)'
                            % (i, p, c['history'], g, want, c['kwargs'], SECTIONS.get(p)),
                            'pagetool:history_dependent'))
                break
        res.append((c, bad))
    return res
