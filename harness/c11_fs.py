"""C11: sandbox tree, file-system tap, real-code runners and the oracle.

The oracle is written from the property statement: every path the code hands to the file system
during a request resolves (physically, component by component, in the symlink-free sandbox) to a
location inside the configured root; a 200 response carries the content of a file inside the
root; nothing outside the root is created, changed or removed.
"""
import datetime
import io
import os
import pickle
import re
import shutil
import signal
import sys
import tempfile
import threading

from . import common

_real = {n: getattr(os, n) for n in ('stat', 'lstat', 'access', 'readlink', 'listdir', 'getcwd')}

ROOTS = ['root', 'r', 'static.d', 'r+t', 'ro[o]t']
# a sibling directory whose name the root's name MATCHES when it is (mis)read as a pattern (regex / glob)
TWINS = {'static.d': 'static-d', 'r+t': 'rrt', 'ro[o]t': 'root'}
STORES = ['sess', 'sess2']
W_FLAGS = os.O_WRONLY | os.O_RDWR | os.O_CREAT | os.O_TRUNC | os.O_APPEND

AUDIT_OPS = {
    'os.remove': 'unlink', 'os.listdir': 'listdir', 'os.scandir': 'listdir', 'os.mkdir': 'mkdir',
    'os.rmdir': 'rmdir', 'os.rename': 'rename', 'os.chmod': 'chmod', 'os.chown': 'chown', 'os.link': 'link',
    'os.symlink': 'symlink', 'os.truncate': 'truncate', 'os.utime': 'utime', 'os.chdir': 'chdir',
    'os.walk': 'listdir', 'glob.glob': 'listdir', 'shutil.copyfile': 'copy', 'shutil.copytree': 'copy',
    'shutil.move': 'rename', 'shutil.rmtree': 'rmdir', 'os.mkfifo': 'mkdir', 'os.mknod': 'mkdir',
    'os.setxattr': 'chmod', 'os.removexattr': 'chmod', 'os.getxattr': 'stat', 'os.listxattr': 'stat',
    'os.lchown': 'chown', 'os.lchmod': 'chmod',
}
AUDIT_OPS.update({'os.fwalk': 'listdir', 'pathlib.Path.glob': 'listdir', 'pathlib.Path.rglob': 'listdir',
                  'glob.glob/2': 'listdir', 'os.mkdirat': 'mkdir', 'tempfile.mkdtemp': 'mkdir',
                  'shutil.copy': 'copy', 'shutil.copy2': 'copy', 'shutil.copymode': 'chmod',
                  'shutil.copystat': 'chmod', 'shutil.make_archive': 'copy', 'shutil.unpack_archive': 'copy',
                  'shutil.chown': 'chown', 'os.chflags': 'chmod', 'os.lchflags': 'chmod', 'os.chroot': 'chdir',
                  'os.startfile': 'openr', 'sqlite3.connect': 'openw'})
TWO_PATHS = {'os.rename', 'os.link', 'os.symlink', 'shutil.copyfile', 'shutil.copytree', 'shutil.move',
             'shutil.copy', 'shutil.copy2', 'shutil.copymode', 'shutil.copystat'}
CWD_WHEN_NONE = {'os.listdir', 'os.scandir', 'os.walk', 'os.fwalk'}
NO_PATH_ARG0 = {'glob.glob', 'glob.glob/2'}      # a pattern, not a path: the scandir calls behind it are recorded
READ_OPS = {'stat', 'lstat', 'openr', 'listdir'}
NOFOLLOW_OPS = {'lstat', 'unlink', 'rename', 'rmdir', 'symlink', 'link'}


def _p(x):
    """Path argument as str, or None when it is not a path (fd, None)."""
    if isinstance(x, int) or x is None:
        return None
    try:
        x = os.fspath(x)
    except TypeError:
        return None
    if isinstance(x, bytes):
        x = os.fsdecode(x)
    return x


class CodeHang(BaseException):
    """Raised by the per-case alarm inside whatever the code under test is doing."""


class _TState:
    __slots__ = ('log', 'internal')

    def __init__(self):
        self.log = []
        self.internal = 0


class Tap:
    """Records [op, path, internal, result] per registered thread (others pass through untouched)."""

    def __init__(self):
        self.enabled = False
        self.states = {}          # thread ident -> _TState
        self._hooked = False
        self._depth = 0

    def state(self):
        return self.states.get(threading.get_ident()) if self.enabled else None

    @property
    def log(self):
        """Log of the calling thread (the last one it recorded, also after the tap was closed)."""
        st = self.states.get(threading.get_ident())
        return st.log if st is not None else []

    # -- audit hook (cannot be removed once added: gated by `enabled`) --------------------------
    def _audit(self, event, args):
        if not self.enabled:
            return
        st = self.states.get(threading.get_ident())
        if st is None:
            return
        if event == 'open':
            path = _p(args[0])
            if path is None:
                return
            mode, flags = args[1], args[2]
            if mode is not None:
                w = any(c in mode for c in 'wax+')
            else:
                w = bool((flags or 0) & W_FLAGS)
            st.log.append(['openw' if w else 'openr', path, st.internal > 0, None])
            return
        op = AUDIT_OPS.get(event)
        if op is None:
            return
        if event in NO_PATH_ARG0:
            return
        n = 2 if event in TWO_PATHS else 1
        for a in args[:n]:
            path = _p(a)
            if path is None and a is None and event in CWD_WHEN_NONE:
                path = '.'
            if path is not None:
                st.log.append([op, path, st.internal > 0, None])

    def _wrap(self, name):
        real = _real[name]
        tap = self

        def wrapper(path, *a, **k):
            st = tap.states.get(threading.get_ident()) if tap.enabled else None
            if st is None:
                return real(path, *a, **k)
            sp = _p(path)
            if sp is None:
                return real(path, *a, **k)
            entry = ['lstat' if name in ('lstat', 'readlink') else 'stat', sp, st.internal > 0, 'm']
            st.log.append(entry)
            r = real(path, *a, **k)
            if name in ('stat', 'lstat'):
                import stat as _st
                entry[3] = 'd' if _st.S_ISDIR(r.st_mode) else 'f'
            else:
                entry[3] = 'f' if r else 'm'
            return r
        wrapper.__name__ = name
        return wrapper

    def open(self):
        """Patch the os functions and start recording (threads join with `register`)."""
        if not self._hooked:
            sys.addaudithook(self._audit)
            self._hooked = True
        self.states = {}
        for n in ('stat', 'lstat', 'access', 'readlink'):
            setattr(os, n, self._wrap(n))
        self.enabled = True

    def register(self):
        st = _TState()
        self.states[threading.get_ident()] = st
        return st

    def close(self):
        self.enabled = False
        for n in ('stat', 'lstat', 'access', 'readlink'):
            setattr(os, n, _real[n])

    def __enter__(self):
        self.open()
        self.register()
        return self

    def __exit__(self, *exc):
        self.close()
        return False


TAP = Tap()
HERE = os.path.dirname(os.path.abspath(__file__))


def tap_selftest():
    """Every way the standard library offers to look at / change a file must show up in the tap (run once per
    check, outside any request): os, os.path, io, pathlib, glob, shutil, codecs, mimetypes.  Returns
    (number of APIs probed, the ones the tap is blind to)."""
    import codecs
    import glob
    import mimetypes
    import pathlib
    d = os.path.realpath(tempfile.mkdtemp(prefix='c11-tap-'))
    f = os.path.join(d, 'probe.txt')
    g = os.path.join(d, 'other.txt')
    P = pathlib.Path

    def fresh():
        for n in os.listdir(d):
            q = os.path.join(d, n)
            if os.path.isdir(q) and not os.path.islink(q):
                shutil.rmtree(q)
            else:
                os.unlink(q)
        with open(f, 'wb') as h:
            h.write(b'x')

    def closing(h):
        if isinstance(h, int):
            os.close(h)
        else:
            h.close()
    probes = [
        ('os.stat', lambda: os.stat(f)), ('os.lstat', lambda: os.lstat(f)),
        ('os.path.exists', lambda: os.path.exists(f)), ('os.path.lexists', lambda: os.path.lexists(f)),
        ('os.path.isfile', lambda: os.path.isfile(f)), ('os.path.isdir', lambda: os.path.isdir(f)),
        ('os.path.islink', lambda: os.path.islink(f)), ('os.path.getsize', lambda: os.path.getsize(f)),
        ('os.path.getmtime', lambda: os.path.getmtime(f)), ('os.path.getatime', lambda: os.path.getatime(f)),
        ('os.path.getctime', lambda: os.path.getctime(f)), ('os.path.samefile', lambda: os.path.samefile(f, f)),
        ('os.path.ismount', lambda: os.path.ismount(f)), ('os.path.realpath', lambda: os.path.realpath(f)),
        ('os.access', lambda: os.access(f, os.R_OK)), ('os.readlink', lambda: _quiet(lambda: os.readlink(f))),
        ('open', lambda: closing(open(f, 'rb'))), ('io.open', lambda: closing(io.open(f, 'rb'))),
        ('io.FileIO', lambda: closing(io.FileIO(f, 'r'))), ('os.open', lambda: closing(os.open(f, os.O_RDONLY))),
        ('codecs.open', lambda: closing(codecs.open(f, 'r', 'utf-8'))),
        ('open(w)', lambda: closing(open(g, 'wb'))), ('os.open(w)', lambda: closing(os.open(g, os.O_WRONLY | os.O_CREAT))),
        ('pathlib.open', lambda: closing(P(f).open('rb'))), ('pathlib.read_bytes', lambda: P(f).read_bytes()),
        ('pathlib.read_text', lambda: P(f).read_text()), ('pathlib.write_bytes', lambda: P(g).write_bytes(b'y')),
        ('pathlib.stat', lambda: P(f).stat()), ('pathlib.lstat', lambda: P(f).lstat()),
        ('pathlib.exists', lambda: P(f).exists()), ('pathlib.is_file', lambda: P(f).is_file()),
        ('pathlib.is_dir', lambda: P(f).is_dir()), ('pathlib.is_symlink', lambda: P(f).is_symlink()),
        ('pathlib.resolve', lambda: P(f).resolve()), ('pathlib.iterdir', lambda: list(P(d).iterdir())),
        ('pathlib.glob', lambda: list(P(d).glob('*'))), ('pathlib.unlink', lambda: P(f).unlink()),
        ('pathlib.touch', lambda: P(g).touch()), ('pathlib.mkdir', lambda: P(d, 'nd').mkdir()),
        ('pathlib.rename', lambda: P(f).rename(g)),
        ('os.listdir', lambda: os.listdir(d)), ('os.scandir', lambda: list(os.scandir(d))),
        ('os.walk', lambda: list(os.walk(d))), ('glob.glob', lambda: glob.glob(d + '/*')),
        ('os.remove', lambda: os.remove(f)), ('os.unlink', lambda: os.unlink(f)),
        ('os.rename', lambda: os.rename(f, g)), ('os.replace', lambda: os.replace(f, g)),
        ('os.mkdir', lambda: os.mkdir(os.path.join(d, 'nd'))), ('os.makedirs', lambda: os.makedirs(os.path.join(d, 'a/b'))),
        ('os.rmdir', lambda: _quiet(lambda: os.rmdir(os.path.join(d, 'nope')))),
        ('os.symlink', lambda: os.symlink(f, g)), ('os.link', lambda: os.link(f, g)),
        ('os.utime', lambda: os.utime(f)), ('os.chmod', lambda: os.chmod(f, 0o644)),
        ('os.truncate', lambda: os.truncate(f, 0)),
        ('shutil.copyfile', lambda: shutil.copyfile(f, g)), ('shutil.copy', lambda: shutil.copy(f, g)),
        ('shutil.move', lambda: shutil.move(f, g)), ('shutil.rmtree', lambda: shutil.rmtree(os.path.join(d, 'nope'), ignore_errors=True)),
        ('mimetypes.read_mime_types', lambda: mimetypes.read_mime_types(f)),
    ]
    blind = []
    try:
        for name, fn in probes:
            fresh()
            with TAP:
                try:
                    fn()
                except OSError:
                    pass
            if not any(isinstance(e[1], str) and (e[1] == d or e[1].startswith(d + '/')) for e in TAP.log):
                blind.append(name)
    finally:
        shutil.rmtree(d, ignore_errors=True)
    return len(probes), blind


def _quiet(fn):
    try:
        return fn()
    except OSError:
        return None


def origin(exc):
    """'code' when the exception comes out of the code under test (the innermost frame that is either
    harness or cherrypy is a cherrypy one - library frames called from there count with it),
    'harness' when our own code raised it."""
    import traceback
    try:
        import cherrypy
        pkg = os.path.dirname(os.path.abspath(cherrypy.__file__))
    except Exception:
        return 'code'           # the package itself does not import
    for fr in reversed(traceback.extract_tb(exc.__traceback__)):
        fn = os.path.abspath(fr.filename)
        if fn.startswith(pkg + os.sep):
            return 'code'
        if fn.startswith(HERE + os.sep):
            return 'harness'
    return 'harness'


def describe(exc):
    import traceback
    name = type(exc).__name__
    st = getattr(exc, 'status', None)
    if st is not None:
        name += str(st)
    where = ''
    for fr in reversed(traceback.extract_tb(exc.__traceback__)):
        if '/cherrypy/' in fr.filename:
            where = ' in %s:%s' % (os.path.basename(fr.filename), fr.name)
            break
    return 'raised:%s%s' % (name, where)


def make_lock_shim(real_cls):
    class TapLock:
        """`sessions.FileLock` replacement: records the lock path, marks filelock's own file-system
        traffic as internal (still checked by the oracle), delegates to the real FileLock."""

        def __init__(self, path, *a, **k):
            self.path = path
            self._l = real_cls(path, *a, **k)

        def acquire(self, *a, **k):
            st = TAP.state()
            if st is None:
                return self._l.acquire(*a, **k)
            st.log.append(['lock', _p(self.path), False, None])
            st.internal += 1
            try:
                return self._l.acquire(*a, **k)
            finally:
                st.internal -= 1

        def release(self, *a, **k):
            st = TAP.state()
            if st is None:
                return self._l.release(*a, **k)
            st.internal += 1
            try:
                return self._l.release(*a, **k)
            finally:
                st.internal -= 1

        def __getattr__(self, n):
            return getattr(self._l, n)
    return TapLock


# ----------------------------------------------------------------------------------------------
# sandbox
# ----------------------------------------------------------------------------------------------
def _pickle(past=False):
    when = datetime.datetime(1999, 1, 1) if past else datetime.datetime(2999, 1, 1)
    return pickle.dumps(({'k': 'v'}, when), pickle.HIGHEST_PROTOCOL)


def tree_spec():
    """relpath -> None (directory) | bytes (file content)."""
    t = {}

    def d(p):
        t[p] = None

    def f(p, content=None):
        t[p] = content if content is not None else ('C11:%s:7f3a9c' % p).encode('utf-8')
    for rn in ROOTS:
        d(rn)
        f(rn + '/f.txt')
        f(rn + '/index.html')
        d(rn + '/sub')
        f(rn + '/sub/index.html')
        f(rn + '/sub/g.txt')
        d(rn + '/sub/deep')
        f(rn + '/sub/deep/h.txt')
        d(rn + '/a')
        f(rn + '/sp ace.txt')
        f(rn + '/b\\c.txt')
        f(rn + '/é.txt')
        d(rn + '-evil')
        f(rn + '-evil/secret.txt')
        d(rn + 'x')
        f(rn + 'x/secret.txt')
    for tw in sorted(set(TWINS.values())):
        if tw not in t:
            d(tw)
        f(tw + '/secret.txt')
    d('other')
    f('other/secret.txt')
    f('canary.txt')
    d('sub0')
    f('session-out', _pickle())
    for sn in STORES:
        d(sn)
        f(sn + '/session-real', _pickle())
        f(sn + '/session-real2', _pickle())
        d(sn + '-evil')
        f(sn + '-evil/victim', _pickle())
        d(sn + 'x')
        f(sn + 'x/victim', _pickle())
    d('sess/session-')
    f('sess/session-/inner', _pickle())
    d('sess/session-a')
    d('sess2/session-b')
    return t


def links_spec():
    """Extra entries of the sandbox flavour WITH symbolic links: relpath -> None | bytes | ('link', target)
    ({TOP} in a target = the sandbox top).  Links inside the roots / the stores are the operator's content;
    `other/lnk*` are directory links OUTSIDE every root whose targets lie three levels deep, so that
    "other/lnk/../.." is not "." for the kernel."""
    t = {}

    def f(p, content=None):
        t[p] = content if content is not None else ('C11:%s:7f3a9c' % p).encode('utf-8')
    for rn in ROOTS[:2]:
        t[rn + '/l_out_dir'] = ('link', '../other')
        t[rn + '/l_out_file'] = ('link', '../canary.txt')
        t[rn + '/l_abs'] = ('link', '{TOP}/other/secret.txt')
        t[rn + '/l_in'] = ('link', 'sub')
        t[rn + '/l_loop'] = ('link', 'l_loop')
        t[rn + '/l_dangling'] = ('link', 'nowhere')
        t[rn + '/sub/l_up'] = ('link', '..')
        t['x/' + rn] = None
        f('x/' + rn + '/f.txt')
        f('x/' + rn + '/only-in-x.txt')
        t['x/y/' + rn] = None
        f('x/y/' + rn + '/only-in-xy.txt')
    t['x'] = None
    t['x/y'] = None
    t['x/y/z'] = None
    f('x/y/z/deep.txt')
    t['other/lnk'] = ('link', '{TOP}/x/y/z')
    t['other/lnk_rel'] = ('link', '../x/y/z')
    t['other/lnk_file'] = ('link', '../canary.txt')
    for sn in STORES:
        t[sn + '/session-l_out'] = ('link', '../' + sn + '-evil/victim')
        t[sn + '/session-l_in'] = ('link', 'session-real')
        t[sn + '/session-l_dir'] = ('link', '../other')
        t['x/' + sn] = None
        t['x/' + sn + '/session-v'] = _pickle()
        t['x/' + sn + '/session-real'] = _pickle()
    return t


SYSTEM_OK = None


def system_ok(path):
    """Paths outside the sandbox the interpreter itself may look at (source files for tracebacks...)."""
    global SYSTEM_OK
    if SYSTEM_OK is None:
        pre = {sys.prefix, sys.base_prefix, sys.exec_prefix, common.REPO, '/repo', '/venv', common.VERIF,
               os.path.dirname(os.__file__), '/usr/lib/python3', '/usr/share/zoneinfo', '/etc/localtime',
               '/etc/mime.types', '/dev/urandom', '/dev/random', '/dev/null', '/usr/share/locale', '/usr/lib/locale',
               '/usr/share/mime', '/etc/timezone', '/usr/lib/ssl', '/etc/ssl'}
        try:
            import mimetypes
            pre |= set(mimetypes.knownfiles)
        except Exception:
            pass
        SYSTEM_OK = tuple(sorted(os.path.realpath(p) for p in pre))
    return any(path == p or path.startswith(p + '/') for p in SYSTEM_OK)


class Sandboxes:
    def __init__(self):
        self.top = None

    @property
    def cur(self):
        """Per-thread scratch the probes (hooks, generate_id) write into."""
        d = getattr(self._tl, 'cur', None)
        if d is None:
            d = self._tl.cur = {}
        return d

    @cur.setter
    def cur(self, v):
        self._tl.cur = v

    def __enter__(self):
        import cherrypy
        from cherrypy.lib import sessions, static
        self.cherrypy, self.sessions, self.static = cherrypy, sessions, static
        cherrypy.config.update({'environment': 'test_suite', 'log.screen': False, 'log.error_file': '',
                                'log.access_file': '', 'request.show_tracebacks': False,
                                'checker.on': False, 'engine.autoreload.on': False})
        self.top = os.path.realpath(tempfile.mkdtemp(prefix='c11-'))
        self.spec = tree_spec()
        for rel in sorted(self.spec):
            self._create(rel)
        self.links_extra = {r: (('link', v[1].replace('{TOP}', self.top)) if isinstance(v, tuple) else v)
                            for r, v in links_spec().items()}
        self.flavour = 'plain'
        self.base_extra = {}
        self.content = {v: k for k, v in list(self.spec.items()) + list(self.links_extra.items())
                        if isinstance(v, bytes) and v.startswith(b'C11:')}
        self.cwd = os.getcwd()
        self._tl = threading.local()
        self.cur = {}
        self.gen_counter = 0
        self._saved_lock = sessions.FileLock
        sessions.FileLock = make_lock_shim(self._saved_lock)
        self._mk_session_class()
        self.apps = {}
        return self

    def __exit__(self, *exc):
        self.sessions.FileLock = self._saved_lock
        shutil.rmtree(self.top, ignore_errors=True)
        return False

    # -- tree maintenance ----------------------------------------------------------------------
    def _create(self, rel):
        p = os.path.join(self.top, rel)
        c = self.spec[rel]
        if c is None:
            os.makedirs(p, exist_ok=True)
        else:
            with open(p, 'wb') as f:
                f.write(c)

    def scan(self):
        seen = {}
        stack = ['']
        while stack:
            rel = stack.pop()
            with os.scandir(os.path.join(self.top, rel)) as it:
                for e in it:
                    r = (rel + '/' + e.name) if rel else e.name
                    if e.is_symlink():
                        seen[r] = ('link', os.readlink(e.path))
                    elif e.is_dir(follow_symlinks=False):
                        seen[r] = None
                        stack.append(r)
                    else:
                        try:
                            with open(e.path, 'rb') as f:
                                seen[r] = f.read()
                        except OSError:
                            seen[r] = b'<unreadable>'
        return seen

    def restore(self, extra=None):
        """Bring the tree back to `spec` (+ `extra`); return the relpaths that differed."""
        want = dict(self.spec)
        want.update(self.base_extra)
        if extra:
            want.update(extra)
        seen = self.scan()
        missing = object()
        diff = sorted(r for r in set(seen) | set(want) if seen.get(r, missing) != want.get(r, missing))
        if not diff:
            return []
        for r in sorted(diff, key=lambda x: -x.count('/')):
            if r in seen:
                p = os.path.join(self.top, r)
                if seen[r] is None:
                    shutil.rmtree(p, ignore_errors=True)
                else:
                    try:
                        os.unlink(p)
                    except OSError:
                        pass
        for r in sorted(want):
            p = os.path.join(self.top, r)
            if not os.path.lexists(p):
                if want[r] is None:
                    os.makedirs(p, exist_ok=True)
                elif isinstance(want[r], tuple):
                    os.makedirs(os.path.dirname(p), exist_ok=True)
                    os.symlink(want[r][1], p)
                else:
                    os.makedirs(os.path.dirname(p), exist_ok=True)
                    with open(p, 'wb') as f:
                        f.write(want[r])
        return diff

    def set_flavour(self, flavour):
        """'plain' = the symlink-free tree of the statement, 'links' = the same plus `links_spec()`."""
        if flavour != self.flavour:
            self.flavour = flavour
            self.base_extra = self.links_extra if flavour == 'links' else {}
            self.restore()

    # -- oracle helpers --------------------------------------------------------------------------
    def walk(self, path):
        """Physical walk of `path`: ('ok', loc) the existing object it names; ('last', loc) only the last
        component is missing (loc = where it would be created); ('fail', loc) the walk stops at an
        intermediate component (loc = the deepest name looked up); ('nul', None)."""
        import stat as _st
        if '\x00' in path:
            return 'nul', None
        if len(path.encode('utf-8', 'surrogateescape')) >= 4096:
            return 'fail', None         # ENAMETOOLONG: the kernel does not even start
        cur = '/' if path.startswith('/') else self.cwd
        comps = path.split('/')
        n = len(comps)
        for i, c in enumerate(comps):
            if c in ('', '.'):
                continue
            if c == '..':
                cur = os.path.dirname(cur)
                continue
            more = any(x != '' for x in comps[i + 1:])
            trailing = i + 1 < n            # something (even an empty component) follows
            nxt = cur.rstrip('/') + '/' + c
            try:
                st = _real['lstat'](nxt)
            except (OSError, ValueError):
                return ('fail' if more else 'last'), nxt
            if _st.S_ISLNK(st.st_mode):
                nxt = os.path.realpath(nxt)
                try:
                    st = _real['stat'](nxt)
                except OSError:
                    return ('fail' if more else 'last'), nxt
            if _st.S_ISDIR(st.st_mode):
                cur = nxt
            else:
                return ('fail' if (more or trailing) else 'ok'), nxt
        return 'ok', cur

    def walk_dirs(self, path):
        """The directories the kernel passes through while walking `path` (every intermediate `cur`)."""
        import stat as _st
        out = set()
        cur = '/' if path.startswith('/') else self.cwd
        out.add(cur)
        for c in path.split('/'):
            if c in ('', '.'):
                continue
            if c == '..':
                cur = os.path.dirname(cur)
                out.add(cur)
                continue
            nxt = cur.rstrip('/') + '/' + c
            try:
                st = _real['lstat'](nxt)
            except (OSError, ValueError):
                break
            if not _st.S_ISDIR(st.st_mode):
                break
            cur = nxt
            out.add(cur)
        return out

    def walk_links(self, path, follow_last=True, fuel=40, visited=None):
        """Physical walk that reports the symbolic links it follows: (how, loc, links) with how/loc as in `walk`
        (plus 'loop') and links = the locations of the links followed, in order.  `visited` collects every
        directory the walk stands in and every link it reads."""
        import stat as _st
        if '\x00' in path:
            return 'nul', None, []
        if len(path.encode('utf-8', 'surrogateescape')) >= 4096:
            return 'fail', None, []
        cur = '/' if path.startswith('/') else self.cwd
        comps = path.split('/')
        links = []
        i = 0
        if visited is not None:
            visited.add(cur)
        while i < len(comps):
            c = comps[i]
            i += 1
            if c in ('', '.'):
                continue
            if c == '..':
                cur = os.path.dirname(cur)
                if visited is not None:
                    visited.add(cur)
                continue
            rest = comps[i:]
            more = any(x != '' for x in rest)
            nxt = cur.rstrip('/') + '/' + c
            try:
                st = _real['lstat'](nxt)
            except (OSError, ValueError):
                return ('fail' if more else 'last'), nxt, links
            if _st.S_ISLNK(st.st_mode):
                if visited is not None:
                    visited.add(nxt)
                if not rest and not follow_last:
                    return 'ok', nxt, links
                fuel -= 1
                if fuel < 0:
                    return 'loop', nxt, links
                links.append(nxt)
                tgt = os.readlink(nxt)
                if tgt.startswith('/'):
                    cur = '/'
                comps = tgt.split('/') + rest
                i = 0
                continue
            if _st.S_ISDIR(st.st_mode):
                cur = nxt
                if visited is not None:
                    visited.add(cur)
            else:
                return ('fail' if (more or rest) else 'ok'), nxt, links
        return 'ok', cur, links

    @staticmethod
    def _in(p, d):
        return p == d or p.startswith(d.rstrip('/') + '/')

    def judge_links(self, root, log, changed, kind, body=None):
        """The property predicate in a tree with symbolic links, weak reading: the object an access reaches
        (or would create) is at or below the root - unless the FIRST link the kernel follows on the way sits
        at, above or inside the root (the operator's own links; like FollowSymLinks).  An outside object reached
        through a link that sits OUTSIDE the root (F32 / F32b, repaired: the normalised name goes to the kernel)
        is a violation like any other."""
        bad = []
        allowed_locs = set()
        passed = None
        for op, path, internal, res in log:
            how, loc, links = self.walk_links(path, follow_last=op not in NOFOLLOW_OPS)
            if how not in ('ok', 'last'):
                continue
            if self._in(loc, root):
                continue
            if not self._in(loc, self.top) and system_ok(loc):
                continue
            if links and (self._in(links[0], root) or self._in(root, links[0])):
                allowed_locs.add(loc)
                continue
            if internal and op in READ_OPS:
                if passed is None:
                    passed = set()
                    for op2, path2, internal2, _r in log:
                        if not internal2:
                            self.walk_links(path2, visited=passed)
                if loc in passed:
                    continue
            shown = '%s(%r) reaches %s, outside the root %s' % (
                op, path.replace(self.top, '{TOP}'), loc.replace(self.top, '{TOP}'), root.replace(self.top, '{TOP}'))
            if links:
                shown += ' through the link %s that sits outside the root' % links[0].replace(self.top, '{TOP}')
            bad.append((shown, 'outside_%s' % ('read' if op in READ_OPS else 'write')))
        for r in changed:
            p = self.top + '/' + r
            if self._in(p, root) or p in allowed_locs:
                continue
            bad.append(('the tree outside the root changed: %s' % r, 'outside_modified'))
        if body is not None:
            rel = self.content.get(body)
            if rel is not None:
                p = self.top + '/' + rel
                if not (self._in(p, root) or p in allowed_locs):
                    bad.append(('the response body is the content of %s, a file outside the root %s'
                                % (rel, root.replace(self.top, '{TOP}')), 'outside_content_served'))
        return bad

    def where(self, path):
        """The file-system object the kernel reaches when given `path`: the existing file/directory it
        names, or (last component missing) the place where it would be created.  None = nothing is
        reached: embedded NUL (no syscall), or the walk fails at an intermediate component
        (ENOENT/ENOTDIR before the end).  This is the reading of "touches" that demands least."""
        how, loc = self.walk(path)
        return loc if how in ('ok', 'last') else None

    def judge(self, root, log, changed):
        """Property predicate on one case.  `root` = absolute real path of the configured root."""
        bad = []
        passed = None
        for op, path, internal, res in log:
            loc = self.where(path)
            if loc is None:
                continue
            if loc == root or loc.startswith(root + '/'):
                continue
            if not (loc == self.top or loc.startswith(self.top + '/')) and system_ok(loc):
                continue
            if internal and op in READ_OPS:
                # filelock canonicalises the lock path with realpath(): one lstat per directory the walk of
                # that path passes through (ancestors of the root, and - for ids like
                # "/../../other/../sess/session-x" - a directory outside that the walk leaves again), exactly
                # what the kernel's own walk of the same path does.  Passing through is not touching.
                if passed is None:
                    passed = set()
                    for op2, path2, internal2, _r in log:
                        if not internal2:
                            passed |= self.walk_dirs(path2)
                if loc in passed:
                    continue
            kind = 'read' if op in READ_OPS else 'write'
            bad.append(('%s(%r) reaches %s, outside the root %s'
                        % (op, path.replace(self.top, '{TOP}'), loc.replace(self.top, '{TOP}'),
                           root.replace(self.top, '{TOP}')),
                        'outside_%s' % kind))
        rrel = os.path.relpath(root, self.top)
        for r in changed:
            if not (r == rrel or r.startswith(rrel + '/')):
                bad.append(('the tree outside the root changed: %s' % r, 'outside_modified'))
        return bad

    # -- applications ------------------------------------------------------------------------------
    def _mk_session_class(self):
        sb = self
        import hashlib

        class ProbeFileSession(self.sessions.FileSession):
            def generate_id(self):
                label = sb.cur.get('label')
                if label is None:
                    sb.gen_counter += 1
                    v = hashlib.sha1(b'c11-%d' % sb.gen_counter).hexdigest()
                else:       # concurrent scenarios: ids depend on the request, not on the schedule
                    sb.cur['gen_n'] = sb.cur.get('gen_n', 0) + 1
                    v = hashlib.sha1(('c11-%s-%d' % (label, sb.cur['gen_n'])).encode()).hexdigest()
                sb.cur.setdefault('gens', []).append(v)
                return v
        self.session_class = ProbeFileSession

    def dir_spelling(self, name, spelling):
        """(dir, root) config values for the directory `top/name`."""
        full = self.top + '/' + name
        return {
            'abs': (full, ''),
            'slash': (full + '/', ''),
            'unnorm': (self.top + '/sub0/../' + name, ''),
            'dotslash': (self.top + '/./' + name + '//', ''),
            'rel+root': (name, self.top),
            'rel+root/': (name + '/', self.top + '/'),
            'rel-noroot': (name, ''),
            'dblslash': ('/' + full, ''),
            'relcwd': (os.path.relpath(full, self.cwd), ''),           # relative to the cwd, starts with ../
            'dotdot': (full + '/nodir/..', ''),                         # lexical .. at the end
            'slashes': (full + '///', ''),
            'rel+relroot': (name, os.path.relpath(self.top, self.cwd)),   # relative root: filename stays relative
            'rel+root-dd': (name, self.top + '/sub0/..'),
        }[spelling]

    VARIANTS = {
        # name: (script_name, section, spelling, index, match)
        'std': ('', '/static', 'abs', 'index.html', ''),
        'noindex': ('', '/static', 'abs', '', ''),
        'rootmount': ('', '/', 'abs', 'index.html', ''),
        'nested': ('', '/s/t', 'rel+root', 'index.html', ''),
        'slashdir': ('', '/static', 'slash', 'index.html', ''),
        'unnorm': ('', '/static', 'unnorm', '', ''),
        'match': ('', '/static', 'abs', 'index.html', r'\.(txt|html)$'),
        'norootrel': ('', '/static', 'rel-noroot', '', ''),
        'script': ('/app', '/static', 'abs', 'index.html', ''),
        'dblslash': ('', '/static', 'dblslash', 'index.html', ''),
        'debug': ('', '/static', 'abs', 'index.html', '', {'debug': True}),
        'ctypes': ('', '/static', 'rel+root/', 'index.html', '', {'content_types': {'txt': 'text/x-c11', 'html': 'text/html'}}),
        'regexsec': ('', '/st.t(c+', 'abs', 'index.html', ''),
        'relroot': ('', '/static', 'rel+relroot', 'index.html', ''),
        'rootdd': ('', '/static', 'rel+root-dd', '', ''),
        'indexsub': ('', '/static', 'abs', 'sub/index.html', ''),
        'indexdot': ('', '/static', 'slashes', './index.html', ''),
        'matchhead': ('', '/static', 'abs', 'index.html', r'^/static/(sub|f|\.\.|%2e)'),
        # tools.staticfile serving <root>/f.txt below /sf
        'file': ('', '/sf', 'abs', '', ''),
        'file-rel': ('', '/sf', 'rel+root', '', r'\.txt$'),
        'file-norel': ('', '/sf', 'rel-noroot', '', ''),
        'file-debug': ('', '/sf', 'rel+root/', '', '', {'debug': True, 'content_types': {'txt': 'text/x-c11'}}),
        'file-dbg-missing': ('', '/sf', 'abs', '', '', {'debug': True, 'fname': 'nope.txt'}),
        'file-dbg-dir': ('', '/sf', 'abs', '', '', {'debug': True, 'fname': 'sub'}),
        'file-dbg-match': ('', '/sf', 'abs', '', r'\.nomatch$', {'debug': True}),
        'file-dbg-norel': ('', '/sf', 'rel-noroot', '', '', {'debug': True}),
        'file-dbg-relroot': ('', '/sf', 'rel+relroot', '', '', {'debug': True}),
    }

    def static_app(self, rn, variant):
        key = ('static', rn, variant)
        if key in self.apps:
            return self.apps[key]
        cherrypy = self.cherrypy
        sb = self
        script, section, spelling, index, match = self.VARIANTS[variant][:5]
        opts = self.VARIANTS[variant][5] if len(self.VARIANTS[variant]) > 5 else {}
        d, root = self.dir_spelling(rn, spelling)

        def hook():
            req = cherrypy.serving.request
            tm = req.toolmaps.get('tools', {}).get('staticdir')
            if tm and tm.get('on'):
                m = tm.get('match', '')
                sb.cur['routed'] = {
                    'method': req.method, 'section': tm.get('section'), 'dir': tm.get('dir'),
                    'root': tm.get('root', ''), 'index': tm.get('index', ''),
                    'match_ok': (not m) or bool(re.search(m, req.path_info)), 'path_info': req.path_info}
            tf = req.toolmaps.get('tools', {}).get('staticfile')
            if tf and tf.get('on'):
                m = tf.get('match', '')
                sb.cur['routed_file'] = {
                    'method': req.method, 'filename': tf.get('filename'), 'root': tf.get('root') or '',
                    'match_ok': (not m) or bool(re.search(m, req.path_info))}

        class Root:
            pass
        if variant.startswith('file'):
            opts = dict(opts)
            sconf = {'tools.staticfile.on': True, 'tools.staticfile.filename': d + '/' + opts.pop('fname', 'f.txt')}
            if root:
                sconf['tools.staticfile.root'] = root
            if match:
                sconf['tools.staticfile.match'] = match
        else:
            sconf = {'tools.staticdir.on': True, 'tools.staticdir.dir': d}
            if root:
                sconf['tools.staticdir.root'] = root
            if index:
                sconf['tools.staticdir.index'] = index
            if match:
                sconf['tools.staticdir.match'] = match
        tool = 'tools.staticfile.' if variant.startswith('file') else 'tools.staticdir.'
        for k, v in opts.items():
            sconf[tool + k] = v
        conf = {'/': {'hooks.before_handler.c11': cherrypy._cprequest.Hook(hook, priority=0)}}
        conf.setdefault(section, {}).update(sconf)
        app = cherrypy.Application(Root(), script, conf)
        self.apps[key] = app
        return app

    def direct_app(self):
        if 'direct' in self.apps:
            return self.apps['direct']
        cherrypy, static = self.cherrypy, self.static
        sb = self

        class Root:
            @cherrypy.expose
            def direct(self, *a, **k):
                c = sb.cur['direct']
                cherrypy.request.path_info = c['path_info']
                handled = static.staticdir(section=c['section'], dir=c['dir'], root=c['root'],
                                           match=c['match'], index=c['index'], debug=c.get('debug', False),
                                           content_types=c.get('content_types'))
                if not handled:
                    raise cherrypy.NotFound()
                return cherrypy.serving.response.body
        app = cherrypy.Application(Root(), '', {'/': {}})
        self.apps['direct'] = app
        return app

    def session_app(self, store, spelling):
        key = ('sess', store, spelling)
        if key in self.apps:
            return self.apps[key]
        cherrypy = self.cherrypy
        sb = self
        d, _ = self.dir_spelling(store, spelling)

        def see_cookie():
            req = cherrypy.serving.request
            if 'session_id' in req.cookie:
                sb.cur['cookie_seen'] = req.cookie['session_id'].value

        class Root:
            @cherrypy.expose
            def s(self, act='none'):
                sess = cherrypy.session
                if act == 'read':
                    return repr(sess.get('k'))
                if act == 'write':
                    sess['n'] = 1
                    return 'w'
                if act == 'delete':
                    sess.delete()
                    return 'd'
                if act == 'regenerate':
                    sess.regenerate()
                    return 'g'
                return 'n'
        conf = {'/': {'hooks.before_request_body.c11': cherrypy._cprequest.Hook(see_cookie, priority=5),
                      'tools.sessions.on': True, 'tools.sessions.storage_class': self.session_class,
                      'tools.sessions.storage_path': d, 'tools.sessions.clean_freq': 0,
                      'tools.sessions.lock_timeout': 2}}
        app = cherrypy.Application(Root(), '', conf)
        self.apps[key] = app
        return app

    # -- two-thread scenarios (harness/c11_conc.py) ----------------------------------------------
    def conc_static(self, case):
        cherrypy = self.cherrypy
        dirs = case['dirs']
        key = ('conc-static',) + tuple(dirs)
        full = [self.top if d == '.' else self.top + '/' + d for d in dirs]
        if key not in self.apps:
            class Root:
                pass
            conf = {'/': {}}
            for name, d in zip('abc', full):
                conf['/' + name] = {'tools.staticdir.on': True, 'tools.staticdir.dir': d,
                                    'tools.staticdir.index': 'index.html'}
            self.apps[key] = cherrypy.Application(Root(), '', conf)
        reqs, roots = [], []
        for i, r in enumerate(case['reqs']):
            sec = r.get('sec', 'abc'[i])
            path = '/' + sec + '/' + self.sub(r['path'])
            reqs.append({'label': 'r%d' % i, 'path': path, 'show': path.replace(self.top, '{TOP}')})
            roots.append(full['abc'.index(sec)])
        return self.apps[key], roots, reqs

    def conc_session(self, case):
        cherrypy = self.cherrypy
        key = ('conc-session',)
        stores = {'sa': 'sess', 'sb': 'sess2'}
        if key not in self.apps:
            def action(act):
                sess = cherrypy.session
                if act == 'read':
                    return repr(sess.get('k'))
                if act == 'write':
                    sess['n'] = 1
                    return 'w'
                if act == 'delete':
                    sess.delete()
                    return 'd'
                if act == 'regenerate':
                    sess.regenerate()
                    return 'g'
                return 'n'

            class Node:
                @cherrypy.expose
                def s(self, act='none'):
                    return action(act)

            class Root:
                sa = Node()
                sb = Node()
            conf = {'/': {}}
            for sec, store in stores.items():
                conf['/' + sec] = {'tools.sessions.on': True, 'tools.sessions.storage_class': self.session_class,
                                   'tools.sessions.storage_path': self.top + '/' + store,
                                   'tools.sessions.clean_freq': 0, 'tools.sessions.lock_timeout': 2}
            self.apps[key] = cherrypy.Application(Root(), '', conf)
        reqs, roots = [], []
        for i, r in enumerate(case['reqs']):
            cookie = None if r.get('id') is None else self.cookie_header(self.sub(r['id']), r.get('cstyle', 'auto'))
            reqs.append({'label': 'r%d' % i, 'path': '/%s/s' % r['sec'], 'qs': 'act=' + r['action'],
                         'cookie': cookie, 'show': '/%s/s?act=%s Cookie: %s' % (r['sec'], r['action'], cookie)})
            roots.append(self.top + '/' + stores[r['sec']])
        return self.apps[key], roots, reqs

    def call(self, app, method, script, path, qs='', cookie=None):
        if any(ord(c) > 255 for c in path):
            path = path.encode('utf-8').decode('latin-1')
        env = {'REQUEST_METHOD': method, 'SCRIPT_NAME': script, 'PATH_INFO': path, 'QUERY_STRING': qs,
               'SERVER_NAME': 'c11', 'SERVER_PORT': '80', 'SERVER_PROTOCOL': 'HTTP/1.1',
               'wsgi.version': (1, 0), 'wsgi.url_scheme': 'http', 'wsgi.input': io.BytesIO(b''),
               'wsgi.errors': io.StringIO(), 'wsgi.multithread': False, 'wsgi.multiprocess': False,
               'wsgi.run_once': False, 'REMOTE_ADDR': '127.0.0.1', 'HTTP_HOST': 'c11'}
        if cookie is not None:
            env['HTTP_COOKIE'] = cookie
        if method not in ('GET', 'HEAD'):
            env['CONTENT_LENGTH'] = '0'
        out = {}

        def start_response(status, headers, exc_info=None):
            out['status'] = status
            out['headers'] = headers
        try:
            it = app(env, start_response)
            try:
                # whatever the application yields is an observation (a str chunk is the code's fault, not ours)
                body = b''.join(x if isinstance(x, bytes) else str(x).encode('utf-8', 'replace') for x in it)
            finally:
                if hasattr(it, 'close'):
                    it.close()
        except Exception as e:
            if origin(e) != 'code':
                raise
            return describe(e), b''
        if 'status' not in out:
            return 'raised:no-start_response', body
        return str(out['status'])[:3], body

    # -- case runners ----------------------------------------------------------------------------
    def sub(self, s):
        return s.replace('{TOP}', self.top)

    CASE_LIMIT = 30.0       # seconds for one (non-scheduled) case; the unchanged tree needs milliseconds
    hangs = 0

    def run(self, case):
        """One case; never raises.  A hang of the code under test is an observation (SIGALRM, main thread only);
        after the first one the limit drops, after three the rest of the batch is skipped (each would cost the
        limit again and say nothing new)."""
        if self.hangs >= 3:
            return {'skipped': True, 'oracle': [], 'hist': ['%s:skipped-after-3-hangs' % case.get('k')]}
        limit = self.CASE_LIMIT if self.hangs == 0 else 8.0
        use_alarm = (case.get('k') != 'conc' and hasattr(signal, 'setitimer')
                     and threading.current_thread() is threading.main_thread())
        if use_alarm:
            def _on_alarm(signum, frame):
                raise CodeHang()
            old = signal.signal(signal.SIGALRM, _on_alarm)
            signal.setitimer(signal.ITIMER_REAL, limit)
        TAP.states = {}         # nothing of an earlier case may be attributed to this one
        try:
            return self._run(case)
        except CodeHang:
            self.hangs += 1
            TAP.close()
            try:
                self.restore()
            except Exception:
                pass
            return {'code_raised': 'hang: no answer within %d s' % limit, 'oracle': [],
                    'hist': ['%s:code-hang' % case.get('k')]}
        finally:
            if use_alarm:
                signal.setitimer(signal.ITIMER_REAL, 0)
                signal.signal(signal.SIGALRM, old)
            try:
                if os.getcwd() != self.cwd:
                    os.chdir(self.cwd)
            except OSError:
                pass

    def _run(self, case):
        try:
            k = case['k']
            self.set_flavour('links' if case.get('fl') == 'links' else 'plain')
            if k == 'static':
                return self.run_static(case)
            if k == 'sess_unit':
                return self.run_sess_unit(case)
            if k == 'sess_wsgi':
                return self.run_sess_wsgi(case)
            if k == 'cleanup':
                return self.run_cleanup(case)
            if k == 'alg':
                return self.run_alg(case)
            if k == 'resolve':
                return self.run_resolve(case)
            if k == 'lres':
                return self.run_lres(case)
            if k == 'conc':
                from . import c11_conc
                return c11_conc.run_conc(self, case)
            return {'harness_error': 'unknown case kind %r' % k}
        except common.HarnessError as e:
            return {'harness_error': str(e)}
        except Exception as e:
            if origin(e) == 'code':
                # the code under test raised somewhere the runner does not expect it (construction,
                # setup, clean-up...): an observation, never a harness error
                return self.code_raised(case, e)
            import traceback
            return {'harness_error': 'runner raised %r: %s' % (e, traceback.format_exc()[-1200:])}

    def case_root(self, case):
        if case.get('k') == 'static':
            return self.top + '/' + case['rn']
        if 'store' in case:
            return self.top + '/' + case['store']
        return None

    def code_raised(self, case, exc):
        TAP.close()
        log = list(TAP.log)
        try:
            changed = self.restore()
        except Exception:
            changed = []
        root = self.case_root(case)
        try:
            bad = self._judge('static' if case.get('k') == 'static' else 'session', root, log, changed) if root else []
        except Exception:
            bad = []
        return {'code_raised': describe(exc), 'oracle': bad, 'acc': self.canon_acc(log),
                'hist': ['%s:code-raised' % case.get('k')]}

    def _judge(self, kind, root, log, changed, body=None):
        """The oracle for the current sandbox flavour.  `body` = a 200 GET body (static only)."""
        if self.flavour == 'links':
            return self.judge_links(root, log, changed, kind, body)
        bad = self.judge(root, log, changed)
        if body is not None:
            rel = self.content.get(body)
            rrel = os.path.relpath(root, self.top)
            if rel is not None and not rel.startswith(rrel + '/'):
                bad.append(('the response body is the content of %s, a file outside the root %s' % (rel, rrel),
                            'outside_content_served'))
        return bad

    @staticmethod
    def canon_acc(log):
        return [[op, path] for op, path, internal, res in log if not internal]

    def run_static(self, case):
        rn = case['rn']
        root = self.top + '/' + rn
        self.cur = {}
        if case['mode'] == 'wsgi':
            script = self.VARIANTS[case['variant']][0]
            app = self.static_app(rn, case['variant'])
            with TAP:
                status, body = self.call(app, case['method'], script, self.sub(case['path']))
            log = TAP.log
        else:
            d, r = self.dir_spelling(rn, case['spelling'])
            m = case.get('match', '')
            pi = self.sub(case['path_info'])
            self.cur['direct'] = {'section': case['section'], 'dir': d, 'root': r, 'match': m,
                                  'index': case['index'], 'path_info': pi, 'debug': bool(case.get('debug')),
                                  'content_types': case.get('content_types')}
            self.cur['routed'] = {'method': case['method'], 'section': case['section'], 'dir': d, 'root': r,
                                  'index': case['index'], 'match_ok': (not m) or bool(re.search(m, pi)),
                                  'path_info': pi}
            app = self.direct_app()
            with TAP:
                status, body = self.call(app, case['method'], '', '/direct')
            log = TAP.log
        changed = self.restore() if any(op not in READ_OPS for op, *_ in log) else []
        obs = {'status': status, 'routed': self.cur.get('routed'), 'acc': self.canon_acc(log),
               'routed_file': self.cur.get('routed_file')}
        stats = [res for op, path, internal, res in log if op == 'stat']
        obs['k1'] = stats[0] if len(stats) > 0 else 'm'
        obs['k2'] = stats[1] if len(stats) > 1 else 'm'
        served = body if (status == '200' and case['method'] == 'GET') else None
        bad = self._judge('static', root, log, changed, served)
        if served is not None and self.content.get(body) is None:
            obs.setdefault('hist', []).append('static:200-unknown-body')
        obs['oracle'] = bad
        h = obs.setdefault('hist', [])
        h.append('static:status=%s' % status)
        h.append('static:tmpl=%s' % case.get('tmpl'))
        h.append('static:mode=%s' % case['mode'])
        h.append('static:accesses=%d' % len(obs['acc']))
        if obs['routed'] is None:
            h.append('static:not-routed')
        return obs

    def cookie_header(self, value, style='auto'):
        """`Cookie:` header carrying `value` as session_id.  Styles: auto (raw when every character is a
        legal cookie octet, quoted otherwise), octal (quoted, every non-alphanumeric as \\ooo - http.cookies
        turns \\057 back into '/'), bslash (quoted, backslash-escaped characters), mixed (alternating)."""
        legal = set("abcdefghijklmnopqrstuvwxyzABCDEFGHIJKLMNOPQRSTUVWXYZ0123456789!#%&'~_`><@,:/$*+-.^|)(?}{=")
        if style == 'auto' and value and all(c in legal for c in value):
            return 'session_id=' + value
        out = []
        for i, c in enumerate(value):
            if ord(c) > 255:
                out.append(c.encode('utf-8').decode('latin-1'))
                continue
            plain_ok = c.isalnum() and ord(c) < 128
            if style == 'auto':
                if c in legal or c == ' ':
                    out.append(c)
                else:
                    out.append('\\%03o' % ord(c))
            elif plain_ok:
                out.append(c)
            elif style == 'octal' or (style == 'mixed' and i % 2 == 0) or not (32 < ord(c) < 127):
                out.append('\\%03o' % ord(c))
            else:
                out.append('\\' + c)
        return 'session_id="%s"' % ''.join(out)

    def store_root(self, case):
        return self.top + '/' + case['store']

    def run_sess_wsgi(self, case):
        root = self.store_root(case)
        self.cur = {}
        app = self.session_app(case['store'], case['spelling'])
        d, _ = self.dir_spelling(case['store'], case['spelling'])
        cookie = None if case.get('id') is None else self.cookie_header(self.sub(case['id']), case.get('cstyle', 'auto'))
        with TAP:
            status, body = self.call(app, 'GET', '', '/s', 'act=' + case['action'], cookie)
        log = TAP.log
        changed = self.restore()
        obs = {'status': status, 'acc': self.canon_acc(log), 'refused': status == '400',
               'cookie_seen': self.cur.get('cookie_seen'), 'gens': self.cur.get('gens', []),
               'cwd': self.cwd, 'storage': d, 'cookie': cookie}
        gens = self.cur.get('gens', [])
        stats = [res for op, path, internal, res in log
                 if op == 'stat' and not internal and not any(g in path for g in gens)]
        obs['present'] = bool(stats) and stats[0] != 'm' and self.cur.get('cookie_seen') is not None
        obs['oracle'] = [(w + ' [Cookie: %s]' % cookie, sig) for w, sig in self._judge('session', root, log, changed)]
        h = obs.setdefault('hist', [])
        h += ['sess_wsgi:status=%s' % status, 'sess_wsgi:tmpl=%s' % case.get('tmpl'),
              'sess_wsgi:action=%s' % case['action'], 'sess_wsgi:present=%s' % obs['present']]
        if status == '500':
            # the flow model stops where the exception stopped the code: compare the prefix only
            obs['status500'] = True
        return obs

    def run_sess_unit(self, case):
        cherrypy = self.cherrypy
        root = self.store_root(case)
        self.cur = {}
        d, _ = self.dir_spelling(case['store'], case['spelling'])
        op = case['op']
        if op == 'bad-timeout':
            # FileSession.__init__ refuses a lock_timeout that is neither a number nor a timedelta (configuration)
            with TAP:
                try:
                    self.session_class(id=None, storage_path=d, timeout=60, clean_freq=0, lock_timeout='soon')
                    outcome = 'ok'
                except ValueError:
                    outcome = 'ValueError'
            log = TAP.log
            changed = self.restore()
            return {'acc': self.canon_acc(log), 'refused': False, 'outcome': outcome, 'cwd': self.cwd, 'storage': d,
                    'oracle': self._judge('session', root, log, changed),
                    'hist': ['sess_unit:op=bad-timeout', 'sess_unit:outcome=%s' % outcome]}
        sess = self.session_class(id=None, storage_path=d, timeout=60, clean_freq=0,
                                  lock_timeout=0.15 if op == 'lock-busy' else 2)
        sess._id = self.sub(case['id'])
        if case.get('debug'):
            sess.debug = True
        outcome = 'ok'
        holder = None
        if op == 'lock-busy':
            # somebody else holds the session's lock: acquire_lock retries, sleeps, gives up with LockTimeout
            holder = self._saved_lock(root + '/session-' + sess._id + '.lock')
            holder.acquire(timeout=1)
        with TAP:
            try:
                if op == 'lock-busy':
                    try:
                        sess.acquire_lock()
                    finally:
                        lk = getattr(sess, 'lock', None)
                        if lk is not None:
                            try:
                                lk.release()
                            except Exception:
                                pass
                elif op == 'exists':
                    sess._exists()
                elif op == 'load':
                    sess.locked = True
                    sess._load()
                elif op == 'save':
                    sess.locked = True
                    sess._save(datetime.datetime(2999, 1, 1))
                elif op == 'delete':
                    sess.locked = True
                    sess._delete()
                elif op == 'len':
                    len(sess)
                elif op == 'release':
                    sess.acquire_lock()
                    sess.release_lock()
                elif op == 'lock':
                    try:
                        sess.acquire_lock()
                    finally:
                        lk = getattr(sess, 'lock', None)
                        if lk is not None:
                            try:
                                lk.release()
                            except Exception:
                                pass
                else:
                    raise common.HarnessError('bad op %r' % op)
            except cherrypy.HTTPError as e:
                outcome = str(e.status)
            except common.HarnessError:
                raise
            except Exception as e:
                outcome = 'exc:' + type(e).__name__
        if holder is not None:
            try:
                holder.release()
            except Exception:
                pass
        log = TAP.log
        changed = self.restore()
        obs = {'acc': self.canon_acc(log), 'refused': outcome == '400', 'outcome': outcome,
               'cwd': self.cwd, 'storage': d}
        obs['hist'] = ['sess_unit:op=%s' % op, 'sess_unit:outcome=%s' % outcome,
                       'sess_unit:tmpl=%s' % case.get('tmpl')]
        # Since the F32b repair the methods hand the NORMALISED name to the OS (and to filelock), so every
        # access of a direct call is judged at full strength, whatever the id (observation 2 is gone: filelock's
        # `mkdir -p` of the lock file's parents can only create directories below the storage directory).
        obs['oracle'] = self._judge('session', root, log, changed)
        return obs

    def run_cleanup(self, case):
        root = self.store_root(case)
        d, _ = self.dir_spelling(case['store'], case['spelling'])
        extra = {}
        states = {}
        for name, st in case['files']:
            rel = case['store'] + '/' + name
            if st == 'dir':
                extra[rel] = None
                states[name] = 'u'
            else:
                extra[rel] = {'u': b'garbage', 'z': b'', 'f': _pickle(), 'e': _pickle(past=True)}[st]
                states[name] = {'z': 'u'}.get(st, st)
        self.restore(extra)
        sess = self.session_class(id=None, storage_path=d, timeout=60, clean_freq=0, lock_timeout=2)
        if case.get('debug'):
            sess.debug = True
        listing = []
        for name in _real['listdir'](root):
            if name in states:
                listing.append([name, states[name]])
            else:
                p = root + '/' + name
                listing.append([name, 'u' if os.path.isdir(p) else 'f'])
        outcome = 'ok'
        with TAP:
            try:
                sess.clean_up()
            except Exception as e:      # the code under test may raise: an outcome, not a harness error
                outcome = 'exc:' + type(e).__name__
                lk = getattr(sess, 'lock', None)
                if lk is not None:
                    try:
                        lk.release()
                    except Exception:
                        pass
        log = TAP.log
        changed = self.restore()
        # files clean_up removed/created inside the root are expected; only outside changes count
        obs = {'acc': self.canon_acc(log), 'listing': listing, 'cwd': self.cwd, 'storage': d}
        obs['oracle'] = self._judge('session', root, log, changed)
        obs['hist'] = ['cleanup:files=%d' % len(listing), 'cleanup:outcome=%s' % outcome]
        return obs

    def run_alg(self, case):
        import posixpath
        import urllib.parse
        op, args = case['op'], case['args']
        if op == 'norm':
            v = os.path.normpath(args[0])
        elif op == 'join':
            v = os.path.join(args[0], args[1])
        elif op == 'abs':
            args = [self.cwd, args[1]]
            case = dict(case, args=args)
            v = os.path.abspath(args[1])
        elif op == 'unq':
            v = urllib.parse.unquote(args[0])
        elif op == 'comps':
            v = [c for c in args[0].split('/') if c]
        else:
            raise common.HarnessError('bad alg op %r' % op)
        if os.path is not posixpath:
            raise common.HarnessError('os.path is not posixpath')
        return {'value': v, 'hist': ['alg:%s' % op], 'args': args}

    def run_lres(self, case):
        """`lresolve` of the model against the kernel on the sandbox flavour with links."""
        import errno
        import stat as _st
        path = self.sub(case['path'])
        follow = bool(case['follow'])
        nodes = []
        anc = self.top
        while anc != '/':
            nodes.append([anc, 'd', None])
            anc = os.path.dirname(anc)
        for rel, c in list(self.spec.items()) + list(self.base_extra.items()):
            if c is None:
                nodes.append([self.top + '/' + rel, 'd', None])
            elif isinstance(c, tuple):
                nodes.append([self.top + '/' + rel, 'l', c[1]])
            else:
                nodes.append([self.top + '/' + rel, 'f', None])
        how, loc, links = self.walk_links(path, follow_last=follow)
        try:
            st = (_real['stat'] if follow else _real['lstat'])(path)
            kind = 'lnk' if _st.S_ISLNK(st.st_mode) else ('dir' if _st.S_ISDIR(st.st_mode) else 'file')
            if how != 'ok':
                return {'harness_error': 'walk_links(%r) = %r but the kernel finds a %s' % (path, (how, loc), kind)}
            if kind != 'lnk' and os.path.realpath(path) != loc:
                return {'harness_error': 'walk_links(%r) = %r but realpath = %r' % (path, loc, os.path.realpath(path))}
            result = [kind, loc]
        except OSError as e:
            if e.errno == errno.ELOOP:
                result = ['eloop', '']
                if how != 'loop':
                    return {'harness_error': 'walk_links(%r) = %r but the kernel says ELOOP' % (path, (how, loc))}
            else:
                result = ['enoent', loc]
                if how not in ('fail', 'last'):
                    return {'harness_error': 'walk_links(%r) = %r but the kernel says %s' % (path, (how, loc), e)}
        if loc is not None and not (self._in(loc, self.top) or self._in(self.top, loc)):
            return {'skip': True, 'hist': ['lres:left-the-sandbox'], 'nodes': [], 'path': '/', 'follow': follow,
                    'result': ['dir', '/']}
        return {'nodes': nodes, 'path': path, 'follow': follow, 'result': result,
                'hist': ['lres:%s' % result[0], 'lres:links-followed=%d' % min(len(links), 3)]}

    def run_resolve(self, case):
        import stat as _st
        path = self.sub(case['path'])
        dirs, files = [], []
        anc = self.top
        while anc != '/':
            dirs.append(anc)
            anc = os.path.dirname(anc)
        for rel, c in self.spec.items():
            (dirs if c is None else files).append(self.top + '/' + rel)
        loc = self.walk(path)[1]
        try:
            st = _real['stat'](path)
            kind = 'dir' if _st.S_ISDIR(st.st_mode) else 'file'
            real = os.path.realpath(path)
            if real != loc:
                return {'harness_error': 'where(%r) = %r but realpath = %r' % (path, loc, real)}
        except (OSError, ValueError):
            kind = 'enoent'
        if not (loc == self.top or loc.startswith(self.top + '/') or self.top.startswith(loc.rstrip('/') + '/')):
            return {'skip': True, 'hist': ['resolve:left-the-sandbox'], 'dirs': [], 'files': [], 'path': '/',
                    'result': ['dir', '/']}
        return {'dirs': dirs, 'files': files, 'path': path, 'result': [kind, loc],
                'hist': ['resolve:%s' % kind]}
