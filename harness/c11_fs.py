"""C11: sandbox tree, file-system tap, real-code runners and the oracle.

The oracle is written from the property statement: every path the code hands to the file system
during a request resolves (physically, component by component, in the symlink-free sandbox) to a
location inside the configured root; a 200 response carries the content of a file inside the
root; nothing outside the root is created, changed or removed.
"""
import datetime
import io
import os
import pickle
import re
import shutil
import sys
import tempfile
import threading

from . import common

_real = {n: getattr(os, n) for n in ('stat', 'lstat', 'access', 'readlink', 'listdir', 'getcwd')}

ROOTS = ['root', 'r', 'static.d']
STORES = ['sess', 'sess2']
W_FLAGS = os.O_WRONLY | os.O_RDWR | os.O_CREAT | os.O_TRUNC | os.O_APPEND

AUDIT_OPS = {
    'os.remove': 'unlink', 'os.listdir': 'listdir', 'os.scandir': 'listdir', 'os.mkdir': 'mkdir',
    'os.rmdir': 'rmdir', 'os.rename': 'rename', 'os.chmod': 'chmod', 'os.chown': 'chown', 'os.link': 'link',
    'os.symlink': 'symlink', 'os.truncate': 'truncate', 'os.utime': 'utime', 'os.chdir': 'chdir',
    'os.walk': 'listdir', 'glob.glob': 'listdir', 'shutil.copyfile': 'copy', 'shutil.copytree': 'copy',
    'shutil.move': 'rename', 'shutil.rmtree': 'rmdir', 'os.mkfifo': 'mkdir', 'os.mknod': 'mkdir',
    'os.setxattr': 'chmod', 'os.removexattr': 'chmod', 'os.getxattr': 'stat', 'os.listxattr': 'stat',
    'os.lchown': 'chown', 'os.lchmod': 'chmod',
}
TWO_PATHS = {'os.rename', 'os.link', 'os.symlink', 'shutil.copyfile', 'shutil.copytree', 'shutil.move'}
READ_OPS = {'stat', 'openr', 'listdir'}


def _p(x):
    """Path argument as str, or None when it is not a path (fd, None)."""
    if isinstance(x, int) or x is None:
        return None
    try:
        x = os.fspath(x)
    except TypeError:
        return None
    if isinstance(x, bytes):
        x = os.fsdecode(x)
    return x


class _TState:
    __slots__ = ('log', 'internal')

    def __init__(self):
        self.log = []
        self.internal = 0


class Tap:
    """Records [op, path, internal, result] per registered thread (others pass through untouched)."""

    def __init__(self):
        self.enabled = False
        self.states = {}          # thread ident -> _TState
        self._hooked = False
        self._depth = 0

    def state(self):
        return self.states.get(threading.get_ident()) if self.enabled else None

    @property
    def log(self):
        """Log of the calling thread (the last one it recorded, also after the tap was closed)."""
        st = self.states.get(threading.get_ident())
        return st.log if st is not None else []

    # -- audit hook (cannot be removed once added: gated by `enabled`) --------------------------
    def _audit(self, event, args):
        if not self.enabled:
            return
        st = self.states.get(threading.get_ident())
        if st is None:
            return
        if event == 'open':
            path = _p(args[0])
            if path is None:
                return
            mode, flags = args[1], args[2]
            if mode is not None:
                w = any(c in mode for c in 'wax+')
            else:
                w = bool((flags or 0) & W_FLAGS)
            st.log.append(['openw' if w else 'openr', path, st.internal > 0, None])
            return
        op = AUDIT_OPS.get(event)
        if op is None:
            return
        n = 2 if event in TWO_PATHS else 1
        for a in args[:n]:
            path = _p(a)
            if path is not None:
                st.log.append([op, path, st.internal > 0, None])

    def _wrap(self, name):
        real = _real[name]
        tap = self

        def wrapper(path, *a, **k):
            st = tap.states.get(threading.get_ident()) if tap.enabled else None
            if st is None:
                return real(path, *a, **k)
            sp = _p(path)
            if sp is None:
                return real(path, *a, **k)
            entry = ['stat', sp, st.internal > 0, 'm']
            st.log.append(entry)
            r = real(path, *a, **k)
            if name in ('stat', 'lstat'):
                import stat as _st
                entry[3] = 'd' if _st.S_ISDIR(r.st_mode) else 'f'
            else:
                entry[3] = 'f' if r else 'm'
            return r
        wrapper.__name__ = name
        return wrapper

    def open(self):
        """Patch the os functions and start recording (threads join with `register`)."""
        if not self._hooked:
            sys.addaudithook(self._audit)
            self._hooked = True
        self.states = {}
        for n in ('stat', 'lstat', 'access', 'readlink'):
            setattr(os, n, self._wrap(n))
        self.enabled = True

    def register(self):
        st = _TState()
        self.states[threading.get_ident()] = st
        return st

    def close(self):
        self.enabled = False
        for n in ('stat', 'lstat', 'access', 'readlink'):
            setattr(os, n, _real[n])

    def __enter__(self):
        self.open()
        self.register()
        return self

    def __exit__(self, *exc):
        self.close()
        return False


TAP = Tap()
HERE = os.path.dirname(os.path.abspath(__file__))


def origin(exc):
    """'code' when the exception comes out of the code under test (the innermost frame that is either
    harness or cherrypy is a cherrypy one - library frames called from there count with it),
    'harness' when our own code raised it."""
    import traceback
    try:
        import cherrypy
        pkg = os.path.dirname(os.path.abspath(cherrypy.__file__))
    except Exception:
        return 'code'           # the package itself does not import
    for fr in reversed(traceback.extract_tb(exc.__traceback__)):
        fn = os.path.abspath(fr.filename)
        if fn.startswith(pkg + os.sep):
            return 'code'
        if fn.startswith(HERE + os.sep):
            return 'harness'
    return 'harness'


def describe(exc):
    import traceback
    name = type(exc).__name__
    st = getattr(exc, 'status', None)
    if st is not None:
        name += str(st)
    where = ''
    for fr in reversed(traceback.extract_tb(exc.__traceback__)):
        if '/cherrypy/' in fr.filename:
            where = ' in %s:%s' % (os.path.basename(fr.filename), fr.name)
            break
    return 'raised:%s%s' % (name, where)


def make_lock_shim(real_cls):
    class TapLock:
        """`sessions.FileLock` replacement: records the lock path, marks filelock's own file-system
        traffic as internal (still checked by the oracle), delegates to the real FileLock."""

        def __init__(self, path, *a, **k):
            self.path = path
            self._l = real_cls(path, *a, **k)

        def acquire(self, *a, **k):
            st = TAP.state()
            if st is None:
                return self._l.acquire(*a, **k)
            st.log.append(['lock', _p(self.path), False, None])
            st.internal += 1
            try:
                return self._l.acquire(*a, **k)
            finally:
                st.internal -= 1

        def release(self, *a, **k):
            st = TAP.state()
            if st is None:
                return self._l.release(*a, **k)
            st.internal += 1
            try:
                return self._l.release(*a, **k)
            finally:
                st.internal -= 1

        def __getattr__(self, n):
            return getattr(self._l, n)
    return TapLock


# ----------------------------------------------------------------------------------------------
# sandbox
# ----------------------------------------------------------------------------------------------
def _pickle(past=False):
    when = datetime.datetime(1999, 1, 1) if past else datetime.datetime(2999, 1, 1)
    return pickle.dumps(({'k': 'v'}, when), pickle.HIGHEST_PROTOCOL)


def tree_spec():
    """relpath -> None (directory) | bytes (file content)."""
    t = {}

    def d(p):
        t[p] = None

    def f(p, content=None):
        t[p] = content if content is not None else ('C11:%s:7f3a9c' % p).encode('utf-8')
    for rn in ROOTS:
        d(rn)
        f(rn + '/f.txt')
        f(rn + '/index.html')
        d(rn + '/sub')
        f(rn + '/sub/index.html')
        f(rn + '/sub/g.txt')
        d(rn + '/sub/deep')
        f(rn + '/sub/deep/h.txt')
        d(rn + '/a')
        f(rn + '/sp ace.txt')
        f(rn + '/b\\c.txt')
        f(rn + '/é.txt')
        d(rn + '-evil')
        f(rn + '-evil/secret.txt')
        d(rn + 'x')
        f(rn + 'x/secret.txt')
    d('other')
    f('other/secret.txt')
    f('canary.txt')
    d('sub0')
    f('session-out', _pickle())
    for sn in STORES:
        d(sn)
        f(sn + '/session-real', _pickle())
        f(sn + '/session-real2', _pickle())
        d(sn + '-evil')
        f(sn + '-evil/victim', _pickle())
        d(sn + 'x')
        f(sn + 'x/victim', _pickle())
    d('sess/session-')
    f('sess/session-/inner', _pickle())
    d('sess/session-a')
    d('sess2/session-b')
    return t


SYSTEM_OK = None


def system_ok(path):
    """Paths outside the sandbox the interpreter itself may look at (source files for tracebacks...)."""
    global SYSTEM_OK
    if SYSTEM_OK is None:
        pre = {sys.prefix, sys.base_prefix, sys.exec_prefix, common.REPO, '/repo', '/venv', common.VERIF,
               os.path.dirname(os.__file__), '/usr/lib/python3', '/usr/share/zoneinfo', '/etc/localtime',
               '/etc/mime.types', '/dev/urandom', '/dev/null'}
        SYSTEM_OK = tuple(sorted(os.path.realpath(p) for p in pre))
    return any(path == p or path.startswith(p + '/') for p in SYSTEM_OK)


class Sandboxes:
    def __init__(self):
        self.top = None

    @property
    def cur(self):
        """Per-thread scratch the probes (hooks, generate_id) write into."""
        d = getattr(self._tl, 'cur', None)
        if d is None:
            d = self._tl.cur = {}
        return d

    @cur.setter
    def cur(self, v):
        self._tl.cur = v

    def __enter__(self):
        import cherrypy
        from cherrypy.lib import sessions, static
        self.cherrypy, self.sessions, self.static = cherrypy, sessions, static
        cherrypy.config.update({'environment': 'test_suite', 'log.screen': False, 'log.error_file': '',
                                'log.access_file': '', 'request.show_tracebacks': False,
                                'checker.on': False, 'engine.autoreload.on': False})
        self.top = os.path.realpath(tempfile.mkdtemp(prefix='c11-'))
        self.spec = tree_spec()
        for rel in sorted(self.spec):
            self._create(rel)
        self.content = {v: k for k, v in self.spec.items() if v is not None and v.startswith(b'C11:')}
        self.cwd = os.getcwd()
        self._tl = threading.local()
        self.cur = {}
        self.gen_counter = 0
        self._saved_lock = sessions.FileLock
        sessions.FileLock = make_lock_shim(self._saved_lock)
        self._mk_session_class()
        self.apps = {}
        return self

    def __exit__(self, *exc):
        self.sessions.FileLock = self._saved_lock
        shutil.rmtree(self.top, ignore_errors=True)
        return False

    # -- tree maintenance ----------------------------------------------------------------------
    def _create(self, rel):
        p = os.path.join(self.top, rel)
        c = self.spec[rel]
        if c is None:
            os.makedirs(p, exist_ok=True)
        else:
            with open(p, 'wb') as f:
                f.write(c)

    def scan(self):
        seen = {}
        stack = ['']
        while stack:
            rel = stack.pop()
            with os.scandir(os.path.join(self.top, rel)) as it:
                for e in it:
                    r = (rel + '/' + e.name) if rel else e.name
                    if e.is_symlink():
                        seen[r] = b'<symlink>'
                    elif e.is_dir(follow_symlinks=False):
                        seen[r] = None
                        stack.append(r)
                    else:
                        try:
                            with open(e.path, 'rb') as f:
                                seen[r] = f.read()
                        except OSError:
                            seen[r] = b'<unreadable>'
        return seen

    def restore(self, extra=None):
        """Bring the tree back to `spec` (+ `extra`); return the relpaths that differed."""
        want = dict(self.spec)
        if extra:
            want.update(extra)
        seen = self.scan()
        missing = object()
        diff = sorted(r for r in set(seen) | set(want) if seen.get(r, missing) != want.get(r, missing))
        if not diff:
            return []
        for r in sorted(diff, key=lambda x: -x.count('/')):
            if r in seen:
                p = os.path.join(self.top, r)
                if seen[r] is None:
                    shutil.rmtree(p, ignore_errors=True)
                else:
                    try:
                        os.unlink(p)
                    except OSError:
                        pass
        for r in sorted(want):
            p = os.path.join(self.top, r)
            if not os.path.lexists(p):
                if want[r] is None:
                    os.makedirs(p, exist_ok=True)
                else:
                    with open(p, 'wb') as f:
                        f.write(want[r])
        return diff

    # -- oracle helpers --------------------------------------------------------------------------
    def walk(self, path):
        """Physical walk of `path`: ('ok', loc) the existing object it names; ('last', loc) only the last
        component is missing (loc = where it would be created); ('fail', loc) the walk stops at an
        intermediate component (loc = the deepest name looked up); ('nul', None)."""
        import stat as _st
        if '\x00' in path:
            return 'nul', None
        cur = '/' if path.startswith('/') else self.cwd
        comps = path.split('/')
        n = len(comps)
        for i, c in enumerate(comps):
            if c in ('', '.'):
                continue
            if c == '..':
                cur = os.path.dirname(cur)
                continue
            more = any(x != '' for x in comps[i + 1:])
            trailing = i + 1 < n            # something (even an empty component) follows
            nxt = cur.rstrip('/') + '/' + c
            try:
                st = _real['lstat'](nxt)
            except (OSError, ValueError):
                return ('fail' if more else 'last'), nxt
            if _st.S_ISLNK(st.st_mode):
                nxt = os.path.realpath(nxt)
                try:
                    st = _real['stat'](nxt)
                except OSError:
                    return ('fail' if more else 'last'), nxt
            if _st.S_ISDIR(st.st_mode):
                cur = nxt
            else:
                return ('fail' if (more or trailing) else 'ok'), nxt
        return 'ok', cur

    def walk_dirs(self, path):
        """The directories the kernel passes through while walking `path` (every intermediate `cur`)."""
        import stat as _st
        out = set()
        cur = '/' if path.startswith('/') else self.cwd
        out.add(cur)
        for c in path.split('/'):
            if c in ('', '.'):
                continue
            if c == '..':
                cur = os.path.dirname(cur)
                out.add(cur)
                continue
            nxt = cur.rstrip('/') + '/' + c
            try:
                st = _real['lstat'](nxt)
            except (OSError, ValueError):
                break
            if not _st.S_ISDIR(st.st_mode):
                break
            cur = nxt
            out.add(cur)
        return out

    def where(self, path):
        """The file-system object the kernel reaches when given `path`: the existing file/directory it
        names, or (last component missing) the place where it would be created.  None = nothing is
        reached: embedded NUL (no syscall), or the walk fails at an intermediate component
        (ENOENT/ENOTDIR before the end).  This is the reading of "touches" that demands least."""
        how, loc = self.walk(path)
        return loc if how in ('ok', 'last') else None

    def judge(self, root, log, changed):
        """Property predicate on one case.  `root` = absolute real path of the configured root."""
        bad = []
        passed = None
        for op, path, internal, res in log:
            loc = self.where(path)
            if loc is None:
                continue
            if loc == root or loc.startswith(root + '/'):
                continue
            if not (loc == self.top or loc.startswith(self.top + '/')) and system_ok(loc):
                continue
            if internal and op in READ_OPS:
                # filelock canonicalises the lock path with realpath(): one lstat per directory the walk of
                # that path passes through (ancestors of the root, and - for ids like
                # "/../../other/../sess/session-x" - a directory outside that the walk leaves again), exactly
                # what the kernel's own walk of the same path does.  Passing through is not touching.
                if passed is None:
                    passed = set()
                    for op2, path2, internal2, _r in log:
                        if not internal2:
                            passed |= self.walk_dirs(path2)
                if loc in passed:
                    continue
            kind = 'read' if op in READ_OPS else 'write'
            bad.append(('%s(%r) reaches %s, outside the root %s'
                        % (op, path.replace(self.top, '{TOP}'), loc.replace(self.top, '{TOP}'),
                           root.replace(self.top, '{TOP}')),
                        'outside_%s' % kind))
        rrel = os.path.relpath(root, self.top)
        for r in changed:
            if not (r == rrel or r.startswith(rrel + '/')):
                bad.append(('the tree outside the root changed: %s' % r, 'outside_modified'))
        return bad

    # -- applications ------------------------------------------------------------------------------
    def _mk_session_class(self):
        sb = self
        import hashlib

        class ProbeFileSession(self.sessions.FileSession):
            def generate_id(self):
                label = sb.cur.get('label')
                if label is None:
                    sb.gen_counter += 1
                    v = hashlib.sha1(b'c11-%d' % sb.gen_counter).hexdigest()
                else:       # concurrent scenarios: ids depend on the request, not on the schedule
                    sb.cur['gen_n'] = sb.cur.get('gen_n', 0) + 1
                    v = hashlib.sha1(('c11-%s-%d' % (label, sb.cur['gen_n'])).encode()).hexdigest()
                sb.cur.setdefault('gens', []).append(v)
                return v
        self.session_class = ProbeFileSession

    def dir_spelling(self, name, spelling):
        """(dir, root) config values for the directory `top/name`."""
        full = self.top + '/' + name
        return {
            'abs': (full, ''),
            'slash': (full + '/', ''),
            'unnorm': (self.top + '/sub0/../' + name, ''),
            'dotslash': (self.top + '/./' + name + '//', ''),
            'rel+root': (name, self.top),
            'rel+root/': (name + '/', self.top + '/'),
            'rel-noroot': (name, ''),
            'dblslash': ('/' + full, ''),
        }[spelling]

    VARIANTS = {
        # name: (script_name, section, spelling, index, match)
        'std': ('', '/static', 'abs', 'index.html', ''),
        'noindex': ('', '/static', 'abs', '', ''),
        'rootmount': ('', '/', 'abs', 'index.html', ''),
        'nested': ('', '/s/t', 'rel+root', 'index.html', ''),
        'slashdir': ('', '/static', 'slash', 'index.html', ''),
        'unnorm': ('', '/static', 'unnorm', '', ''),
        'match': ('', '/static', 'abs', 'index.html', r'\.(txt|html)$'),
        'norootrel': ('', '/static', 'rel-noroot', '', ''),
        'script': ('/app', '/static', 'abs', 'index.html', ''),
        'dblslash': ('', '/static', 'dblslash', 'index.html', ''),
        # tools.staticfile serving <root>/f.txt below /sf (oracle only: no staticdir, nothing to compare)
        'file': ('', '/sf', 'abs', '', ''),
        'file-rel': ('', '/sf', 'rel+root', '', r'\.txt$'),
    }

    def static_app(self, rn, variant):
        key = ('static', rn, variant)
        if key in self.apps:
            return self.apps[key]
        cherrypy = self.cherrypy
        sb = self
        script, section, spelling, index, match = self.VARIANTS[variant]
        d, root = self.dir_spelling(rn, spelling)

        def hook():
            req = cherrypy.serving.request
            tm = req.toolmaps.get('tools', {}).get('staticdir')
            if tm and tm.get('on'):
                m = tm.get('match', '')
                sb.cur['routed'] = {
                    'method': req.method, 'section': tm.get('section'), 'dir': tm.get('dir'),
                    'root': tm.get('root', ''), 'index': tm.get('index', ''),
                    'match_ok': (not m) or bool(re.search(m, req.path_info)), 'path_info': req.path_info}

        class Root:
            pass
        if variant.startswith('file'):
            sconf = {'tools.staticfile.on': True, 'tools.staticfile.filename': d + '/f.txt'}
            if root:
                sconf['tools.staticfile.root'] = root
            if match:
                sconf['tools.staticfile.match'] = match
        else:
            sconf = {'tools.staticdir.on': True, 'tools.staticdir.dir': d}
            if root:
                sconf['tools.staticdir.root'] = root
            if index:
                sconf['tools.staticdir.index'] = index
            if match:
                sconf['tools.staticdir.match'] = match
        conf = {'/': {'hooks.before_handler.c11': cherrypy._cprequest.Hook(hook, priority=0)}}
        conf.setdefault(section, {}).update(sconf)
        app = cherrypy.Application(Root(), script, conf)
        self.apps[key] = app
        return app

    def direct_app(self):
        if 'direct' in self.apps:
            return self.apps['direct']
        cherrypy, static = self.cherrypy, self.static
        sb = self

        class Root:
            @cherrypy.expose
            def direct(self, *a, **k):
                c = sb.cur['direct']
                cherrypy.request.path_info = c['path_info']
                handled = static.staticdir(section=c['section'], dir=c['dir'], root=c['root'],
                                           match=c['match'], index=c['index'])
                if not handled:
                    raise cherrypy.NotFound()
                return cherrypy.serving.response.body
        app = cherrypy.Application(Root(), '', {'/': {}})
        self.apps['direct'] = app
        return app

    def session_app(self, store, spelling):
        key = ('sess', store, spelling)
        if key in self.apps:
            return self.apps[key]
        cherrypy = self.cherrypy
        sb = self
        d, _ = self.dir_spelling(store, spelling)

        def see_cookie():
            req = cherrypy.serving.request
            if 'session_id' in req.cookie:
                sb.cur['cookie_seen'] = req.cookie['session_id'].value

        class Root:
            @cherrypy.expose
            def s(self, act='none'):
                sess = cherrypy.session
                if act == 'read':
                    return repr(sess.get('k'))
                if act == 'write':
                    sess['n'] = 1
                    return 'w'
                if act == 'delete':
                    sess.delete()
                    return 'd'
                if act == 'regenerate':
                    sess.regenerate()
                    return 'g'
                return 'n'
        conf = {'/': {'hooks.before_request_body.c11': cherrypy._cprequest.Hook(see_cookie, priority=5),
                      'tools.sessions.on': True, 'tools.sessions.storage_class': self.session_class,
                      'tools.sessions.storage_path': d, 'tools.sessions.clean_freq': 0,
                      'tools.sessions.lock_timeout': 2}}
        app = cherrypy.Application(Root(), '', conf)
        self.apps[key] = app
        return app

    # -- two-thread scenarios (harness/c11_conc.py) ----------------------------------------------
    def conc_static(self, case):
        cherrypy = self.cherrypy
        dirs = case['dirs']
        key = ('conc-static',) + tuple(dirs)
        full = [self.top if d == '.' else self.top + '/' + d for d in dirs]
        if key not in self.apps:
            class Root:
                pass
            conf = {'/': {}}
            for name, d in zip('abc', full):
                conf['/' + name] = {'tools.staticdir.on': True, 'tools.staticdir.dir': d,
                                    'tools.staticdir.index': 'index.html'}
            self.apps[key] = cherrypy.Application(Root(), '', conf)
        reqs, roots = [], []
        for i, r in enumerate(case['reqs']):
            sec = r.get('sec', 'abc'[i])
            path = '/' + sec + '/' + self.sub(r['path'])
            reqs.append({'label': 'r%d' % i, 'path': path, 'show': path.replace(self.top, '{TOP}')})
            roots.append(full['abc'.index(sec)])
        return self.apps[key], roots, reqs

    def conc_session(self, case):
        cherrypy = self.cherrypy
        key = ('conc-session',)
        stores = {'sa': 'sess', 'sb': 'sess2'}
        if key not in self.apps:
            def action(act):
                sess = cherrypy.session
                if act == 'read':
                    return repr(sess.get('k'))
                if act == 'write':
                    sess['n'] = 1
                    return 'w'
                if act == 'delete':
                    sess.delete()
                    return 'd'
                if act == 'regenerate':
                    sess.regenerate()
                    return 'g'
                return 'n'

            class Node:
                @cherrypy.expose
                def s(self, act='none'):
                    return action(act)

            class Root:
                sa = Node()
                sb = Node()
            conf = {'/': {}}
            for sec, store in stores.items():
                conf['/' + sec] = {'tools.sessions.on': True, 'tools.sessions.storage_class': self.session_class,
                                   'tools.sessions.storage_path': self.top + '/' + store,
                                   'tools.sessions.clean_freq': 0, 'tools.sessions.lock_timeout': 2}
            self.apps[key] = cherrypy.Application(Root(), '', conf)
        reqs, roots = [], []
        for i, r in enumerate(case['reqs']):
            cookie = None if r.get('id') is None else self.cookie_header(self.sub(r['id']), r.get('cstyle', 'auto'))
            reqs.append({'label': 'r%d' % i, 'path': '/%s/s' % r['sec'], 'qs': 'act=' + r['action'],
                         'cookie': cookie, 'show': '/%s/s?act=%s Cookie: %s' % (r['sec'], r['action'], cookie)})
            roots.append(self.top + '/' + stores[r['sec']])
        return self.apps[key], roots, reqs

    def call(self, app, method, script, path, qs='', cookie=None):
        if any(ord(c) > 255 for c in path):
            path = path.encode('utf-8').decode('latin-1')
        env = {'REQUEST_METHOD': method, 'SCRIPT_NAME': script, 'PATH_INFO': path, 'QUERY_STRING': qs,
               'SERVER_NAME': 'c11', 'SERVER_PORT': '80', 'SERVER_PROTOCOL': 'HTTP/1.1',
               'wsgi.version': (1, 0), 'wsgi.url_scheme': 'http', 'wsgi.input': io.BytesIO(b''),
               'wsgi.errors': io.StringIO(), 'wsgi.multithread': False, 'wsgi.multiprocess': False,
               'wsgi.run_once': False, 'REMOTE_ADDR': '127.0.0.1', 'HTTP_HOST': 'c11'}
        if cookie is not None:
            env['HTTP_COOKIE'] = cookie
        if method not in ('GET', 'HEAD'):
            env['CONTENT_LENGTH'] = '0'
        out = {}

        def start_response(status, headers, exc_info=None):
            out['status'] = status
            out['headers'] = headers
        try:
            it = app(env, start_response)
            try:
                body = b''.join(it)
            finally:
                if hasattr(it, 'close'):
                    it.close()
        except Exception as e:
            if origin(e) != 'code':
                raise
            return describe(e), b''
        if 'status' not in out:
            return 'raised:no-start_response', body
        return out['status'][:3], body

    # -- case runners ----------------------------------------------------------------------------
    def sub(self, s):
        return s.replace('{TOP}', self.top)

    def run(self, case):
        try:
            k = case['k']
            if k == 'static':
                return self.run_static(case)
            if k == 'sess_unit':
                return self.run_sess_unit(case)
            if k == 'sess_wsgi':
                return self.run_sess_wsgi(case)
            if k == 'cleanup':
                return self.run_cleanup(case)
            if k == 'alg':
                return self.run_alg(case)
            if k == 'resolve':
                return self.run_resolve(case)
            if k == 'conc':
                from . import c11_conc
                return c11_conc.run_conc(self, case)
            return {'harness_error': 'unknown case kind %r' % k}
        except common.HarnessError as e:
            return {'harness_error': str(e)}
        except Exception as e:
            if origin(e) == 'code':
                # the code under test raised somewhere the runner does not expect it (construction,
                # setup, clean-up...): an observation, never a harness error
                return self.code_raised(case, e)
            import traceback
            return {'harness_error': 'runner raised %r: %s' % (e, traceback.format_exc()[-1200:])}

    def case_root(self, case):
        if case.get('k') == 'static':
            return self.top + '/' + case['rn']
        if 'store' in case:
            return self.top + '/' + case['store']
        return None

    def code_raised(self, case, exc):
        TAP.close()
        log = list(TAP.log)
        try:
            changed = self.restore()
        except Exception:
            changed = []
        root = self.case_root(case)
        bad = self.judge(root, log, changed) if root else []
        return {'code_raised': describe(exc), 'oracle': bad, 'acc': self.canon_acc(log),
                'hist': ['%s:code-raised' % case.get('k')]}

    @staticmethod
    def canon_acc(log):
        return [[op, path] for op, path, internal, res in log if not internal]

    def run_static(self, case):
        rn = case['rn']
        root = self.top + '/' + rn
        self.cur = {}
        if case['mode'] == 'wsgi':
            script = self.VARIANTS[case['variant']][0]
            app = self.static_app(rn, case['variant'])
            with TAP:
                status, body = self.call(app, case['method'], script, self.sub(case['path']))
            log = TAP.log
        else:
            d, r = self.dir_spelling(rn, case['spelling'])
            m = case.get('match', '')
            pi = self.sub(case['path_info'])
            self.cur['direct'] = {'section': case['section'], 'dir': d, 'root': r, 'match': m,
                                  'index': case['index'], 'path_info': pi}
            self.cur['routed'] = {'method': case['method'], 'section': case['section'], 'dir': d, 'root': r,
                                  'index': case['index'], 'match_ok': (not m) or bool(re.search(m, pi)),
                                  'path_info': pi}
            app = self.direct_app()
            with TAP:
                status, body = self.call(app, case['method'], '', '/direct')
            log = TAP.log
        changed = self.restore() if any(op not in READ_OPS for op, *_ in log) else []
        obs = {'status': status, 'routed': self.cur.get('routed'), 'acc': self.canon_acc(log)}
        stats = [res for op, path, internal, res in log if op == 'stat']
        obs['k1'] = stats[0] if len(stats) > 0 else 'm'
        obs['k2'] = stats[1] if len(stats) > 1 else 'm'
        bad = self.judge(root, log, changed)
        if status == '200' and case['method'] == 'GET':
            rel = self.content.get(body)
            if rel is not None and not rel.startswith(rn + '/'):
                bad.append(('the response body is the content of %s, a file outside the root %s' % (rel, rn),
                            'outside_content_served'))
            if rel is None:
                obs.setdefault('hist', []).append('static:200-unknown-body')
        obs['oracle'] = bad
        h = obs.setdefault('hist', [])
        h.append('static:status=%s' % status)
        h.append('static:tmpl=%s' % case.get('tmpl'))
        h.append('static:mode=%s' % case['mode'])
        h.append('static:accesses=%d' % len(obs['acc']))
        if obs['routed'] is None:
            h.append('static:not-routed')
        return obs

    def cookie_header(self, value, style='auto'):
        """`Cookie:` header carrying `value` as session_id.  Styles: auto (raw when every character is a
        legal cookie octet, quoted otherwise), octal (quoted, every non-alphanumeric as \\ooo - http.cookies
        turns \\057 back into '/'), bslash (quoted, backslash-escaped characters), mixed (alternating)."""
        legal = set("abcdefghijklmnopqrstuvwxyzABCDEFGHIJKLMNOPQRSTUVWXYZ0123456789!#%&'~_`><@,:/$*+-.^|)(?}{=")
        if style == 'auto' and value and all(c in legal for c in value):
            return 'session_id=' + value
        out = []
        for i, c in enumerate(value):
            if ord(c) > 255:
                out.append(c.encode('utf-8').decode('latin-1'))
                continue
            plain_ok = c.isalnum() and ord(c) < 128
            if style == 'auto':
                if c in legal or c == ' ':
                    out.append(c)
                else:
                    out.append('\\%03o' % ord(c))
            elif plain_ok:
                out.append(c)
            elif style == 'octal' or (style == 'mixed' and i % 2 == 0) or not (32 < ord(c) < 127):
                out.append('\\%03o' % ord(c))
            else:
                out.append('\\' + c)
        return 'session_id="%s"' % ''.join(out)

    def store_root(self, case):
        return self.top + '/' + case['store']

    def run_sess_wsgi(self, case):
        root = self.store_root(case)
        self.cur = {}
        app = self.session_app(case['store'], case['spelling'])
        d, _ = self.dir_spelling(case['store'], case['spelling'])
        cookie = None if case.get('id') is None else self.cookie_header(self.sub(case['id']), case.get('cstyle', 'auto'))
        with TAP:
            status, body = self.call(app, 'GET', '', '/s', 'act=' + case['action'], cookie)
        log = TAP.log
        changed = self.restore()
        obs = {'status': status, 'acc': self.canon_acc(log), 'refused': status == '400',
               'cookie_seen': self.cur.get('cookie_seen'), 'gens': self.cur.get('gens', []),
               'cwd': self.cwd, 'storage': d, 'cookie': cookie}
        gens = self.cur.get('gens', [])
        stats = [res for op, path, internal, res in log
                 if op == 'stat' and not internal and not any(g in path for g in gens)]
        obs['present'] = bool(stats) and stats[0] != 'm' and self.cur.get('cookie_seen') is not None
        obs['oracle'] = [(w + ' [Cookie: %s]' % cookie, sig) for w, sig in self.judge(root, log, changed)]
        h = obs.setdefault('hist', [])
        h += ['sess_wsgi:status=%s' % status, 'sess_wsgi:tmpl=%s' % case.get('tmpl'),
              'sess_wsgi:action=%s' % case['action'], 'sess_wsgi:present=%s' % obs['present']]
        if status == '500':
            # the flow model stops where the exception stopped the code: compare the prefix only
            obs['status500'] = True
        return obs

    def run_sess_unit(self, case):
        cherrypy = self.cherrypy
        root = self.store_root(case)
        self.cur = {}
        d, _ = self.dir_spelling(case['store'], case['spelling'])
        sess = self.session_class(id=None, storage_path=d, timeout=60, clean_freq=0, lock_timeout=2)
        sess._id = self.sub(case['id'])
        op = case['op']
        outcome = 'ok'
        with TAP:
            try:
                if op == 'exists':
                    sess._exists()
                elif op == 'load':
                    sess.locked = True
                    sess._load()
                elif op == 'save':
                    sess.locked = True
                    sess._save(datetime.datetime(2999, 1, 1))
                elif op == 'delete':
                    sess.locked = True
                    sess._delete()
                elif op == 'lock':
                    try:
                        sess.acquire_lock()
                    finally:
                        lk = getattr(sess, 'lock', None)
                        if lk is not None:
                            try:
                                lk.release()
                            except Exception:
                                pass
                else:
                    raise common.HarnessError('bad op %r' % op)
            except cherrypy.HTTPError as e:
                outcome = str(e.status)
            except common.HarnessError:
                raise
            except Exception as e:
                outcome = 'exc:' + type(e).__name__
        log = TAP.log
        changed = self.restore()
        obs = {'acc': self.canon_acc(log), 'refused': outcome == '400', 'outcome': outcome,
               'cwd': self.cwd, 'storage': d}
        obs['hist'] = ['sess_unit:op=%s' % op, 'sess_unit:outcome=%s' % outcome,
                       'sess_unit:tmpl=%s' % case.get('tmpl')]
        # The statement quantifies over cookie values.  A client-supplied id gets past Session.__init__ only
        # if `_exists()` found its file, so load/save/delete/lock never see an id whose file name does not
        # even resolve (a missing or non-directory component in the middle).  For such ids only the path the
        # code itself chose is judged; what filelock does with an unresolvable name (its `mkdir -p` of the
        # lexical parents) is outside the statement's domain - recorded in docs/C11.md as an observation.
        fname = os.path.join(os.path.abspath(d), 'session-' + sess._id)
        if op != 'exists' and self.walk(fname)[0] in ('fail', 'nul'):
            obs['hist'].append('sess_unit:id-unreachable-from-a-cookie')
            log = [e for e in log if not e[2]]
            changed = []
        obs['oracle'] = self.judge(root, log, changed)
        return obs

    def run_cleanup(self, case):
        root = self.store_root(case)
        d, _ = self.dir_spelling(case['store'], case['spelling'])
        extra = {}
        states = {}
        for name, st in case['files']:
            rel = case['store'] + '/' + name
            if st == 'dir':
                extra[rel] = None
                states[name] = 'u'
            else:
                extra[rel] = {'u': b'garbage', 'z': b'', 'f': _pickle(), 'e': _pickle(past=True)}[st]
                states[name] = {'z': 'u'}.get(st, st)
        self.restore(extra)
        sess = self.session_class(id=None, storage_path=d, timeout=60, clean_freq=0, lock_timeout=2)
        listing = []
        for name in _real['listdir'](root):
            if name in states:
                listing.append([name, states[name]])
            else:
                p = root + '/' + name
                listing.append([name, 'u' if os.path.isdir(p) else 'f'])
        outcome = 'ok'
        with TAP:
            try:
                sess.clean_up()
            except Exception as e:      # the code under test may raise: an outcome, not a harness error
                outcome = 'exc:' + type(e).__name__
                lk = getattr(sess, 'lock', None)
                if lk is not None:
                    try:
                        lk.release()
                    except Exception:
                        pass
        log = TAP.log
        changed = self.restore()
        # files clean_up removed/created inside the root are expected; only outside changes count
        obs = {'acc': self.canon_acc(log), 'listing': listing, 'cwd': self.cwd, 'storage': d}
        obs['oracle'] = self.judge(root, log, changed)
        obs['hist'] = ['cleanup:files=%d' % len(listing), 'cleanup:outcome=%s' % outcome]
        return obs

    def run_alg(self, case):
        import posixpath
        import urllib.parse
        op, args = case['op'], case['args']
        if op == 'norm':
            v = os.path.normpath(args[0])
        elif op == 'join':
            v = os.path.join(args[0], args[1])
        elif op == 'abs':
            args = [self.cwd, args[1]]
            case = dict(case, args=args)
            v = os.path.abspath(args[1])
        elif op == 'unq':
            v = urllib.parse.unquote(args[0])
        elif op == 'comps':
            v = [c for c in args[0].split('/') if c]
        else:
            raise common.HarnessError('bad alg op %r' % op)
        if os.path is not posixpath:
            raise common.HarnessError('os.path is not posixpath')
        return {'value': v, 'hist': ['alg:%s' % op], 'args': args}

    def run_resolve(self, case):
        import stat as _st
        path = self.sub(case['path'])
        dirs, files = [], []
        anc = self.top
        while anc != '/':
            dirs.append(anc)
            anc = os.path.dirname(anc)
        for rel, c in self.spec.items():
            (dirs if c is None else files).append(self.top + '/' + rel)
        loc = self.walk(path)[1]
        try:
            st = _real['stat'](path)
            kind = 'dir' if _st.S_ISDIR(st.st_mode) else 'file'
            real = os.path.realpath(path)
            if real != loc:
                return {'harness_error': 'where(%r) = %r but realpath = %r' % (path, loc, real)}
        except (OSError, ValueError):
            kind = 'enoent'
        if not (loc == self.top or loc.startswith(self.top + '/') or self.top.startswith(loc.rstrip('/') + '/')):
            return {'skip': True, 'hist': ['resolve:left-the-sandbox'], 'dirs': [], 'files': [], 'path': '/',
                    'result': ['dir', '/']}
        return {'dirs': dirs, 'files': files, 'path': path, 'result': [kind, loc],
                'hist': ['resolve:%s' % kind]}
