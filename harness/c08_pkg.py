"""C08 - dotted-name config values over a generated package layout.

A layout is a small package written to a temp dir: every name of it is one of
    attr        `name = <value>` in __init__ (an attribute only)
    submodule   a file name.py nobody imports (importable only)
    imported    a file name.py and `from . import name` in __init__ (attribute = the module)
    shadow_obj  a file name.py defining `name`, and `from .name import name` in __init__ (the attribute is the object
                and shadows the same-named submodule, which IS imported)
    shadow_val  a file name.py nobody imports and `name = <value>` in __init__ (the attribute shadows a same-named,
                not yet imported submodule)
plus a nested package `sub` of the same make.  Every dotted name over it (bare, inside a list, as a call argument,
one attribute deeper) must evaluate to what plain Python evaluates it to once the top-level package is imported
(the equivalent dict config); where Python raises nothing is demanded.  Python is asked FIRST (an evaluation that
imports submodules on the side changes what the package's attributes are afterwards)."""
import importlib
import json
import os
import shutil
import sys
import tempfile
import warnings

KINDS = ['attr', 'submodule', 'imported', 'shadow_obj', 'shadow_val']
NAMES = ['x', 'main', 'util', 'conf', 'y']
_COUNTER = [0]


def gen_layout(rng, depth=0):
    names = rng.sample(NAMES, rng.choice([2, 3, 4]))
    lay = {'names': [[n, rng.choice(KINDS)] for n in names], 'sub': None}
    if depth == 0 and rng.random() < 0.6:
        lay['sub'] = gen_layout(rng, 1)
        lay['sub_imported'] = rng.random() < 0.6
    return lay


def gen_pkg_case(rng):
    lay = gen_layout(rng)
    texts = []
    paths = ['PKG.' + n for n, k in lay['names']] + ['PKG.nosuch']
    if lay['sub'] is not None:
        paths += ['PKG.sub'] + ['PKG.sub.' + n for n, k in lay['sub']['names']]
    for p in paths:
        r = rng.random()
        texts.append(p)
        if r < 0.25:
            texts.append('[%s, 1]' % p)
        elif r < 0.45:
            texts.append('dict(a=%s)' % p)
        elif r < 0.7:
            texts.append(p + '.v')
    return {'pkg': {'layout': lay, 'texts': texts}}


def write_pkg(base, name, lay):
    d = os.path.join(base, name)
    os.makedirs(d)
    init = []
    for n, kind in lay['names']:
        if kind == 'attr':
            init.append('%s = ("attr", %r)' % (n, n))
        else:
            with open(os.path.join(d, n + '.py'), 'w') as f:
                f.write('v = ("module-v", %r)\n%s = ("object", %r)\n' % (n, n, n))
            if kind == 'imported':
                init.append('from . import %s' % n)
            elif kind == 'shadow_obj':
                init.append('from .%s import %s' % (n, n))
            elif kind == 'shadow_val':
                init.append('%s = ("value", %r)' % (n, n))
    if lay.get('sub') is not None:
        write_pkg(d, 'sub', lay['sub'])
        if lay.get('sub_imported'):
            init.append('from . import sub')
    with open(os.path.join(d, '__init__.py'), 'w') as f:
        f.write('\n'.join(init) + '\n')


def run_pkg_case(case):
    """[(text with the real package name, python outcome, unrepr outcome)]"""
    from cherrypy.lib import reprconf
    spec = case['pkg']
    _COUNTER[0] += 1
    pkg = 'c08pkg_%d_%d' % (os.getpid(), _COUNTER[0])
    base = tempfile.mkdtemp(prefix='c08pkg')
    sys.path.insert(0, base)
    importlib.invalidate_caches()
    out = []
    try:
        write_pkg(base, pkg, spec['layout'])
        importlib.invalidate_caches()
        top = importlib.import_module(pkg)
        texts = [t.replace('PKG', pkg) for t in spec['texts']]
        wants = []
        with warnings.catch_warnings():
            warnings.simplefilter('ignore')
            for t in texts:
                try:
                    wants.append(('ok', eval(t, {pkg: top})))
                except Exception as e:
                    wants.append(('err', type(e).__name__))
            for t, w in zip(texts, wants):
                try:
                    got = ('ok', reprconf.unrepr(t))
                except Exception as e:
                    got = ('err', type(e).__name__)
                out.append((t, w, got))
    finally:
        try:
            sys.path.remove(base)
        except ValueError:
            pass
        for m in [m for m in sys.modules if m == pkg or m.startswith(pkg + '.')]:
            del sys.modules[m]
        shutil.rmtree(base, ignore_errors=True)
        importlib.invalidate_caches()
    return out


def same(a, b):
    if a is b:
        return True
    if type(a) is not type(b):
        return False
    if isinstance(a, (list, tuple)):
        return len(a) == len(b) and all(same(x, y) for x, y in zip(a, b))
    if isinstance(a, dict):
        return list(a) == list(b) and all(same(a[k], b[k]) for k in a)
    return a == b


def check_pkg_cases(ctx, cases):
    for case in cases:
        lay = case['pkg']['layout']
        ctx.case(case, nontrivial=True, key='pkg:' + json.dumps(case['pkg'], sort_keys=True))
        for n, k in lay['names'] + ((lay['sub'] or {}).get('names') or []):
            ctx.count('pkg:name:' + k)
        for text, want, got in run_pkg_case(case):
            if want[0] != 'ok':
                ctx.count('pkg:python_rejects')
                continue
            ctx.count('pkg:compared')
            if got[0] != 'ok':
                ctx.oracle_fail(case, 'the dotted-name value %r raises %s; with the package imported Python evaluates it to %r'
                                % (text, got[1], want[1]), 'dotted_name_package')
            elif not same(got[1], want[1]):
                ctx.oracle_fail(case, 'the dotted-name value %r evaluates to %r; with the package imported Python evaluates it to %r '
                                '(layout %s)' % (text, got[1], want[1], json.dumps(lay)), 'dotted_name_package')
