"""C11 - static serving and file sessions never touch files outside their root.

Model: lean/CpModel/PathContain.lean, theorems: lean/CpProofs/C11*.lean, driver: lean/Drv/C11.lean.
Real code: in-process WSGI requests (and direct calls of `static.staticdir` / the five
`FileSession` methods / `clean_up`) inside a throw-away sandbox tree holding the root, sibling
directories whose names extend the root's name, and canary files; every path handed to
stat/open/unlink/listdir/mkdir/... is recorded (`sys.addaudithook` + wrappers of the `os`
functions that raise no audit event).  See harness/c11_fs.py for the sandbox and the tap.
"""
import json
import os

from . import common
from . import c11_cov as cov
from . import c11_fs as fs
from . import c11_gen as gen

PROPERTY = 'C11'
LEAN_TARGETS = ['CpProofs.C11', 'CpProofs.C11Links', 'CpProofs.C11Ext', 'drv_c11']
DRIVER = 'drv_c11'
THEOREMS = [
    # posixpath algebra
    'CpProofs.C11.splitSlash_append_sep',
    'CpProofs.C11.components_append_sep',
    'CpProofs.C11.normpath_idem',
    'CpProofs.C11.normpath_isAbs',
    'CpProofs.C11.normpath_abs_components_plain',
    'CpProofs.C11.normpath_rel_dotdot_only_leading',
    'CpProofs.C11.normpath_abs_components',
    'CpProofs.C11.containedCheck_components',
    # static.staticdir
    'CpProofs.C11.C11_static_contained',
    'CpProofs.C11.C11_refused_untouched',
    'CpProofs.C11.static_forbidden_iff',
    'CpProofs.C11.index_dotdot_escapes',
    'CpProofs.C11.strPrefix_static_counterexample',
    # sessions.FileSession
    'CpProofs.C11.sessionCheck_components',
    'CpProofs.C11.lock_prefix',
    'CpProofs.C11.C11_session_contained',
    'CpProofs.C11.C11_session_refused_untouched',
    'CpProofs.C11.strPrefix_session_counterexample',
    'CpProofs.C11.C11_cleanup_contained',
    'CpProofs.C11.C11_session_request_contained',
    # lexical containment = physical containment in a symlink-free tree
    'CpProofs.C11.resolve_lexical',
    'CpProofs.C11.resolve_create',
    'CpProofs.C11.C11_physical_contained',
    # trees WITH symbolic links (CpModel/PathLinks.lean)
    'CpProofs.C11.walkSeg_done_lexical',
    'CpProofs.C11.walkSeg_link_location',
    'CpProofs.C11.walkSeg_linkFree',
    'CpProofs.C11.C11_links_prefix_free',
    'CpProofs.C11.C11_links_linkFree',
    'CpProofs.C11.C11_links_weak_partial',
    'CpProofs.C11.C11_links_weak_normalised',
    'CpProofs.C11.under_staticTarget',
    'CpProofs.C11.components_normpath_snoc_slash',
    'CpProofs.C11.C11_links_weak',
    'CpProofs.C11.C11_links_session_contained',
    'CpProofs.C11.C11_links_weak_session',
    'CpProofs.C11.C11_links_strong_false',
    'CpProofs.C11.C11_links_weak_false',
    'CpProofs.C11.C11_links_weak_session_false',
    # the concrete percent-decoder; characters that do not separate; staticfile; __len__
    'CpProofs.C11.C11_static_contained_unquote',
    'CpProofs.C11.C11_refused_untouched_unquote',
    'CpProofs.C11.unquote_cons_ascii',
    'CpProofs.C11.unquote_cons_pct',
    'CpProofs.C11.unquote_cons_pct_invalid',
    'CpProofs.C11.unquote_pct25',
    'CpProofs.C11.unquote_not_idempotent',
    'CpProofs.C11.traversal_spellings_refused',
    'CpProofs.C11.non_traversal_spellings_plain',
    'CpProofs.C11.one_component_below',
    'CpProofs.C11.backslash_is_plain',
    'CpProofs.C11.static_nul_never_served',
    'CpProofs.C11.C11_staticfile_only_configured',
    'CpProofs.C11.staticfile_refused_untouched',
    'CpProofs.C11.staticfile_rel_under_root',
    'CpProofs.C11.C11_len_contained',
    'CpProofs.C11.session_id_noslash_one_below',
    # a78b01e: only the canonical spelling of an id is looked at / adopted
    'CpProofs.C11.exists_stat_only_canonical',
    'CpProofs.C11.exists_alias_untouched',
    'CpProofs.C11.session_alias_not_adopted',
]
LEVEL = 'proof'
TECHNIQUE = ('Lean 4 proof over a transcription of posixpath.normpath/join/abspath, urllib.parse.unquote, staticdir / '
             'staticfile, FileSession._get_file_path and the kernel\'s path walk with and without symbolic links '
             '(induction over the component list); tied to the code by a differential run that records every '
             'file-system access of the real code in a sandbox')
LEVEL_TEXT = ('Proved in Lean for every configured dir/root, section, request path, percent-decoder (and for the concrete '
              'transcription of urllib.parse.unquote), stat answer, cwd, storage path, cookie value and generated id (no '
              'size bound; induction over str.split("/") and the normpath stack): every path staticdir hands to stat/open '
              '(file name and index fallback), the one path staticfile uses, and every path the five FileSession methods, '
              '__len__, clean_up and the whole per-request session flow test, read, write, lock, list or unlink normalises '
              'to an absolute path of plain components that starts with ALL components of the root; a refused request '
              '(403 / 400 / ValueError / pass-through) has an empty access list; only "/" separates (backslash, drive '
              'letters, ";", NUL, "%" are ordinary characters: such a name is exactly one component below the root); a '
              'decoded branch containing NUL is never served; the decoder is single-pass (%252e is %2e, not "."). '
              'Kernel side: the path walk is modelled with symbolic links (finite map, fuel = 40 link expansions); if the '
              'walk of such a path meets no link, or the string handed over has no ".." component and no link sits at / '
              'above / below the root, the object reached is at or below the root (C11_links_prefix_free, '
              'C11_links_weak_partial). Since the F32 / F32b repair staticdir and _get_file_path hand the NORMALISED name '
              'they tested to the OS, so the weak reading (no link at / above / below the root => every object reached '
              'is inside, whatever links exist elsewhere) is proved at full strength for every request and session id: '
              'C11_links_weak, C11_links_weak_session. The refutations C11_links_weak_false / '
              'C11_links_weak_session_false are kept for the pre-repair definitions (staticdirPreF32, sessOpPreF32) with '
              'their witnesses, which are replayed on the real code as regressions. '
              'The pre-repair string-prefix tests are kept as definitions with proved counterexamples (F10, F11). Partial: '
              'the index name is assumed plain (trusted configuration; necessity proved); cookie parsing, the regular '
              'expression engine, filelock and the kernel are validated by the differential run only.')
LEVEL_NOTE = ('Trusted: Lean kernel (axioms propext, Classical.choice, Quot.sound only); the hand models '
              'lean/CpModel/PathContain.lean + PathLinks.lean as validated on every run against the real staticdir / '
              'staticfile / FileSession inside a sandbox where every stat/lstat/open/unlink/listdir/mkdir/rename/... is '
              'recorded (a self-test probes 61 os / os.path / io / pathlib / glob / shutil / codecs entry points before each '
              'run), against os.path / urllib.parse.unquote on random strings and against os.stat / os.lstat / realpath on '
              'trees with and without symbolic links; POSIX only; expanduser, Windows branches and conditional requests not '
              'modelled.')
TRUSTED_BASE = [
    'the kernel resolves a path the way `walk` / `resolve` do (components, "..", symbolic links with 40 expansions): '
    'compared with os.stat / os.lstat / os.path.realpath on the sandbox trees on every run, not proved about Linux',
    'the cookie parser and the regular-expression engine are parameters: theorems hold for every cookie value / match '
    'verdict; urllib.parse.unquote is transcribed and compared with the library on every run',
    'filelock.FileLock touches only the lock file it is given and that file\'s directory (observed, not modelled)',
]
ASSUMPTIONS = [
    'POSIX paths, configured dir does not start with "~" (expanduser not modelled)',
    'the configured index name is a plain relative name (no "..", not absolute): configuration is trusted',
    'no conditional request headers (validate_since can end serve_file between stat and open)',
    'links the operator puts inside the root (or on the way to it) are the operator\'s content (weak reading); a '
    'request must not reach an outside object in any other way, also when links exist outside the root (F32 / F32b '
    'repaired)',
]
RULE = ('URL paths / cookie values / session ids from a traversal grammar (.., %2e%2e, ..%2f, %252e and other decode-order '
        'variants, //, leading /, backslash and drive letters, ";" parameters, NUL, over-long UTF-8, paths beyond PATH_MAX, '
        'names extending the root name, sibling dirs root-evil / rootx, session-* sub-directories, every byte value and '
        'some non-latin-1 code points inside an id) x root names x mount sections (regex characters, trailing slashes) x '
        'dir / root / storage spellings (absolute, relative, trailing slashes, "..") x index / match / content_types / debug '
        'options x staticdir / staticfile, through in-process WSGI and through direct calls; the same on a sandbox flavour '
        'with symbolic links inside and outside the roots; plus random strings for the path algebra and random walks for '
        'the kernel model.  Non-trivial = the request reached staticdir / the session code with a path that is not a plain '
        'existing name; distinct = distinct case JSON')


def _lean_chars(s):
    return '[' + ', '.join(("'%s'" % c) if (c.isascii() and (c.isalnum() or c in '-._ ')) else 'Char.ofNat %d' % ord(c)
                           for c in s) + ']'


def tables(ctx):
    """Constants of the live FileSession class the model and the proofs depend on."""
    try:
        from cherrypy.lib import sessions
        pre, suf = sessions.FileSession.SESSION_PREFIX, sessions.FileSession.LOCK_SUFFIX
        if not (isinstance(pre, str) and isinstance(suf, str)):
            raise TypeError('SESSION_PREFIX / LOCK_SUFFIX are not strings')
    except Exception as e:      # the code under test is broken: keep the last table, the run will show it
        ctx.note('tables: cherrypy.lib.sessions unusable (%r); table not regenerated' % (e,))
        return {}
    src = ('/- GENERATED by harness/c11.py from cherrypy.lib.sessions.FileSession - do not edit. -/\n'
           'namespace CpModel.PathContain\n\n'
           '/-- `FileSession.SESSION_PREFIX` = %r -/\n'
           'def sessionPrefix : List Char := %s\n\n'
           '/-- `FileSession.LOCK_SUFFIX` = %r -/\n'
           'def lockSuffix : List Char := %s\n\n'
           'end CpModel.PathContain\n' % (pre, _lean_chars(pre), suf, _lean_chars(suf)))
    return {'CpModel/Gen/C11Tables.lean': src}


# ----------------------------------------------------------------------------------------------
# text protocol
# ----------------------------------------------------------------------------------------------
def T(s):
    return '-' if s == '' else '.'.join(str(ord(c)) for c in s)


def U(t):
    return '' if t == '-' else ''.join(chr(int(x)) for x in t.split('.'))


def parse_acc(field):
    assert field.startswith('A='), field
    if field == 'A=-':
        return []
    out = []
    for item in field[2:].split(','):
        op, t = item.split(':', 1)
        out.append([op, U(t)])
    return out


# ----------------------------------------------------------------------------------------------
# running cases
# ----------------------------------------------------------------------------------------------
def model_line(case, obs):
    """The driver line for one observed case (None when the case has no model side)."""
    k = case['k']
    if k == 'alg':
        return ' '.join([case['op']] + [T(a) for a in obs.get('args', case['args'])])
    if k == 'lres':
        if obs.get('skip'):
            return None
        ns = ','.join('%s:%s' % (T(loc), kd) + ((':' + T(tgt)) if kd == 'l' else '') for loc, kd, tgt in obs['nodes'])
        return 'lresolve %s %d %s' % (ns or '-', 1 if obs['follow'] else 0, T(obs['path']))
    if k == 'static':
        if obs.get('routed') is None:
            rf = obs.get('routed_file')
            if rf is None:
                return None
            return 'sfile %s %d %s %s %s' % (T(rf['method']), 1 if rf['match_ok'] else 0, T(rf['filename']),
                                             T(rf['root']), obs['k1'])
        r = obs['routed']
        if not isinstance(r['index'], str):
            return None         # a list / tuple as index: os.path.join raises TypeError (500); oracle only
        return 'static %s %d %s %s %s %s %s %s %s' % (
            T(r['method']), 1 if r['match_ok'] else 0, T(r['section']), T(r['dir']), T(r['root']),
            T(r['index']), T(r['path_info']), obs['k1'], obs['k2'])
    if k == 'sess_unit':
        if case['op'] in ('lock-busy', 'bad-timeout'):
            return None         # configuration corners: judged by the oracle only
        if case['op'] == 'len':
            return 'len %s %s' % (T(obs['cwd']), T(obs['storage']))
        op = 'lock' if case['op'] == 'release' else case['op']
        return 'sess %s %s %s %s' % (op, T(obs['cwd']), T(obs['storage']), T(case['id']))
    if k == 'sess_wsgi':
        if obs.get('cookie_seen') is None and case.get('cookie') is not None:
            return None     # the cookie header did not parse: session code never saw a value
        ck = 'N' if obs.get('cookie_seen') is None else T(obs['cookie_seen'])
        g = (([''] if obs['present'] else []) + obs['gens'] + ['', ''])   # a present session needs no fresh id at init
        return 'flow %s %s %s %d %s %s %s' % (T(obs['cwd']), T(obs['storage']), ck,
                                               1 if obs['present'] else 0, T(g[0]), T(g[1]), case['action'])
    if k == 'cleanup':
        parts = ['cleanup', T(obs['cwd']), T(obs['storage'])]
        for name, st in obs['listing']:
            parts += [T(name), st]
        return ' '.join(parts)
    if k == 'conc':
        return None
    if k == 'resolve':
        return 'resolve %s %s %s' % (','.join(T(d) for d in obs['dirs']) or '-',
                                     ','.join(T(f) for f in obs['files']) or '-', T(obs['path']))
    raise common.HarnessError('unknown case kind %r' % k)


def no_nul(acc):
    """A path with an embedded NUL never reaches a syscall (ValueError first; whether the attempt is
    visible to the tap depends on the primitive): dropped on both sides."""
    return [a for a in acc if '\x00' not in a[1]]


def compare(case, obs, line):
    """Return (impl_canon, model_canon) for one case."""
    k = case['k']
    if k == 'alg':
        if case['op'] == 'comps':
            m = [] if line == 'C=-' else [U(x) for x in line[2:].split(',')]
        else:
            m = U(line)
        return obs['value'], m
    if k == 'static':
        o, a = line.split(' ')
        mo = o[2:]
        mo = {'pass': '404', 'nothandled': '404', 'valueerror': '500', 'served': '200'}.get(mo, mo)
        st = obs['status']
        if st in ('301', '302', '303', '307'):
            st = '200'      # trailing_slash redirect after an index file was found: the tool had handled it
        return {'status': st, 'acc': no_nul(obs['acc'])}, {'status': mo, 'acc': no_nul(parse_acc(a))}
    if k == 'lres':
        if line == 'eloop':
            return obs['result'], ['eloop', '']
        kind, t = line.split(':', 1)
        return obs['result'], [kind, U(t)]
    if k in ('sess_unit', 'sess_wsgi'):
        if line == '400':
            return {'refused': obs['refused'], 'acc': no_nul(obs['acc'])}, {'refused': True, 'acc': []}
        return ({'refused': obs['refused'], 'acc': no_nul(obs['acc'])},
                {'refused': False, 'acc': no_nul(parse_acc(line))})
    if k == 'cleanup':
        return no_nul(obs['acc']), no_nul(parse_acc(line))
    if k == 'resolve':
        kind, t = line.split(':', 1)
        return obs['result'], [kind, U(t)]
    raise common.HarnessError('unknown case kind %r' % k)


COV_HITS = set()
HANGS = []


def _trivial(case, obs):
    k = case['k']
    if k == 'static':
        return obs.get('routed') is None or case.get('tmpl') == 'benign'
    if k in ('sess_unit', 'sess_wsgi'):
        return case.get('tmpl') == 'benign'
    return False


def run_chunk(args):
    """Worker: build a sandbox, run the cases on the real code, return plain records."""
    cases, = args
    out = []
    box = fs.Sandboxes()
    try:
        sb = box.__enter__()
    except Exception as e:
        if fs.origin(e) != 'code' and not isinstance(e, (ImportError, SyntaxError)):
            raise
        # the code under test does not even import / configure: every case observes that
        return [(case, {'code_raised': 'setup ' + fs.describe(e), 'oracle': [], 'hist': ['setup:code-raised']})
                for case in cases]
    mon = cov.start()       # which anchored lines run (sys.monitoring, one event per line and process)
    try:
        for case in cases:
            obs = sb.run(case)
            out.append((case, obs))
    finally:
        hits = mon.hits() if mon is not None else []
        cov.stop()
        box.__exit__(None, None, None)
    if out:
        out[0][1]['cov_hits'] = hits
    return out


def check_cases(ctx, cases, compare_model=True, procs=1, one_per_task=False):
    if not cases:
        return
    if one_per_task and procs > 1:
        results = [r for part in common.parallel_map(run_chunk, [([c],) for c in cases], procs) for r in part]
    elif procs > 1 and len(cases) > 200:
        n = procs * 2
        chunks = [cases[i::n] for i in range(n)]
        results = [r for part in common.parallel_map(run_chunk, [(c,) for c in chunks], procs) for r in part]
    else:
        results = run_chunk((cases,))
    lines, idx = [], []
    for i, (case, obs) in enumerate(results):
        if 'cov_hits' in obs:
            COV_HITS.update(tuple(h) for h in obs.pop('cov_hits'))
        ctx.case(case, nontrivial=not _trivial(case, obs), key=json.dumps(case, sort_keys=True))
        for h in obs.get('hist', []):
            ctx.count(h)
        if obs.get('harness_error'):
            raise common.HarnessError('%s on case %s' % (obs['harness_error'], json.dumps(case)[:400]))
        if obs.get('skipped'):
            continue
        for item in obs.get('oracle', []):
            what, sig = item[0], item[1]
            ctx.oracle_fail(item[2] if len(item) > 2 else case, what, sig)
        for key, n in obs.get('counts', {}).items():
            ctx.count(key, n)
        if obs.get('code_raised'):
            # an exception of the code under test where the unchanged tree raises none
            if obs['code_raised'].startswith('hang'):
                HANGS.append(case)
            ctx.compared()
            ctx.disagree(case, obs['code_raised'], 'no exception (unchanged tree: the runner completes)',
                         'C11 %s: the code under test raised out of the runner' % case['k'])
            continue
        if compare_model:
            try:
                l = model_line(case, obs)
                if l is not None and ('\n' in l or '\r' in l):
                    raise ValueError('line break in an observed value')
            except common.HarnessError:
                raise
            except Exception as e:
                # an observed value of a type / shape the unchanged tree never produces (a non-string where a
                # string is due...): that is a difference between the code and the model, not a harness error
                ctx.compared()
                ctx.disagree(case, 'unrepresentable observation (%r): %s' % (e, str(obs)[:300]),
                             'a driver line', 'C11 %s: the observation cannot be put to the model' % case['k'])
                continue
            if l is not None:
                lines.append(l)
                idx.append(i)
    if not compare_model:
        return
    out = ctx.model(lines)
    if out is None:
        return
    for i, line in zip(idx, out):
        case, obs = results[i]
        ctx.compared()
        try:
            impl, model = compare(case, obs, line)
        except common.HarnessError:
            raise
        except Exception as e:
            impl, model = 'observation not comparable (%r): %s' % (e, str(obs)[:300]), line
        if impl != model:
            if os.environ.get('C11_DEBUG'):
                print('DISAGREE', json.dumps(case), '\n   impl ', impl, '\n   model', model)
            ctx.disagree(case, impl, model, 'C11 %s: implementation and model differ' % case['k'])


def corpus_cases():
    d = os.path.join(common.CORPUS, PROPERTY)
    out = []
    if os.path.isdir(d):
        for f in sorted(os.listdir(d)):
            if f.endswith('.json'):
                c = json.load(open(os.path.join(d, f)))
                out += c if isinstance(c, list) else [c]
    return out


def tap_selftest(ctx):
    """The audit must see every way of touching a file (a mutated code path may use any of them)."""
    n, blind = fs.tap_selftest()
    ctx.extra['tap_selftest'] = {'apis_probed': n, 'blind': blind}
    if blind:
        raise common.HarnessError('the file-system tap does not see: %s' % ', '.join(blind))


def run(ctx):
    import time
    COV_HITS.clear()
    t0 = time.time()
    phase = ctx.extra.setdefault('phase_s', {'lean_prepare': round(t0 - ctx.t0, 1)})

    def mark(name):
        phase[name] = round(time.time() - t0 - sum(v for k, v in phase.items() if k != 'lean_prepare'), 1)
    tap_selftest(ctx)
    if not os.environ.get('C11_NO_CORPUS'):      # self-test switch: judge the generators alone
        check_cases(ctx, corpus_cases())            # incl. the witnesses of F10, F11, F32, F32b as regressions
    procs = min(4, os.cpu_count() or 1) if ctx.quick() else 16
    rng = ctx.rng
    cases = []
    cases += [gen.static_case(rng) for _ in range(ctx.budget(2600, 120000))]
    cases += [gen.sess_unit_case(rng) for _ in range(ctx.budget(1500, 60000))]
    cases += [gen.sess_wsgi_case(rng) for _ in range(ctx.budget(900, 40000))]
    cases += [gen.cleanup_case(rng) for _ in range(ctx.budget(80, 2000))]
    cases += [gen.alg_case(rng) for _ in range(ctx.budget(6000, 200000))]
    cases += [gen.resolve_case(rng) for _ in range(ctx.budget(600, 20000))]
    conc = gen.conc_cases(rng, ctx.quick())
    small = gen.enum_small(ctx.budget(3, 4))
    small += gen.byte_class_sweep((4, rng.randrange(4)) if ctx.quick() else (1, 0))
    cases += small
    cases += gen.sess_config_cases()
    ctx.extra['exhaustive_small_scope'] = len(small)
    # the sandbox flavour with symbolic links (kept together: switching the flavour rebuilds part of the tree)
    links = [gen.links_static_case(rng) for _ in range(ctx.budget(260, 12000))]
    links += [gen.links_sess_case(rng) for _ in range(ctx.budget(200, 8000))]
    links += [gen.lres_case(rng) for _ in range(ctx.budget(400, 12000))]
    mark('selftest+corpus+generate')
    if ctx.quick():
        check_cases(ctx, cases + links, procs=procs)
    else:
        check_cases(ctx, cases, procs=procs)
        check_cases(ctx, links, procs=procs)
    mark('cases')
    # two-thread schedules: each sweep is its own task (a sweep is 50-3000 scheduled runs)
    check_cases(ctx, conc, procs=min(8 if ctx.quick() else 16, os.cpu_count() or 2), one_per_task=True)
    mark('schedules')
    report_coverage(ctx)


def report_coverage(ctx):
    try:
        c = cov.Coverage()
        c.add_hits(COV_HITS)
        c.report(ctx)
    except Exception as e:       # the anchored modules do not import: the run has said so already
        ctx.note('coverage report not possible: %r' % (e,))


def search(ctx, around=None):
    """Deeper oracle-only hunt (called when the proof or the correspondence broke)."""
    if HANGS:
        ctx.note('search skipped: the code under test hangs (first on %s)' % json.dumps(HANGS[0])[:300])
        return
    rng = ctx.rng
    cases = []
    if around is not None and around.get('k') in ('static', 'sess_unit', 'sess_wsgi'):
        cases += gen.neighbours(rng, around, 3000)
    cases += [gen.static_case(rng) for _ in range(20000)]
    cases += [gen.sess_unit_case(rng) for _ in range(10000)]
    cases += [gen.sess_wsgi_case(rng) for _ in range(6000)]
    cases += gen.enum_small(4)
    cases += gen.byte_class_sweep((1, 0))
    check_cases(ctx, cases, compare_model=False, procs=16)
    links = [gen.links_static_case(rng) for _ in range(3000)] + [gen.links_sess_case(rng) for _ in range(2000)]
    check_cases(ctx, links, compare_model=False, procs=16)
    check_cases(ctx, gen.conc_cases(rng, ctx.quick()), compare_model=False, procs=16, one_per_task=True)


def replay(ctx, case):
    results = run_chunk(([case],))
    case, obs = results[0]
    show = {k: v for k, v in obs.items() if k not in ('hist',)}
    print('case  :', json.dumps(case, sort_keys=True))
    print('impl  :', json.dumps(show, sort_keys=True, default=repr)[:3000])
    l = model_line(case, obs)
    if l is not None:
        m = ctx.model([l])
        if m:
            print('model :', json.dumps(compare(case, obs, m[0])[1], sort_keys=True))
    check_cases(ctx, [case])
