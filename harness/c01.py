"""C01 - every request yields exactly one well-formed response; errors are contained.

Model: lean/CpModel/{Hooks,Pipeline,Wsgi}.lean (shared with C09) + lean/CpModel/{WsgiBoundary,RedirQ}.lean (body
iterators that misbehave at the WSGI boundary, InternalRedirector with query strings), theorems:
lean/CpProofs/{C01,C01Boundary,C01Redirect}.lean, driver: lean/Drv/C01.lean.  Real code: harness/pipeline_common.py
(fault plans on a real Application called in-process through its WSGI interface), harness/c01_boundary.py (B-plans:
body shape x misbehaving iterator x stream x tools x consumption / close() schedule; R-plans: InternalRedirect chains
and loops with and without query strings; both under step / wall-clock guards so that a hang of the code under test
is an observation), plus an oracle-only stream of arbitrary environs against an application with total handlers and
the default tools switched on.
"""
import io
import json
import os
import re
import sys

from . import common
from . import pipeline_common as pc
from . import c01_boundary as bd
from . import c01_cov

import cherrypy

PROPERTY = 'C01'
LEAN_TARGETS = ['CpProofs.C01', 'CpProofs.C01Boundary', 'CpProofs.C01Redirect', 'CpProofs.C01Lazy', 'drv_c01']
DRIVER = 'drv_c01'
THEOREMS = [
    'CpProofs.C01.fuel_sufficient',
    'CpProofs.C01.C01_no_escape',
    'CpProofs.C01.C01_started_once_legal',
    'CpProofs.C01.C01_status_of_request_legal',
    'CpProofs.C01.C01_trapped_is_500',
    'CpProofs.C01.C01_error_path_is_5xx',
    'CpProofs.C01.C01_error_hook_redirect_status',
    'CpProofs.C01.C01_unexpected_is_5xx_full_false',
    'CpProofs.C01.valid_bounds',
    'CpProofs.C01.redirectKnown_valid',
    'CpProofs.C01.C01_unexpected_is_5xx',
    'CpProofs.C01.C01_F1_witness_repaired',
    'CpProofs.C01.C01_trapper_honours_released_flag',
    'CpProofs.C01.C01_no_leak_full_false_F2',
    'CpProofs.C01.C01_no_leak_full_false',
    'CpProofs.C01.C01_no_leak_partial',
    # the WSGI boundary with misbehaving body iterators (lean/CpModel/WsgiBoundary.lean)
    'CpProofs.C01Boundary.C01B_no_escape',
    'CpProofs.C01Boundary.C01B_started_once_legal',
    'CpProofs.C01Boundary.C01B_iter_closed_at_most_once',
    'CpProofs.C01Boundary.C01B_close_failure_logged_at_most_once',
    'CpProofs.C01Boundary.C01B_streamed_iter_closed_once',
    'CpProofs.C01Boundary.C01B_no_iter_close_unless_streaming',
    'CpProofs.C01Boundary.C01B_no_iter_close_without_close',
    'CpProofs.C01Boundary.C01B_released_at_most_once',
    'CpProofs.C01Boundary.C01B_released_when_closed',
    'CpProofs.C01Boundary.status_not_bytes_rejected',
    'CpProofs.C01Boundary.header_not_bytes_rejected',
    'CpProofs.C01Boundary.header_bytes_accepted',
    'CpProofs.C01Boundary.C01B_illtyped_is_trapped_500',
    'CpProofs.C01Boundary.str_bodies_refused',
    'CpProofs.C01Boundary.C01B_str_body_is_500',
    'CpProofs.C01Boundary.C01B_chunks_bytes_checked',
    'CpProofs.C01Boundary.C01B_F3_witness',
    'CpProofs.C01Boundary.C01B_chunks_bytes_unchecked_false',
    'CpProofs.C01Boundary.C01B_chunks_bytes_iff_checked',
    'CpProofs.C01Boundary.C01B_chunks_bytes_partial',
    'CpProofs.C01Boundary.C01B_read_fuel_irrelevant',
    # lazy assembly of the WSGI pipeline under concurrent first requests (lean/CpModel/PipelineLazy.lean)
    'CpProofs.C01Lazy.step_inv',
    'CpProofs.C01Lazy.C01_lazy_pipeline_complete',
    'CpProofs.C01Lazy.C01_lazy_head_complete',
    'CpProofs.C01Lazy.C01_lazy_overlapped_request_served',
    'CpProofs.C01Lazy.solo_build',
    'CpProofs.C01Lazy.C01_lazy_solo_progress',
    'CpProofs.C01Lazy.C01_lazy_inplace_false',
    # InternalRedirector with query strings (lean/CpModel/RedirQ.lean)
    'CpProofs.C01Redirect.redirector_terminates',
    'CpProofs.C01Redirect.redirector_fuel_irrelevant',
    'CpProofs.C01Redirect.redirector_keys_nodup',
    'CpProofs.C01Redirect.redirector_loop_revisits',
    'CpProofs.C01Redirect.internalRedirector_terminates',
]
TRUSTED_BASE = [
    'Python semantics transcribed by hand: try/except/finally nesting, exception replacement, generator protocol '
    '(close() of an unstarted / suspended / finished generator, finally blocks that raise), bytes.join consuming its '
    'argument before type-checking it',
    'header names/values are not modelled (C12 covers their content); the model knows the *types* an on_end_resource '
    'hook can leave in output_status / header_list and what AppResponse.__init__ makes of them',
    'tools (encode, gzip, etags) wrapping the body are exercised against the oracle only',
]
ASSUMPTIONS = [
    'user callbacks return or raise HTTPError / HTTPRedirect / InternalRedirect / Exception; KeyboardInterrupt/SystemExit '
    'excluded (as in the statement); throw_errors off',
    'start_response / write supplied by the server do not raise; cherrypy.log and engine.publish listeners do not raise',
    'a custom request.error_response that returns has set a 5xx status',
]
LEVEL = 'proof'
TECHNIQUE = ('Lean 4 proof over a transcription of Request.run/respond/handle_error, Response.finalize, set_response, '
             'AppResponse (type checks, __next__, close), ResponseBody.__set__, InternalRedirector (with query strings), '
             'ExceptionTrapper for all fault plans / body iterators / redirect functions; negation with witnesses for the '
             'traceback-leak and bytes-chunk clauses; model tied to the code by a differential comparison on generated '
             'plans at the real WSGI boundary (with hang guards), plus an oracle-only stream of arbitrary WSGI environs')
LEVEL_TEXT = ('Proved in Lean for every fault plan (unbounded hook lists, any outcome at any callback site, any redirect '
              'chain): nothing escapes the WSGI callable / iteration / close; the redirect loop terminates within the '
              'page count; start_response is called with a status in 100..599 exactly once without exc_info, a second '
              'time only by the trapper with exc_info; an exception reaching handle_error (any unexpected failure) yields '
              'a status >= 500 unless an error-path callback raises a redirect; with tracebacks off no traceback/exception '
              'text is sent EXCEPT in one proved-false case (F2: failing error_page callable), for which the negation is '
              'proved with a witness replayed on the real code; F1 (trapper-level 500 after the request was released) is '
              'repaired and proved repaired. '
              'WSGI boundary (second model, every body shape / item sequence / failing __next__, close(), finally, '
              'read(), every number of next and close() calls): nothing escapes; start_response once (+ once by the '
              'trapper with exc_info); the body iterator\'s close() is called at most once, exactly once when a streamed '
              'closable iterator is closed by the server, never without response.stream or without a close() call, its '
              'failure is logged and dropped; the request is released exactly once; a non-bytes status / header item '
              'reaching AppResponse.__init__ becomes the trapper\'s 500 (tables of rejected kinds generated by executing '
              'the code); a str body / list containing a str becomes a 500 error page; every chunk is a byte string iff '
              '__next__ checks it - it does not in the unchanged code (finding F3, negation proved with a witness, '
              '_partial proved for bodies assembled before the response starts or yielding bytes only). '
              'InternalRedirector: for every redirect function (history dependent) whose targets\' keys lie in a list T the '
              'loop ends after at most |T|+1 requests, fuel-independent, no key requested twice. '
              'Lazy assembly of the WSGI pipeline under concurrent first requests (third model, any number of layers / '
              'threads, every schedule): whatever chain a thread calls has all its layers, self.head is None or '
              'complete; the in-place variant refuted by a witness; tied to real threads parked by events inside a '
              'middleware constructor. '
              'Oracle only: tools wrapping the body, error_page callables of other return types, status strings.')
LEVEL_NOTE = ('Trusted: Lean kernel (axioms propext, Classical.choice, Quot.sound only); the hand model '
              'lean/CpModel/{Hooks,Pipeline,Wsgi}.lean as validated by the differential run; the harness. Header contents '
              'are outside the model.')
RULE = ('every failing site x class of the exception (ordinary: 16 builtin / private classes with the marker as args[0]; '
        'control flow: InternalRedirect, HTTPRedirect, HTTPError, NotFound at the late sites); '
        'stream 0 (boundary): B-plans = body shape (bytes, empty, str, None, non-iterable, list, tuple, generator, iterator '
        'object, iterable, file-like) x item types (bytes, b\'\', str, int, raise; up to 3-4 items) x failure at exhaustion x '
        'close() absent / ok / raising / needing an argument (generator: finally raises) x response.stream x tools (none, '
        'encode, gzip, encode+gzip, etags) x GET/HEAD x explicit Content-Length x no-body status x tampered status / '
        'header types x error_page callable return types x (next calls: all / 0 / 1 / 2 / 3, close() calls 0-3); R-plans = '
        'sites of 1-4 pages with redirect rules (always / only with / without query string / first k requests), targets '
        'absolute / relative, with / without query string, fixed / unchanged / counting query, start URL with / without '
        'query, GET/POST/HEAD; systematic grids + random; distinct = distinct plan line; '
        'stream 1: fault plans as in C09 (1-3 pages, 0-5 hooks per point, outcome per callback site, handler shape x status, '
        'stream bit, GET/HEAD/POST, partial reads, 0-3 close() calls, show_tracebacks per page and global) + single-fault '
        'placements x handler shapes x show_tracebacks; non-trivial = some callback site raised or the handler body is not '
        'plain bytes; stream 2 (oracle only): random WSGI environs (method token, Latin-1 path/query, header lists, bodies, '
        'HTTP/1.0|1.1) against total handlers with default tools; distinct = distinct plan line / environ repr')

STATUS_RE = re.compile(r'^([1-5][0-9][0-9]) [^\r\n]*$')
LEAK_MARKS = [b'Traceback (most recent call last)', pc.MARK.encode(), b'pipeline_common.py', b'_cprequest.py',
              b'_cpwsgi.py', b'File "/', b'c01_boundary.py']


def probe_boundary_tables():
    """Execute AppResponse.__init__ / __next__ and ResponseBody.__set__ on tampered values (bounded by the
    guards of c01_boundary.run_real: a tree on which a probe hangs or lets an exception escape keeps the entry of
    the unchanged code, and the check proper reports the misbehaviour with a replayable plan)."""
    def trapped_500(plan, unchanged):
        obs = bd.run_real(plan)
        if obs['hang'] or obs['escaped'] or not obs['starts']:
            return unchanged
        st = obs['starts'][-1][0]
        return isinstance(st, str) and st[:1] == '5'
    status_kinds = ['keep', 'str', 'none', 'int']
    hdr_kinds = ['bytes', 'strkey', 'strval', 'unival', 'strpair', 'triple', 'nonpair', 'intval', 'nolist']
    st_rej = [i for i, k in enumerate(status_kinds) if trapped_500(bd.b_plan(tamper=(k, 'none'), reads=1), k != 'keep')]
    hd_rej = [i for i, k in enumerate(hdr_kinds) if trapped_500(bd.b_plan(tamper=('keep', k), reads=1), k != 'bytes')]
    obs = bd.run_real(bd.b_plan('gen', 'bsb', 0, 'ok', stream=1, reads=3))
    checked = not any(not isinstance(c, bytes) for c in obs['chunks'])
    body_kinds = [('bytes', ''), ('str', ''), ('none', ''), ('list', 'bb'), ('list', 'bs'), ('tuple', 'bs'), ('gen', 'b'),
                  ('nonit', ''), ('str0', '')]
    refused = []
    for i, (sh, items) in enumerate(body_kinds):
        # streaming: nothing but ResponseBody.__set__ looks at the value before start_response
        obs = bd.run_real(bd.b_plan(sh, items, 0, 'ok', stream=1, meth='head', reads=1))
        if obs['hang'] or obs['escaped'] or not obs['starts']:
            if i in (1, 4, 8):
                refused.append(i)
            continue
        st = obs['starts'][0][0]
        if not (isinstance(st, str) and st[:1] == '2'):
            refused.append(i)
    return {'chunk_checked': checked, 'status_rejected': st_rej, 'hdr_rejected': hd_rej, 'body_refused': refused}


C01_TABLES = """/-!
  GENERATED by harness/c01.py (tables) from the live modules under the repository on every run of the
  C01 check - do not edit.  Every entry was obtained by executing the real code: `AppResponse.__init__`
  with a tampered `response.output_status` / `response.header_list`, `AppResponse.__next__` on a body
  that yields a `str`, `ResponseBody.__set__` on sample values.
-/
namespace CpModel.Gen.C01

/-- does iterating the WSGI iterable refuse (exception -> trapper) a chunk that is not a byte string? -/
def chunkTypeChecked : Bool := %s

/-- kinds of `response.output_status` that make `AppResponse.__init__` raise
    (0 bytes, 1 str, 2 None, 3 int) -/
def statusKindsRejected : List Nat := %s

/-- kinds of one item of `response.header_list` that make `AppResponse.__init__` raise
    (0 (bytes, bytes), 1 (str, bytes), 2 (bytes, str), 3 (bytes, non-Latin-1 str), 4 (str, non-Latin-1 str),
     5 a triple, 6 an int, 7 (bytes, int), 8 `header_list = None`) -/
def headerKindsRejected : List Nat := %s

/-- values `ResponseBody.__set__` refuses
    (0 bytes, 1 str, 2 None, 3 list of bytes, 4 list containing a str, 5 tuple containing a str,
     6 generator, 7 int, 8 empty str) -/
def bodyKindsRefused : List Nat := %s

end CpModel.Gen.C01
"""


def tables(ctx):
    """Finite tables of the anchored code, regenerated by executing it (lean/CpModel/Gen/PipelineTables.lean,
    lean/CpModel/Gen/C01Tables.lean)."""
    res, hang = bd.guarded(pc.tables, ctx)
    if hang:
        # the probe request of pipeline_common.tables never came back: keep the table as it is; the check proper
        # reports the hang with a replayable plan
        path = os.path.join(common.LEAN, 'CpModel/Gen/PipelineTables.lean')
        res = {'CpModel/Gen/PipelineTables.lean': open(path).read()}
        ctx.note('pipeline tables not regenerated: %s' % hang)
    out = dict(res)
    t = probe_boundary_tables()
    lst = lambda l: '[' + ', '.join(map(str, l)) + ']'
    out['CpModel/Gen/C01Tables.lean'] = C01_TABLES % ('true' if t['chunk_checked'] else 'false', lst(t['status_rejected']),
                                                      lst(t['hdr_rejected']), lst(t['body_refused']))
    return out


# ----------------------------------------------------------------------------------------------
# oracle: the statement evaluated on what the WSGI caller saw
# ----------------------------------------------------------------------------------------------
def wellformed(obs):
    """Clauses of the statement that need no knowledge of the application."""
    bad = []
    if obs['escaped']:
        where, exc = obs['escaped'].split(': ')[:2]
        bad.append(('exception escaped to the server (%s)' % obs['escaped'][:300], 'escape:%s:%s' % (where, exc)))
        return bad
    starts = obs['starts']
    if not starts:
        bad.append(('start_response was never called', 'no_start_response'))
        return bad
    if obs.get('chunk_before_start'):
        bad.append(('a chunk was yielded before start_response was called', 'chunk_before_start'))
    if sum(1 for s in starts if not s[2]) > 1 or any(not s[2] for s in starts[1:]):
        bad.append(('start_response called again without exc_info: %s' % [(s[0], s[2]) for s in starts],
                    'start_response_twice'))
    if len(starts) > 2:
        bad.append(('start_response called %d times' % len(starts), 'start_response_thrice'))
    for status, headers, _ in starts:
        ok = isinstance(status, str) and STATUS_RE.match(status)
        if ok:
            try:
                status.encode('latin-1')
            except UnicodeError:
                ok = False
        if not ok:
            bad.append(('illegal status %r' % (status,), 'illegal_status'))
        if not isinstance(headers, list):
            bad.append(('headers is %s, not a list' % type(headers).__name__, 'illegal_headers'))
            continue
        for item in headers:
            good = isinstance(item, tuple) and len(item) == 2 and all(isinstance(x, str) for x in item)
            if good:
                try:
                    item[0].encode('latin-1')
                    item[1].encode('latin-1')
                except UnicodeError:
                    good = False
            if not good:
                bad.append(('header pair %r is not a pair of Latin-1 text strings' % (item,), 'illegal_header_pair'))
                break
    for c in obs['chunks']:
        if not isinstance(c, bytes):
            bad.append(('body chunk of type %s' % type(c).__name__, 'non_bytes_chunk'))
            break
    return bad


def leak(obs):
    """(what, signature) when the body carries traceback text / paths / the exception message although the
    last Request object has show_tracebacks false."""
    if not obs['reqs'] or obs['reqs'][-1]['show_tracebacks']:
        return None
    text = b''.join(c for c in obs['chunks'] if isinstance(c, bytes))
    hits = [m for m in LEAK_MARKS if m in text]
    if not hits:
        return None
    starts = obs['starts']
    errpage_mark = (pc.MARK + '-errpage').encode()
    if starts and starts[0][2]:
        # the only start_response call is the trapper's (exc_info): it answered after the request was released
        sig = 'traceback_leak:trapper_after_release'
    elif hits == [pc.MARK.encode()] and text.count(pc.MARK.encode()) == text.count(errpage_mark):
        # nothing but the text of the failing error_page callable's own exception (no wording of the page compared)
        sig = 'F2:failing_error_page_callable_text'
    else:
        sig = 'traceback_leak'
    return ('show_tracebacks is off but the body contains %s: %r'
            % ([h.decode() for h in hits], text[:160]), sig)


def demand_5xx(plan, obs):
    """Does the statement demand a 5xx answer?  Only when the last raising callback (outside on_end_request, the
    error_page callable and anything after the response started) raised an arbitrary Exception, or the handler's
    return value cannot be turned into a body and nothing raised after the handler."""
    sites = [(s, o) for s, o in obs['sites'] if not s.startswith('hook5.') and s != 'errpage']
    raising = [(i, s, o) for i, (s, o) in enumerate(sites) if o != 'ok']
    if raising:
        i, s, o = raising[-1]
        if o == 'ex':
            if s == 'gen' and plan['reads'] is not None:
                return None
            return 'callback %s raised an Exception' % s
    # handler returned something that is not a legal body
    hidx = [i for i, (s, o) in enumerate(sites) if s == 'handler']
    if hidx and sites[hidx[-1]][1] == 'ok' and not any(i > hidx[-1] for i, _, _ in raising):
        n_req = len(obs['reqs'])
        # which page did the last request address?  the last 'handler' site belongs to the last request
        last_h = [t for t in obs['j'] if t[0] == 'H']
        if last_h and int(last_h[-1][1:]) == n_req - 1:
            pg = page_of_last_request(plan, obs)
            if pg is not None and not (plan['meth'] == 'head' and pg['stream']):
                # (a streamed body is never touched for HEAD: the request simply succeeds)
                shape = pg['handler'][1]
                if shape == 'str' or (shape == 'nonit') or (shape in ('gen0', 'gen1', 'gen2') and not pg['stream']):
                    return 'handler returned %s' % shape
    return None


def page_of_last_request(plan, obs):
    """Follow the internal redirects the journal shows."""
    cur = plan['start']
    n_req = len(obs['reqs'])
    if n_req <= 1:
        return plan['pages'][cur] if cur < len(plan['pages']) else None
    return None     # redirected: no demand from the shape rule (keeps the oracle simple and sound)


def oracle(plan, obs):
    if obs.get('hang'):
        return [('the application never answered (%s)' % obs['hang'], 'hang:time')]
    bad = wellformed(obs)
    if obs['escaped'] or not obs['starts']:
        return bad
    why = demand_5xx(plan, obs)
    if why:
        status = obs['starts'][-1][0]
        code = int(status[:3]) if isinstance(status, str) and status[:3].isdigit() else 0
        if code < 500:
            bad.append(('%s but the client was told %r' % (why, status), 'unexpected_failure_not_5xx'))
    lk = leak(obs)
    if lk:
        bad.append(lk)
    return bad


# ----------------------------------------------------------------------------------------------
# oracle for the boundary plans (harness/c01_boundary.py)
# ----------------------------------------------------------------------------------------------
PROBE_ITEMS = ('VP-STR-CHUNK;', 7)


def demand_5xx_b(plan):
    """B-plans: when does the statement demand a 5xx status?  Only failures that happen before the response is
    started (afterwards the status is on the wire already)."""
    if plan['k'] != 'b':
        return None
    b = plan['body']
    sh, items = b['shape'], b['items']
    if 'encode' not in plan['tools'] and (sh in ('str', 'str0') or (sh == 'list' and 's' in items)):
        return 'the handler returned a str body'
    if plan['stream'] or plan['cl']:
        return None
    if sh == 'nonit':
        return 'the handler returned a non-iterable body'
    if sh in bd.ITERATING and plan.get('xk', 'ex') not in bd.XKINDS[1:]:
        # (a control-flow exception raised while the body is collapsed is an instruction to the request layer -
        # redirect, 404 - not an unexpected failure)
        fails = ('x' in items or (b['end'] and sh != 'gen') or (sh == 'gen' and b['close'] == 'raise')
                 or (sh == 'file' and b['close'] == 'raise'))
        if fails:
            return 'the body iterator raised while the response was being put together'
    return None


def oracle_b(plan, obs):
    if obs['hang']:
        kind = obs['hang'].split(':')[0]
        return [('the application never answered (%s)' % obs['hang'],
                 'hang:%s' % ('internal_redirect_loop' if (kind == 'requests' and plan['k'] == 'r') else kind))]
    bad = []
    for what, sig in wellformed(obs):
        if sig == 'non_bytes_chunk':
            odd = [c for c in obs['chunks'] if not isinstance(c, bytes)]
            if all(any(c == x and type(c) is type(x) for x in PROBE_ITEMS) for c in odd):
                # the handler's own item reached the server unexamined
                sig = 'non_bytes_chunk:body_item_passed_through'
        bad.append((what, sig))
    if obs['escaped'] or not obs['starts']:
        return bad
    why = demand_5xx_b(plan)
    if why:
        status = obs['starts'][-1][0]
        code = int(status[:3]) if isinstance(status, str) and status[:3].isdigit() else 0
        if code < 500:
            bad.append(('%s but the client was told %r' % (why, status), 'unexpected_failure_not_5xx'))
    lk = leak(obs)
    if lk:
        bad.append(lk)
    return bad


# ----------------------------------------------------------------------------------------------
# stream 2: arbitrary environs, oracle only
# ----------------------------------------------------------------------------------------------
class TotalRoot:
    @cherrypy.expose
    def index(self, *a, **k):
        return b'index'

    @cherrypy.expose
    def echo(self, *args, **kwargs):
        return repr((args, sorted(kwargs.items()))).encode('utf-8')

    @cherrypy.expose
    def text(self, **kwargs):
        return 'text \xe9€'

    @cherrypy.expose
    def one(self, x):
        return b'one'

    @cherrypy.expose
    def gz(self, **kwargs):
        return b'abcdefgh' * 200

    @cherrypy.expose
    def sess(self, **kwargs):
        cherrypy.session['n'] = cherrypy.session.get('n', 0) + 1
        return b'sess'

    @cherrypy.expose
    def stream(self, **kwargs):
        def g():
            yield b'a'
            yield b'b'
        return g()
    stream._cp_config = {'response.stream': True}


_total_app = [None]
_env_reqs = []


class RecRequest(cherrypy._cprequest.Request):
    """Keeps the Request objects of the environ stream so that the oracle can read the attribute the
    statement names (`request.show_tracebacks`) instead of guessing it from the config."""

    def __init__(self, *a, **k):
        cherrypy._cprequest.Request.__init__(self, *a, **k)
        _env_reqs.append(self)


def total_app():
    if _total_app[0] is None:
        pc._configure()
        conf = {'/gz': {'tools.gzip.on': True}, '/sess': {'tools.sessions.on': True},
                '/echo': {'tools.decode.on': True}}
        _total_app[0] = cherrypy.Application(TotalRoot(), '', conf)
        _total_app[0].request_class = RecRequest
    return _total_app[0]


SEGS = ['', 'index', 'echo', 'text', 'one', 'gz', 'sess', 'stream', 'a b', '%41', '\xe9', '\xff\xfe', '..', '.', 'x' * 300,
        'echo/a/b', 'one/1', 'one/1/2', ';', 'a;b=c', '\x00', '\x7f', 'caf\xc3\xa9']
QS = ['', 'a=1', 'a=1&a=2', 'a=%FF', '%', '%zz', '&&', 'x=\xe9', ';', '=', 'a', 'a=b=c', 'x=' + 'y' * 500, '1,2', '1,2x',
      'a=%C3%A9', '\xff', 'a[]=1', 'a=1;b=2']
METHODS = ['GET', 'GET', 'GET', 'HEAD', 'POST', 'POST', 'PUT', 'DELETE', 'OPTIONS', 'TRACE', 'PATCH', 'get', 'FOO', 'M-SEARCH',
           'CONNECT', '']
HDRS = [
    ('HTTP_ACCEPT_CHARSET', ['utf-8', 'iso-8859-1;q=0', '*;q=0', 'nosuch', 'utf-8;q=abc', '']),
    ('HTTP_ACCEPT_ENCODING', ['gzip', 'identity;q=0', '*;q=0', 'gzip;q=x', 'deflate']),
    ('HTTP_ACCEPT', ['text/html', '*/*;q=0', 'garbage', 'a/b;q=2']),
    ('HTTP_RANGE', ['bytes=0-1', 'bytes=abc', 'bytes', 'bytes=-0', 'bytes=5-1', 'items=1-2']),
    ('HTTP_COOKIE', ['a=b', 'a=b; $Path=/', 'a b=c', 'session_id=../../x', '=', 'a="', '\xe9=1']),
    ('HTTP_IF_MODIFIED_SINCE', ['garbage', 'Sat, 29 Oct 1994 19:43:31 GMT', '']),
    ('HTTP_IF_NONE_MATCH', ['*', '"x"', 'garbage']),
    ('HTTP_IF_MATCH', ['*', '"x"']),
    ('HTTP_AUTHORIZATION', ['Basic !!!', 'Digest qop=', 'Basic Zm9vOmJhcg==', 'x']),
    ('HTTP_X_FORWARDED_FOR', ['1.2.3.4', '\xe9\xff']),
    ('HTTP_X_TEXT', ['=?utf-8?q?=FF=FE?=', '=?nosuch?q?abc?=', '=?utf-8?b?!!!?=', 'caf\xe9', 'a' * 2000]),
    ('HTTP_CONTENT_ENCODING', ['gzip']),
    ('HTTP_EXPECT', ['100-continue', 'x']),
    ('HTTP_TRANSFER_ENCODING', ['chunked']),
]
CTYPES = ['application/x-www-form-urlencoded', 'application/x-www-form-urlencoded; charset=nosuch', 'multipart/form-data',
          'multipart/form-data; boundary=XX', 'multipart/form-data; boundary=', 'text/plain', 'text/plain; charset=utf-8',
          'application/json', 'garbage', '', 'multipart/mixed; boundary=XX', 'text/plain; charset="']
BODIES = [b'', b'a=1', b'a=1&a=2', b'a=%FF', b'%', b'\xff\xfe', b'--XX\r\nContent-Disposition: form-data; name="a"\r\n\r\n1\r\n--XX--\r\n',
          b'--XX\r\n\r\n', b'--XX\r\nContent-Disposition: form-data; name="f"; filename="x"\r\n\r\ndata\r\n--XX--', b'{"a": 1}',
          b'x' * 5000, b'--XX', b'--XX\r\nbad header line\r\n\r\nx\r\n--XX--\r\n']


def gen_environ(rng):
    meth = rng.choice(METHODS)
    nseg = rng.choice([0, 1, 1, 1, 2, 3])
    path = '/' + '/'.join(rng.choice(SEGS) for _ in range(nseg)) if rng.random() < 0.95 else rng.choice(['', '*', 'nolead'])
    env = {
        'REQUEST_METHOD': meth, 'SCRIPT_NAME': '', 'PATH_INFO': path, 'QUERY_STRING': rng.choice(QS),
        'SERVER_NAME': 'localhost', 'SERVER_PORT': rng.choice(['80', '8080', '']),
        'SERVER_PROTOCOL': rng.choice(['HTTP/1.1', 'HTTP/1.1', 'HTTP/1.0']),
        'wsgi.version': (1, 0), 'wsgi.url_scheme': rng.choice(['http', 'https']),
        'wsgi.multithread': False, 'wsgi.multiprocess': False, 'wsgi.run_once': False,
    }
    if rng.random() < 0.9:
        env['HTTP_HOST'] = rng.choice(['localhost', 'localhost:80', 'ex\xe9mple', '', 'a b', '[::1]:80'])
    for name, vals in HDRS:
        if rng.random() < 0.18:
            env[name] = rng.choice(vals)
    body = b''
    if meth in ('POST', 'PUT', 'PATCH') or rng.random() < 0.1:
        body = rng.choice(BODIES)
        if rng.random() < 0.85:
            env['CONTENT_TYPE'] = rng.choice(CTYPES)
        r = rng.random()
        if r < 0.7:
            env['CONTENT_LENGTH'] = str(len(body))
        elif r < 0.8:
            env['CONTENT_LENGTH'] = rng.choice(['abc', '-1', '', str(len(body) + 10), '0', '99999999999'])
    tb = rng.choice([0, 1])
    return {'env': env, 'body': body, 'tb': tb}


def run_environ(case):
    app = total_app()
    cherrypy.config.update({'request.show_tracebacks': bool(case['tb'])})
    env = dict(case['env'])
    env['wsgi.input'] = io.BytesIO(case['body'])
    env['wsgi.errors'] = sys.stderr
    starts, chunks, escaped = [], [], None
    flag = {'chunk_before_start': False}
    it = None
    del _env_reqs[:]

    def start_response(status, headers, exc_info=None):
        starts.append((status, headers, exc_info is not None))
        exc_info = None
        return lambda data: None
    try:
        try:
            it = app(env, start_response)
            for c in it:
                if not starts:
                    flag['chunk_before_start'] = True
                chunks.append(c)
                if len(chunks) > 10000:
                    raise bd.Hang()
        except Exception as e:     # noqa: BLE001
            escaped = 'call/next: %s: %s' % (type(e).__name__, e)
        if it is not None and hasattr(it, 'close'):
            try:
                it.close()
            except Exception as e:     # noqa: BLE001
                escaped = 'close: %s: %s' % (type(e).__name__, e)
    finally:
        try:
            cherrypy.serving.clear()
        except Exception:     # noqa: BLE001
            pass
        try:
            cherrypy.session.cache.clear()
        except Exception:     # noqa: BLE001
            pass
    return {'starts': starts, 'chunks': chunks, 'escaped': escaped, 'chunk_before_start': flag['chunk_before_start'],
            'reqs': [{'show_tracebacks': bool(r.show_tracebacks)} for r in _env_reqs], 'j': [], 'sites': []}


def oracle_environ(case, obs):
    bad = wellformed(obs)
    # "tracebacks switched off" = the attribute of the Request object, as the statement says: a failure before
    # the config is applied (e.g. a 400 from process_headers) still sees the class default
    if not obs['escaped'] and obs['starts'] and obs['reqs'] and not obs['reqs'][-1]['show_tracebacks']:
        text = b''.join(c for c in obs['chunks'] if isinstance(c, bytes))
        hits = [m for m in (b'Traceback (most recent call last)', b'File "/', b'_cprequest.py') if m in text]
        if hits:
            bad.append(('show_tracebacks is off but the body contains %s: %r' % (hits, text[:200]),
                        'traceback_leak_environ'))
    return bad


# ----------------------------------------------------------------------------------------------
# plan stream
# ----------------------------------------------------------------------------------------------
def single_fault_plans(quick):
    """Every single-fault placement x handler shape x show_tracebacks (x stream x method in thorough)."""
    P, B = pc.base_plan, pc.base_page
    outs = ['ex', 'he404', 'hr303', 'ir0'] if quick else ['ex', 'he404', 'he599', 'he399', 'he600', 'hr303', 'hr304', 'hr306',
                                                           'hr200', 'ir0', 'ir1']
    shapes = ['bytes', 'gen1', 'str', 'nonit'] if quick else ['bytes', 'list', 'gen', 'gen0', 'gen1', 'file', 'none', 'str', 'nonit']
    plans = []
    for tb in (0, 1):
        # streamed bodies: failure before / at / after the first chunk, init failures, redirect out of a stream
        for h in (['ok', 'gen0', None], ['ok', 'gen1', None], ['ok', 'gen2', None], ['ok', 'nonit', None], ['ir0', 'bytes', None],
                  ['ex', 'gen', None]):
            for reads in (None, 1):
                plans.append(P([B(handler=h, tb=tb, stream=1)], gtb=tb, reads=reads))
                if h[1] in ('gen0', 'gen1', 'gen2'):
                    # the streamed generator raises one of CherryPy's own control-flow exceptions mid-stream
                    for gx in GENX:
                        for closes in (1, 2):
                            plans.append(P([B(handler=h, tb=tb, stream=1, genx=gx), B()], gtb=tb, reads=reads, closes=closes))
        for stream in ((0, 1) if not quick else (0,)):
            for meth in (('get', 'head', 'post') if not quick else ('get',)):
                for sh in shapes:
                    # no fault at all
                    plans.append(P([B(handler=['ok', sh, None], tb=tb, stream=stream)], meth=meth, gtb=tb))
                    for o in outs:
                        for p in range(8):
                            # the error points are only reached when something else failed first
                            h = ['ex', sh, None] if p in (6, 7) else ['ok', sh, None]
                            plans.append(P([B(hooks=[[p, 1, 50, 0, o]], handler=h, tb=tb, stream=stream)], meth=meth, gtb=tb))
                        plans.append(P([B(handler=[o, sh, None], tb=tb, stream=stream)], meth=meth, gtb=tb))
                    if sh == shapes[0]:
                        for o in outs:
                            plans.append(P([B(dispatch=o, tb=tb, stream=stream)], meth=meth, gtb=tb))
                            plans.append(P([B(ns=o, tb=tb, stream=stream)], meth=meth, gtb=tb))
                            plans.append(P([B(body=o, tb=tb, stream=stream)], meth='post', gtb=tb))
                            for ep in ('absent', 'cbOk', 'tmplFail'):
                                plans.append(P([B(handler=['ex', 'bytes', None], errResp=o, errPage=ep, tb=tb, stream=stream)],
                                               meth=meth, gtb=tb))
                        for ep in ('cbOk', 'tmplFail'):
                            for h in (['ex', 'bytes', None], ['he404', 'bytes', None], ['ok', 'bytes', 99]):
                                plans.append(P([B(handler=h, errPage=ep, tb=tb, stream=stream)], meth=meth, gtb=tb))
                        for st in (99, 600, 0, 204, 304, 100, 599):
                            plans.append(P([B(handler=['ok', 'bytes', st], tb=tb, stream=stream)], meth=meth, gtb=tb))
                        plans.append(P([B(tb=tb, stream=stream)], meth=meth, noHost=1, gtb=tb))
                        plans.append(P([B(tb=tb, stream=stream)], meth=meth, badQuery=1, gtb=tb))
    return plans


def class_fault_plans():
    """Every site x every class of the builtin hierarchy CherryPy itself catches / uses internally, each exception
    carrying the marker as args[0], tracebacks off (and on, for the comparison with the model): the handler, the body
    iterator at collapse / flush / stream time, every hook point, error_response, the namespace handler, the dispatcher,
    the body processor."""
    P, B = pc.base_plan, pc.base_page
    plans = []
    for cls in XCLS:
        for tb in (0, 1):
            pages = [B(handler=['ex', 'bytes', None], tb=tb), B(handler=['ok', 'gen1', None], tb=tb),
                     B(handler=['ok', 'gen0', 204], tb=tb), B(handler=['ok', 'gen1', 304], tb=tb, stream=1),
                     B(handler=['ok', 'gen1', None], tb=tb, stream=1), B(dispatch='ex', tb=tb), B(ns='ex', tb=tb),
                     B(handler=['ex', 'bytes', None], errResp='ex', tb=tb), B(handler=['ex', 'bytes', None], errPage='cbOk', tb=tb),
                     B(handler=['ex', 'bytes', None], errPage='tmplFail', tb=tb)]
            for p in range(8):
                h = ['ex', 'bytes', None] if p in (6, 7) else ['ok', 'bytes', None]
                pages.append(B(hooks=[[p, 1, 50, 0, 'ex']], handler=h, tb=tb))
                pages.append(B(hooks=[[p, 1, 50, 1, 'ex'], [p, 2, 60, 1, 'ok']], handler=h, tb=tb))
            for pg in pages:
                plans.append(P([pg], gtb=tb, xcls=cls))
            plans.append(P([B(body='ex', tb=tb)], meth='post', gtb=tb, xcls=cls))
    return plans


def in_known_class(plan):
    """Plans in a recorded known-finding class are exercised only through the witness replay (DESIGN 1c)."""
    return any(pg['errPage'] == 'cbFail' and not pg['tb'] for pg in plan['pages'])


def run_plan(plan, app_wrapper=None):
    """pc.run_real under the wall-clock guard: a run that does not come back is an observation."""
    obs, hang = bd.guarded(pc.run_real, plan, app_wrapper)
    if hang:
        return {'hang': hang, 'j': [], 'starts': [], 'chunks': [], 'escaped': None, 'reqs': [], 'sites': [],
                'chunk_before_start': False}
    obs['hang'] = None
    return obs


def _ctype(headers):
    if isinstance(headers, list):
        for item in headers:
            if isinstance(item, tuple) and len(item) == 2 and isinstance(item[0], str) and item[0].lower() == 'content-type':
                return str(item[1]).split(';')[0].strip().lower()
    return ''


def body_flags_real(obs):
    """Kind of the response entity, from structure and from markers the probes themselves put in (never from the
    wording of CherryPy's messages and pages): the trapper's answer = a start_response call with exc_info;
    bare_error = 500 text/plain; the default error page = an HTML entity of a 4xx/5xx response that is neither a page
    chunk nor the output of the probe error_page callable / error_response; "the custom error page failed" = the
    failing callable's own exception text pasted in; a traceback = Python's own header line."""
    text = b''.join(c if isinstance(c, bytes) else repr(c).encode() for c in obs['chunks'])
    fl = set()
    starts = obs['starts']
    if not text or not starts:
        return []
    last = starts[-1]
    code = int(last[0][:3]) if isinstance(last[0], str) and last[0][:3].isdigit() else 0
    if any(s[2] for s in starts):
        fl.add('bare')
    if not starts[0][2]:
        first = starts[0]
        code0 = int(first[0][:3]) if isinstance(first[0], str) and first[0][:3].isdigit() else 0
        # mid-stream failure: the last chunk is the trapper's bare body, what came before belongs to the first answer
        body0 = text if len(starts) == 1 else b''.join(c for c in obs['chunks'][:-1] if isinstance(c, bytes))
        if _ctype(first[1]) == 'text/plain' and code0 == 500:
            fl.add('bare')
        elif pc.CB_PAGE.encode() in body0:
            fl.add('cb')
        elif pc.CUSTOM_ER in body0:
            fl.add('custom')
        elif code0 >= 400 and body0 and pc.PAGE_CHUNK not in body0 and _ctype(first[1]) == 'text/html':
            fl.add('ep')
            if (pc.MARK + '-errpage').encode() in body0:
                fl.add('msg')
    if b'Traceback (most recent call last)' in text:
        fl.add('tb')
    return sorted(fl)


def observe(plan):
    obs = run_plan(plan)
    return {'j': obs['j'], 'flags': body_flags_real(obs), 'fails': oracle(plan, obs), 'escaped': obs['escaped'],
            'nraise': sum(1 for s, o in obs['sites'] if o != 'ok'),
            'req_tb': obs['reqs'][-1]['show_tracebacks'] if obs['reqs'] else True,
            'status': [s[0] for s in obs['starts']]}


def _observe_chunk(plans):
    out, hangs = [], 0
    for p in plans:
        if hangs >= 3:
            out.append({'j': [], 'flags': [], 'fails': [], 'escaped': None, 'nraise': 0, 'req_tb': True, 'status': [],
                        'skipped': True})
            continue
        r = observe(p)
        if any(sig == 'hang:time' for _, sig in r['fails']):
            hangs += 1
        out.append(r)
    return out


GENX = ['ir0', 'ir1', 'hr303', 'he404', 'he500']
XCLS = [k for k in sorted(pc.EX_CLASSES) if k != 'ProbeError']


def plan_line(plan):
    """pc.plan_line plus the class of what a streamed generator raises (`genx=<page>:<OUT>,...`; the C01 driver drops
    the token: once the body is being streamed the model has one answer for every Exception subclass)."""
    gx = ['%d:%s' % (i, pg['genx']) for i, pg in enumerate(plan['pages']) if pg.get('genx')]
    return (pc.plan_line(plan) + (' genx=' + ','.join(gx) if gx else '')
            + (' xcls=%s' % plan['xcls'] if plan.get('xcls') else ''))


def add_genx(plan, rng):
    """Streamed pages whose generator fails: now and then it raises one of CherryPy's control-flow exceptions; and the
    class of what the outcome 'ex' raises at every site of the plan ranges over the builtin hierarchy (plan key 'xcls':
    the model has one answer for every ordinary Exception class)."""
    if rng.random() < 0.6:
        plan['xcls'] = rng.choice(XCLS)
    for pg in plan['pages']:
        # (no status set by the handler: a bodiless status makes finalize consume the body inside the request layer,
        # where these classes are instructions - redirect, error page -, not failures)
        if pg['stream'] and pg['handler'][1] in ('gen0', 'gen1', 'gen2') and pg['handler'][2] is None and rng.random() < 0.5:
            pg['genx'] = rng.choice(GENX)
    return plan


def check_plans(ctx, plans, compare=True, label='gen'):
    plans = list(plans)
    if not plans:
        return
    CHUNK = 400 if (ctx.quick() and not ctx.searching) else 48000
    if len(plans) > CHUNK:
        for i in range(0, len(plans), CHUNK):
            if len(ctx.oracle_failures) >= 20 or (len(ctx.disagreements) >= 20 and not ctx.searching):
                ctx.note('stopped early after %d failures' % (len(ctx.oracle_failures) + len(ctx.disagreements)))
                return
            check_plans(ctx, plans[i:i + CHUNK], compare=compare, label=label)
        return
    lines = [plan_line(p) for p in plans]
    model = ctx.model(lines) if compare else None
    if len(plans) < 4000:
        results = _observe_chunk(plans)
    else:
        n = 64
        chunks = [plans[i::n] for i in range(n)]
        parts = common.parallel_map(_observe_chunk, chunks)
        results = [None] * len(plans)
        for ci, part in enumerate(parts):
            for k, r in enumerate(part):
                results[ci + k * n] = r
    shrunk = 0
    hangs = 0
    for idx, (plan, res) in enumerate(zip(plans, results)):
        hd = plan['pages'][plan['start']]['handler'] if plan['start'] < len(plan['pages']) else ['notfound', 'bytes']
        ctx.case({'plan': lines[idx]}, nontrivial=(res['nraise'] > 0 or hd[1] != 'bytes'), key=lines[idx])
        ctx.count('stream:' + label)
        ctx.count('raising_sites:%s' % (res['nraise'] if res['nraise'] < 4 else '4+'))
        for st in res['status'][-1:]:
            ctx.count('status:%sxx' % st[:1])
        if len(res['status']) == 2:
            ctx.count('trapper_midstream')
        if 'bare' in res['flags']:
            ctx.count('bare_error')
        ctx.count('tb:%s' % ('on' if res['req_tb'] else 'off'))
        seen = set()
        for what, sig in res['fails']:
            if sig in seen:
                continue
            seen.add(sig)
            case = {'plan': plan}
            if sig == 'hang:time':
                hangs += 1
            if ctx.match_known(sig) is None and shrunk < 3 and sig != 'hang:time':
                shrunk += 1
                small = pc.shrink_plan(plan, lambda c: any(s == sig for _, s in oracle(c, run_plan(c))))
                fs = [w for w, s in oracle(small, run_plan(small)) if s == sig]
                if fs:
                    case, what = {'plan': small, 'shrunk_from': lines[idx]}, fs[0]
            ctx.oracle_fail(case, what, sig)
        if hangs >= 3:
            ctx.note('stopped after %d runs that never answered' % hangs)
            return
        if model is not None and not res.get('skipped'):
            ctx.compared()
            m = pc.parse_model(model[idx])
            if m['fuel']:
                raise common.HarnessError('model ran out of fuel on %s' % lines[idx])
            unknown_fail = any(ctx.match_known(s) is None for _, s in res['fails'])
            if unknown_fail:
                continue
            if m['j'] != res['j']:
                ctx.disagree({'plan': plan}, ','.join(res['j']), ','.join(m['j']), 'journal (incl. start_response calls) differs')
            elif m['escaped'] != bool(res['escaped']):
                ctx.disagree({'plan': plan}, res['escaped'], m['escaped'], 'escaped differs')
            elif plan['reads'] is None and pc.body_flags_model(m) != res['flags']:
                ctx.disagree({'plan': plan}, res['flags'], pc.body_flags_model(m), 'kind of response entity differs')
            elif m['req_tb'] != res['req_tb']:
                ctx.disagree({'plan': plan}, res['req_tb'], m['req_tb'], "last request's show_tracebacks differs")


def observe_b(plan):
    obs = bd.run_real(plan)
    return {'fails': oracle_b(plan, obs), 'canon': bd.canon_real(plan, obs), 'status': [s[0] for s in obs['starts']],
            'nreq': len(obs['reqs']), 'hang': obs['hang'], 'escaped': obs['escaped'],
            'nonbytes': any(not isinstance(c, bytes) for c in obs['chunks'])}


def _observe_b_chunk(plans):
    out, hangs = [], 0
    for p in plans:
        if hangs >= 3:
            out.append({'fails': [], 'canon': {}, 'status': [], 'nreq': 0, 'hang': None, 'escaped': None, 'nonbytes': False,
                        'skipped': True})
            continue
        r = observe_b(p)
        if r['hang'] and r['hang'].startswith('time'):
            hangs += 1
        out.append(r)
    return out


def _b_nontrivial(plan):
    if plan['k'] == 'r':
        return any(plan['pages'].values())
    b = plan['body']
    return (b['shape'] not in ('bytes', 'none', 'bytes0') or plan['tamper'] != ['keep', 'none'] or plan['closes'] != 1
            or plan['reads'] is not None)


def check_bplans(ctx, plans, compare=True, label='boundary'):
    """B-/R-plans: oracle on the real WSGI boundary, then the comparison with the Lean boundary models."""
    plans = list(plans)
    if not plans:
        return
    CHUNK = 2000
    if len(plans) > CHUNK:
        for i in range(0, len(plans), CHUNK):
            if len(ctx.oracle_failures) >= 20 or (len(ctx.disagreements) >= 20 and not ctx.searching):
                ctx.note('stopped early after %d failures' % (len(ctx.oracle_failures) + len(ctx.disagreements)))
                return
            check_bplans(ctx, plans[i:i + CHUNK], compare=compare, label=label)
        return
    lines = [bd.plan_line(p) for p in plans]
    cmp_idx = [i for i, p in enumerate(plans) if bd.model_comparable(p)] if compare else []
    model = ctx.model([lines[i] for i in cmp_idx]) if cmp_idx else None
    mdl = dict(zip(cmp_idx, model)) if model is not None else {}
    results = _observe_b_chunk(plans)
    shrunk = 0
    hangs = 0
    for idx, (plan, res) in enumerate(zip(plans, results)):
        ctx.case({'bplan': lines[idx]}, nontrivial=_b_nontrivial(plan), key=lines[idx])
        ctx.count('stream:' + label)
        if plan['k'] == 'b':
            ctx.count('b_shape:%s' % plan['body']['shape'])
            ctx.count('b_consume:reads=%s,closes=%s' % (bd.opt(plan['reads']) if plan['reads'] in (None, 0) else 'k',
                                                       plan['closes'] if plan['closes'] < 2 else '2+'))
            ctx.count('b_stream:%d' % plan['stream'])
            ctx.count('b_tools:%s' % ('+'.join(plan['tools']) or 'none'))
            if plan['tamper'] != ['keep', 'none']:
                ctx.count('b_tampered_status_or_header')
            if res['nonbytes']:
                ctx.count('b_non_bytes_chunk_delivered')
        else:
            ctx.count('r_requests:%s' % (res['nreq'] if res['nreq'] < 5 else '5+'))
            ctx.count('r_start_query:%s' % ('yes' if plan['start'][1] else 'no'))
        for st in res['status'][-1:]:
            ctx.count('status:%sxx' % (st[:1] if isinstance(st, str) else '?'))
        if len(res['status']) == 2:
            ctx.count('trapper_midstream')
        seen = set()
        for what, sig in res['fails']:
            if sig in seen:
                continue
            seen.add(sig)
            case = {'bplan': plan}
            if sig.startswith('hang'):
                hangs += 1
            if ctx.match_known(sig) is None and shrunk < 3 and hangs <= 3 and sig != 'hang:time':
                shrunk += 1
                small = bd.shrink(plan, lambda c: any(s2 == sig for _, s2 in oracle_b(c, bd.run_real(c))))
                fs = [w for w, s2 in oracle_b(small, bd.run_real(small)) if s2 == sig]
                if fs:
                    case, what = {'bplan': small, 'shrunk_from': lines[idx]}, fs[0]
            ctx.oracle_fail(case, what, sig)
        if hangs > 3:
            ctx.note('stopped after %d runs that never answered' % hangs)
            return
        if idx in mdl and not res.get('skipped'):
            ctx.compared()
            if mdl[idx] == 'bad-op':
                raise common.HarnessError('the driver does not understand %s' % lines[idx])
            if any(ctx.match_known(s2) is None for _, s2 in res['fails']):
                continue
            m = bd.canon_model(plan, bd.parse_model(mdl[idx]))
            if m != res['canon']:
                diff = sorted(k for k in m if m[k] != res['canon'].get(k))
                ctx.disagree({'bplan': plan}, res['canon'], m, 'boundary observables differ: %s' % ','.join(diff))


def boundary_plans(ctx, n_b, n_r):
    plans = bd.grid_b_plans(ctx.quick()) + bd.grid_r_plans(ctx.quick())
    ctx.extra['boundary_grid_plans'] = len(plans)
    plans += [bd.gen_b_plan(ctx.rng) for _ in range(n_b)]
    plans += [bd.gen_r_plan(ctx.rng) for _ in range(n_r)]
    return plans


def check_environs(ctx, n):
    hangs = 0
    for _ in range(n):
        case = gen_environ(ctx.rng)
        obs, hang = bd.guarded(run_environ, case)
        if hang:
            hangs += 1
            ctx.oracle_fail({'environ': {k: v for k, v in case['env'].items() if isinstance(v, (str, tuple, bool))},
                             'body_hex': case['body'].hex(), 'tb': case['tb']},
                            'the application never answered (%s)' % hang, 'hang:time')
            if hangs >= 3:
                return
            continue
        key = repr(sorted((k, v) for k, v in case['env'].items() if isinstance(v, str))) + repr(case['body'][:40])
        ctx.case({'environ': {k: v for k, v in case['env'].items() if isinstance(v, str)}, 'tb': case['tb']},
                 nontrivial=True, key=key)
        ctx.count('stream:environ')
        if obs['starts']:
            st = obs['starts'][-1][0]
            ctx.count('environ_status:%sxx' % (st[:1] if isinstance(st, str) else '?'))
        for what, sig in oracle_environ(case, obs):
            ctx.oracle_fail({'environ': {k: v for k, v in case['env'].items() if isinstance(v, (str, tuple, bool))},
                             'body_hex': case['body'].hex(), 'tb': case['tb']}, what, sig)


def check_validator(ctx, n):
    """A sample of plans once more under `wsgiref.validate.validator`: an independent reading of the WSGI rules
    (status / header syntax, iterator and close protocol, start_response discipline)."""
    import warnings
    from wsgiref.validate import validator
    with warnings.catch_warnings():
        warnings.simplefilter('ignore')
        for _ in range(n):
            plan = pc.gen_plan(ctx.rng, focus=(ctx.rng.randrange(8) if ctx.rng.random() < 0.3 else None))
            plan['closes'] = 1          # the validator insists on exactly one close()
            plan['reads'] = None
            obs = run_plan(plan, app_wrapper=validator)
            line = pc.plan_line(plan)
            ctx.case({'plan': line, 'validator': True}, nontrivial=True, key='validator ' + line)
            ctx.count('stream:validator')
            if obs.get('hang'):
                ctx.oracle_fail({'plan': plan, 'validator': True}, 'the application never answered (%s)' % obs['hang'],
                                'hang:time')
                return
            if obs['escaped'] and 'AssertionError' in obs['escaped']:
                ctx.oracle_fail({'plan': plan, 'validator': True},
                                'wsgiref.validate complains: %s' % obs['escaped'][:300],
                                'wsgi_validator:%s' % ' '.join(obs['escaped'].split(': ', 2)[-1].split()[:6]))
            elif obs['escaped']:
                ctx.oracle_fail({'plan': plan, 'validator': True}, 'exception escaped under the validator: %s'
                                % obs['escaped'][:300], 'escape:%s' % ':'.join(obs['escaped'].split(': ')[:2]))


def check_validator_b(ctx, n):
    """A sample of boundary plans under `wsgiref.validate.validator` (a second, independent reading of the WSGI
    rules).  The validator insists on one close() and on iterating to the end; items that are not byte strings are
    left to the plain stream (finding F3 would trip the validator's own assertion)."""
    import warnings
    from wsgiref.validate import validator
    with warnings.catch_warnings():
        warnings.simplefilter('ignore')
        for i in range(n):
            plan = bd.gen_b_plan(ctx.rng) if i % 3 else bd.gen_r_plan(ctx.rng)
            plan['closes'], plan['reads'] = 1, None
            if plan['k'] == 'b':
                plan['body']['items'] = plan['body']['items'].replace('s', 'b').replace('i', 'b')
            obs = bd.run_real(plan, app_wrapper=validator)
            line = bd.plan_line(plan)
            ctx.case({'bplan': line, 'validator': True}, nontrivial=True, key='validator ' + line)
            ctx.count('stream:validator-boundary')
            if obs['hang']:
                ctx.oracle_fail({'bplan': plan, 'validator': True}, 'the application never answered (%s)' % obs['hang'],
                                'hang:%s' % obs['hang'].split(':')[0])
                return
            if obs['escaped'] and 'AssertionError' in obs['escaped']:
                ctx.oracle_fail({'bplan': plan, 'validator': True},
                                'wsgiref.validate complains: %s' % obs['escaped'][:300],
                                'wsgi_validator:%s' % ' '.join(obs['escaped'].split(': ', 2)[-1].split()[:6]))
            elif obs['escaped']:
                ctx.oracle_fail({'bplan': plan, 'validator': True}, 'exception escaped under the validator: %s'
                                % obs['escaped'][:300], 'escape:%s' % ':'.join(obs['escaped'].split(': ')[:2]))


def corpus_plans():
    d = os.path.join(common.CORPUS, PROPERTY)
    out = []
    if os.path.isdir(d):
        for f in sorted(os.listdir(d)):
            if f.endswith('.json'):
                c = json.load(open(os.path.join(d, f)))
                if 'plan' in c:
                    out.append(c['plan'])
    return out


def _corpus_cases():
    d = os.path.join(common.CORPUS, PROPERTY)
    out = []
    if os.path.isdir(d):
        for f in sorted(os.listdir(d)):
            if f.endswith('.json'):
                out.append(json.load(open(os.path.join(d, f))))
    return out


def run(ctx):
    cov = c01_cov.Coverage()
    cov.start()
    try:
        _run(ctx)
    finally:
        cov.stop()
        cov.report(ctx)


def _stop(ctx):
    """A run that never answered was found (each further one costs the wall-clock guard), or there are plenty of
    failures already: the remaining streams are skipped."""
    return len(ctx.oracle_failures) >= 20 or any((sig or '').startswith('hang:time') for _, _, sig in ctx.oracle_failures)


def _run(ctx):
    for e in ctx.known:
        if e.get('status') == 'known':
            if 'bplan' in e['witness']:
                check_bplans(ctx, [e['witness']['bplan']], label='known')
            else:
                check_plans(ctx, [e['witness']['plan']], label='known')
    check_plans(ctx, corpus_plans(), label='corpus')
    check_bplans(ctx, [c['bplan'] for c in _corpus_cases() if 'bplan' in c], label='corpus')
    check_bplans(ctx, boundary_plans(ctx, ctx.budget(1200, 60000), ctx.budget(800, 40000)), label='boundary')
    if _stop(ctx):
        return
    check_races(ctx)
    singles = single_fault_plans(ctx.quick())
    check_plans(ctx, singles, label='single-fault')
    ctx.extra['exhaustive_single_fault_placements'] = len(singles)
    if _stop(ctx):
        return
    check_plans(ctx, class_fault_plans(), label='class-x-site')
    if _stop(ctx):
        return
    n = ctx.budget(2500, 120000)
    plans = []
    while len(plans) < n:
        p = pc.gen_plan(ctx.rng, focus=(ctx.rng.randrange(8) if len(plans) % 3 == 0 else None))
        if not in_known_class(p):
            plans.append(add_genx(p, ctx.rng))
    check_plans(ctx, plans, label='random')
    if _stop(ctx):
        return
    check_environs(ctx, ctx.budget(1500, 40000))
    if _stop(ctx):
        return
    check_validator(ctx, ctx.budget(500, 20000))
    if _stop(ctx):
        return
    check_validator_b(ctx, ctx.budget(400, 15000))


def search(ctx, around=None):
    rng = ctx.rng
    # first the places where a broken correspondence most often has a concrete failing input: redirect chains /
    # loops with query strings and misbehaving body iterators at the WSGI boundary
    plans = bd.grid_r_plans(False) + bd.grid_b_plans(False)
    plans += [bd.gen_r_plan(rng) for _ in range(6000)] + [bd.gen_b_plan(rng) for _ in range(6000)]
    check_bplans(ctx, plans, compare=False, label='search-boundary')
    if ctx.oracle_failures:
        return
    check_plans(ctx, single_fault_plans(False), compare=False, label='search')
    if not ctx.oracle_failures:
        check_plans(ctx, class_fault_plans(), compare=False, label='search')
    if not ctx.oracle_failures:
        plans = []
        while len(plans) < ctx.budget(12000, 60000):
            p = pc.gen_plan(rng, focus=(rng.randrange(8) if len(plans) % 3 == 0 else None))
            if not in_known_class(p):
                plans.append(add_genx(p, rng))
        check_plans(ctx, plans, compare=False, label='search')
    if not ctx.oracle_failures:
        check_environs(ctx, 6000)


def check_races(ctx):
    """the first requests of an application on two threads at once (harness/c01_race.py): oracle only"""
    from . import c01_race
    for case in c01_race.cases():
        obs, hang = bd.guarded(c01_race.run_case, case)
        ctx.case(case, nontrivial=True, key='race:%s:%s:%s' % (case['kind'], case['pos'], case['parked']))
        ctx.count('stream:first-request-race')
        if hang:
            ctx.oracle_fail(case, 'two first requests of one application on two threads: never answered (%s)' % hang,
                            'race:never_returned')
            return
        for what, sig in c01_race.oracle(case, obs):
            ctx.oracle_fail(case, what, sig)
        if obs.get('tie') and not obs.get('hung'):
            # tie of the lazy-assembly model (PipelineLazy.lean, theorems CpProofs.C01Lazy.*) to this run
            out = ctx.model([c01_race.model_line(obs)])
            if out is not None:
                ctx.compared()
                real = c01_race.canon_real(obs)
                want = out[0]
                if real.startswith('head=? '):
                    want = 'head=? ' + want.split(' ', 1)[1] if ' ' in want else want
                if want != real:
                    ctx.disagree(case, real, want, 'lazy assembly of the WSGI pipeline: layers of the memoized chain / '
                                 'layers each of the two overlapping requests went through / threads that assembled a '
                                 'chain differ')


def replay(ctx, case):
    if case.get('race'):
        from . import c01_race
        obs = c01_race.run_case(case)
        print('case   :', case)
        for k in ('ref', 'got', 'parked', 'parked_ref'):
            if obs.get(k) is not None:
                print('%-7s: %s' % (k, c01_race._show(obs[k])))
        for what, sig in c01_race.oracle(case, obs):
            print('oracle :', sig, '-', what)
            ctx.oracle_fail(case, what, sig)
        return
    if 'environ' in case:
        c = {'env': dict(case['environ']), 'body': bytes.fromhex(case.get('body_hex', '')), 'tb': case.get('tb', 0)}
        c['env'].setdefault('wsgi.version', (1, 0))
        for k in ('wsgi.multithread', 'wsgi.multiprocess', 'wsgi.run_once'):
            c['env'].setdefault(k, False)
        obs, hang = bd.guarded(run_environ, c)
        print('environ:', c['env'])
        if hang:
            print('impl   : never answered (%s)' % hang)
            ctx.oracle_fail(case, 'the application never answered (%s)' % hang, 'hang:time')
            return
        print('impl   :', [(s[0], s[2]) for s in obs['starts']], obs['escaped'], [x[:120] for x in obs['chunks'][:2]])
        for what, sig in oracle_environ(c, obs):
            print('oracle :', sig, '-', what)
            ctx.oracle_fail(case, what, sig)
        return
    if 'bplan' in case and case.get('validator'):
        import warnings
        from wsgiref.validate import validator
        with warnings.catch_warnings():
            warnings.simplefilter('ignore')
            obs = bd.run_real(case['bplan'], app_wrapper=validator)
        print('plan   :', bd.plan_line(case['bplan']))
        print('impl   : (under wsgiref.validate) escaped=%s hang=%s' % (obs['escaped'], obs['hang']))
        if obs['escaped'] or obs['hang']:
            ctx.oracle_fail(case, 'under wsgiref.validate: %s' % (obs['escaped'] or obs['hang'])[:300], 'wsgi_validator')
        return
    if 'bplan' in case:
        plan = case['bplan']
        obs = bd.run_real(plan)
        line = bd.plan_line(plan)
        print('plan   :', line)
        print('impl   :', [(s_[0], s_[2]) for s_ in obs['starts']], 'escaped=%s' % obs['escaped'], 'hang=%s' % obs['hang'],
              'requests=%s' % (obs['urls'][:6],), 'chunks=%s' % ([c[:60] if isinstance(c, bytes) else c for c in obs['chunks'][:4]],),
              bd.canon_real(plan, obs))
        if bd.model_comparable(plan):
            m = ctx.model([line])
            if m:
                print('model  :', m[0])
        for what, sig in oracle_b(plan, obs):
            print('oracle :', sig, '-', what)
        check_bplans(ctx, [plan], label='replay')
        return
    plan = case['plan']
    if case.get('validator'):
        import warnings
        from wsgiref.validate import validator
        with warnings.catch_warnings():
            warnings.simplefilter('ignore')
            obs = run_plan(plan, app_wrapper=validator)
        print('plan   :', pc.plan_line(plan))
        print('impl   : (under wsgiref.validate) escaped=%s' % obs['escaped'])
        if obs['escaped']:
            ctx.oracle_fail(case, 'under wsgiref.validate: %s' % obs['escaped'][:300], 'wsgi_validator')
        return
    obs = run_plan(plan)
    line = plan_line(plan)
    print('plan   :', line)
    print('impl   :', ','.join(obs['j']), body_flags_real(obs), 'escaped=%s' % obs['escaped'])
    m = ctx.model([line])
    if m:
        mm = pc.parse_model(m[0])
        print('model  :', ','.join(mm['j']), pc.body_flags_model(mm), 'escaped=%s' % mm['escaped'])
    for what, sig in oracle(plan, obs):
        print('oracle :', sig, '-', what)
    check_plans(ctx, [plan], label='replay')
