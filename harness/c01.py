"""C01 - every request yields exactly one well-formed response; errors are contained.

Model: lean/CpModel/{Hooks,Pipeline,Wsgi}.lean (shared with C09), theorems: lean/CpProofs/C01.lean,
driver: lean/Drv/C01.lean.  Real code: harness/pipeline_common.py (fault plans on a real Application called
in-process through its WSGI interface) plus a second, oracle-only stream of arbitrary environs against an
application with total handlers and the default tools switched on.
"""
import io
import json
import os
import re
import sys

from . import common
from . import pipeline_common as pc

import cherrypy

PROPERTY = 'C01'
LEAN_TARGETS = ['CpProofs.C01', 'drv_c01']
DRIVER = 'drv_c01'
THEOREMS = [
    'CpProofs.C01.fuel_sufficient',
    'CpProofs.C01.C01_no_escape',
    'CpProofs.C01.C01_started_once_legal',
    'CpProofs.C01.C01_status_of_request_legal',
    'CpProofs.C01.C01_trapped_is_500',
    'CpProofs.C01.C01_error_path_is_5xx',
    'CpProofs.C01.C01_unexpected_is_5xx',
    'CpProofs.C01.C01_no_leak_full_false_F1',
    'CpProofs.C01.C01_no_leak_full_false_F2',
    'CpProofs.C01.C01_no_leak_full_false',
    'CpProofs.C01.C01_no_leak_partial',
]
TRUSTED_BASE = [
    'Python semantics transcribed by hand: try/except/finally nesting, exception replacement, generator protocol',
    'header names/values are not modelled (C12 covers their content); str/Latin-1 typing of the pairs is checked by '
    'the oracle only',
]
ASSUMPTIONS = [
    'user callbacks return or raise HTTPError / HTTPRedirect / InternalRedirect / Exception; KeyboardInterrupt/SystemExit '
    'excluded (as in the statement); throw_errors off',
    'start_response / write supplied by the server do not raise; cherrypy.log and engine.publish listeners do not raise',
    'a custom request.error_response that returns has set a 5xx status',
]
LEVEL = 'proof'
TECHNIQUE = ('Lean 4 proof over a transcription of Request.run/respond/handle_error, Response.finalize, set_response, '
             'AppResponse, InternalRedirector, ExceptionTrapper for all fault plans; negation with witnesses for the '
             'traceback-leak clause; model tied to the code by a differential comparison on generated fault plans, plus an '
             'oracle-only stream of arbitrary WSGI environs')
LEVEL_TEXT = ('Proved in Lean for every fault plan (unbounded hook lists, any outcome at any callback site, any redirect '
              'chain): nothing escapes the WSGI callable / iteration / close; the redirect loop terminates within the '
              'page count; start_response is called with a status in 100..599 exactly once without exc_info, a second '
              'time only by the trapper with exc_info; an exception reaching handle_error (any unexpected failure) yields '
              'a status >= 500 unless an error-path callback raises a redirect; with tracebacks off no traceback/exception '
              'text is sent EXCEPT in two proved-false cases (F1: trapper-level 500 after the request was released; F2: '
              'failing error_page callable), for which the negation is proved with witnesses replayed on the real code. '
              'Partial: header pairs (str, Latin-1) and chunk types are checked by the oracle only, not modelled.')
LEVEL_NOTE = ('Trusted: Lean kernel (axioms propext, Classical.choice, Quot.sound only); the hand model '
              'lean/CpModel/{Hooks,Pipeline,Wsgi}.lean as validated by the differential run; the harness. Header contents '
              'are outside the model.')
RULE = ('stream 1: fault plans as in C09 (1-3 pages, 0-5 hooks per point, outcome per callback site, handler shape x status, '
        'stream bit, GET/HEAD/POST, partial reads, 0-3 close() calls, show_tracebacks per page and global) + single-fault '
        'placements x handler shapes x show_tracebacks; non-trivial = some callback site raised or the handler body is not '
        'plain bytes; stream 2 (oracle only): random WSGI environs (method token, Latin-1 path/query, header lists, bodies, '
        'HTTP/1.0|1.1) against total handlers with default tools; distinct = distinct plan line / environ repr')

STATUS_RE = re.compile(r'^([1-5][0-9][0-9]) [^\r\n]*$')
LEAK_MARKS = [b'Traceback (most recent call last)', pc.MARK.encode(), b'pipeline_common.py', b'_cprequest.py',
              b'_cpwsgi.py', b'File "/']


# ----------------------------------------------------------------------------------------------
# oracle: the statement evaluated on what the WSGI caller saw
# ----------------------------------------------------------------------------------------------
def wellformed(obs):
    """Clauses of the statement that need no knowledge of the application."""
    bad = []
    if obs['escaped']:
        where, exc = obs['escaped'].split(': ')[:2]
        bad.append(('exception escaped to the server (%s)' % obs['escaped'][:300], 'escape:%s:%s' % (where, exc)))
        return bad
    starts = obs['starts']
    if not starts:
        bad.append(('start_response was never called', 'no_start_response'))
        return bad
    if obs.get('chunk_before_start'):
        bad.append(('a chunk was yielded before start_response was called', 'chunk_before_start'))
    if sum(1 for s in starts if not s[2]) > 1 or any(not s[2] for s in starts[1:]):
        bad.append(('start_response called again without exc_info: %s' % [(s[0], s[2]) for s in starts],
                    'start_response_twice'))
    if len(starts) > 2:
        bad.append(('start_response called %d times' % len(starts), 'start_response_thrice'))
    for status, headers, _ in starts:
        ok = isinstance(status, str) and STATUS_RE.match(status)
        if ok:
            try:
                status.encode('latin-1')
            except UnicodeError:
                ok = False
        if not ok:
            bad.append(('illegal status %r' % (status,), 'illegal_status'))
        if not isinstance(headers, list):
            bad.append(('headers is %s, not a list' % type(headers).__name__, 'illegal_headers'))
            continue
        for item in headers:
            good = isinstance(item, tuple) and len(item) == 2 and all(isinstance(x, str) for x in item)
            if good:
                try:
                    item[0].encode('latin-1')
                    item[1].encode('latin-1')
                except UnicodeError:
                    good = False
            if not good:
                bad.append(('header pair %r is not a pair of Latin-1 text strings' % (item,), 'illegal_header_pair'))
                break
    for c in obs['chunks']:
        if not isinstance(c, bytes):
            bad.append(('body chunk of type %s' % type(c).__name__, 'non_bytes_chunk'))
            break
    return bad


def leak(obs):
    """(what, signature) when the body carries traceback text / paths / the exception message although the
    last Request object has show_tracebacks false."""
    if not obs['reqs'] or obs['reqs'][-1]['show_tracebacks']:
        return None
    text = b''.join(c for c in obs['chunks'] if isinstance(c, bytes))
    hits = [m for m in LEAK_MARKS if m in text]
    if not hits:
        return None
    starts = obs['starts']
    if starts and starts[0][2] and text.startswith(b'Unrecoverable error in the server.'):
        sig = 'F1:trapper_after_release_shows_traceback'
    elif hits == [pc.MARK.encode()] and b'In addition, the custom error page failed' in text \
            and text.count(pc.MARK.encode()) == text.count((pc.MARK + '-errpage').encode()):
        sig = 'F2:failing_error_page_callable_text'
    else:
        sig = 'traceback_leak'
    return ('show_tracebacks is off but the body contains %s: %r'
            % ([h.decode() for h in hits], text[:160]), sig)


def demand_5xx(plan, obs):
    """Does the statement demand a 5xx answer?  Only when the last raising callback (outside on_end_request, the
    error_page callable and anything after the response started) raised an arbitrary Exception, or the handler's
    return value cannot be turned into a body and nothing raised after the handler."""
    sites = [(s, o) for s, o in obs['sites'] if not s.startswith('hook5.') and s != 'errpage']
    raising = [(i, s, o) for i, (s, o) in enumerate(sites) if o != 'ok']
    if raising:
        i, s, o = raising[-1]
        if o == 'ex':
            if s == 'gen' and plan['reads'] is not None:
                return None
            return 'callback %s raised an Exception' % s
    # handler returned something that is not a legal body
    hidx = [i for i, (s, o) in enumerate(sites) if s == 'handler']
    if hidx and sites[hidx[-1]][1] == 'ok' and not any(i > hidx[-1] for i, _, _ in raising):
        n_req = len(obs['reqs'])
        # which page did the last request address?  the last 'handler' site belongs to the last request
        last_h = [t for t in obs['j'] if t[0] == 'H']
        if last_h and int(last_h[-1][1:]) == n_req - 1:
            pg = page_of_last_request(plan, obs)
            if pg is not None and not (plan['meth'] == 'head' and pg['stream']):
                # (a streamed body is never touched for HEAD: the request simply succeeds)
                shape = pg['handler'][1]
                if shape == 'str' or (shape == 'nonit') or (shape in ('gen0', 'gen1', 'gen2') and not pg['stream']):
                    return 'handler returned %s' % shape
    return None


def page_of_last_request(plan, obs):
    """Follow the internal redirects the journal shows."""
    cur = plan['start']
    n_req = len(obs['reqs'])
    if n_req <= 1:
        return plan['pages'][cur] if cur < len(plan['pages']) else None
    return None     # redirected: no demand from the shape rule (keeps the oracle simple and sound)


def oracle(plan, obs):
    bad = wellformed(obs)
    if obs['escaped'] or not obs['starts']:
        return bad
    why = demand_5xx(plan, obs)
    if why:
        status = obs['starts'][-1][0]
        code = int(status[:3]) if isinstance(status, str) and status[:3].isdigit() else 0
        if code < 500:
            bad.append(('%s but the client was told %r' % (why, status), 'unexpected_failure_not_5xx'))
    lk = leak(obs)
    if lk:
        bad.append(lk)
    return bad


# ----------------------------------------------------------------------------------------------
# stream 2: arbitrary environs, oracle only
# ----------------------------------------------------------------------------------------------
class TotalRoot:
    @cherrypy.expose
    def index(self, *a, **k):
        return b'index'

    @cherrypy.expose
    def echo(self, *args, **kwargs):
        return repr((args, sorted(kwargs.items()))).encode('utf-8')

    @cherrypy.expose
    def text(self, **kwargs):
        return 'text \xe9€'

    @cherrypy.expose
    def one(self, x):
        return b'one'

    @cherrypy.expose
    def gz(self, **kwargs):
        return b'abcdefgh' * 200

    @cherrypy.expose
    def sess(self, **kwargs):
        cherrypy.session['n'] = cherrypy.session.get('n', 0) + 1
        return b'sess'

    @cherrypy.expose
    def stream(self, **kwargs):
        def g():
            yield b'a'
            yield b'b'
        return g()
    stream._cp_config = {'response.stream': True}


_total_app = [None]
_env_reqs = []


class RecRequest(cherrypy._cprequest.Request):
    """Keeps the Request objects of the environ stream so that the oracle can read the attribute the
    statement names (`request.show_tracebacks`) instead of guessing it from the config."""

    def __init__(self, *a, **k):
        cherrypy._cprequest.Request.__init__(self, *a, **k)
        _env_reqs.append(self)


def total_app():
    if _total_app[0] is None:
        pc._configure()
        conf = {'/gz': {'tools.gzip.on': True}, '/sess': {'tools.sessions.on': True},
                '/echo': {'tools.decode.on': True}}
        _total_app[0] = cherrypy.Application(TotalRoot(), '', conf)
        _total_app[0].request_class = RecRequest
    return _total_app[0]


SEGS = ['', 'index', 'echo', 'text', 'one', 'gz', 'sess', 'stream', 'a b', '%41', '\xe9', '\xff\xfe', '..', '.', 'x' * 300,
        'echo/a/b', 'one/1', 'one/1/2', ';', 'a;b=c', '\x00', '\x7f', 'caf\xc3\xa9']
QS = ['', 'a=1', 'a=1&a=2', 'a=%FF', '%', '%zz', '&&', 'x=\xe9', ';', '=', 'a', 'a=b=c', 'x=' + 'y' * 500, '1,2', '1,2x',
      'a=%C3%A9', '\xff', 'a[]=1', 'a=1;b=2']
METHODS = ['GET', 'GET', 'GET', 'HEAD', 'POST', 'POST', 'PUT', 'DELETE', 'OPTIONS', 'TRACE', 'PATCH', 'get', 'FOO', 'M-SEARCH',
           'CONNECT', '']
HDRS = [
    ('HTTP_ACCEPT_CHARSET', ['utf-8', 'iso-8859-1;q=0', '*;q=0', 'nosuch', 'utf-8;q=abc', '']),
    ('HTTP_ACCEPT_ENCODING', ['gzip', 'identity;q=0', '*;q=0', 'gzip;q=x', 'deflate']),
    ('HTTP_ACCEPT', ['text/html', '*/*;q=0', 'garbage', 'a/b;q=2']),
    ('HTTP_RANGE', ['bytes=0-1', 'bytes=abc', 'bytes', 'bytes=-0', 'bytes=5-1', 'items=1-2']),
    ('HTTP_COOKIE', ['a=b', 'a=b; $Path=/', 'a b=c', 'session_id=../../x', '=', 'a="', '\xe9=1']),
    ('HTTP_IF_MODIFIED_SINCE', ['garbage', 'Sat, 29 Oct 1994 19:43:31 GMT', '']),
    ('HTTP_IF_NONE_MATCH', ['*', '"x"', 'garbage']),
    ('HTTP_IF_MATCH', ['*', '"x"']),
    ('HTTP_AUTHORIZATION', ['Basic !!!', 'Digest qop=', 'Basic Zm9vOmJhcg==', 'x']),
    ('HTTP_X_FORWARDED_FOR', ['1.2.3.4', '\xe9\xff']),
    ('HTTP_X_TEXT', ['=?utf-8?q?=FF=FE?=', '=?nosuch?q?abc?=', '=?utf-8?b?!!!?=', 'caf\xe9', 'a' * 2000]),
    ('HTTP_CONTENT_ENCODING', ['gzip']),
    ('HTTP_EXPECT', ['100-continue', 'x']),
    ('HTTP_TRANSFER_ENCODING', ['chunked']),
]
CTYPES = ['application/x-www-form-urlencoded', 'application/x-www-form-urlencoded; charset=nosuch', 'multipart/form-data',
          'multipart/form-data; boundary=XX', 'multipart/form-data; boundary=', 'text/plain', 'text/plain; charset=utf-8',
          'application/json', 'garbage', '', 'multipart/mixed; boundary=XX', 'text/plain; charset="']
BODIES = [b'', b'a=1', b'a=1&a=2', b'a=%FF', b'%', b'\xff\xfe', b'--XX\r\nContent-Disposition: form-data; name="a"\r\n\r\n1\r\n--XX--\r\n',
          b'--XX\r\n\r\n', b'--XX\r\nContent-Disposition: form-data; name="f"; filename="x"\r\n\r\ndata\r\n--XX--', b'{"a": 1}',
          b'x' * 5000, b'--XX', b'--XX\r\nbad header line\r\n\r\nx\r\n--XX--\r\n']


def gen_environ(rng):
    meth = rng.choice(METHODS)
    nseg = rng.choice([0, 1, 1, 1, 2, 3])
    path = '/' + '/'.join(rng.choice(SEGS) for _ in range(nseg)) if rng.random() < 0.95 else rng.choice(['', '*', 'nolead'])
    env = {
        'REQUEST_METHOD': meth, 'SCRIPT_NAME': '', 'PATH_INFO': path, 'QUERY_STRING': rng.choice(QS),
        'SERVER_NAME': 'localhost', 'SERVER_PORT': rng.choice(['80', '8080', '']),
        'SERVER_PROTOCOL': rng.choice(['HTTP/1.1', 'HTTP/1.1', 'HTTP/1.0']),
        'wsgi.version': (1, 0), 'wsgi.url_scheme': rng.choice(['http', 'https']),
        'wsgi.multithread': False, 'wsgi.multiprocess': False, 'wsgi.run_once': False,
    }
    if rng.random() < 0.9:
        env['HTTP_HOST'] = rng.choice(['localhost', 'localhost:80', 'ex\xe9mple', '', 'a b', '[::1]:80'])
    for name, vals in HDRS:
        if rng.random() < 0.18:
            env[name] = rng.choice(vals)
    body = b''
    if meth in ('POST', 'PUT', 'PATCH') or rng.random() < 0.1:
        body = rng.choice(BODIES)
        if rng.random() < 0.85:
            env['CONTENT_TYPE'] = rng.choice(CTYPES)
        r = rng.random()
        if r < 0.7:
            env['CONTENT_LENGTH'] = str(len(body))
        elif r < 0.8:
            env['CONTENT_LENGTH'] = rng.choice(['abc', '-1', '', str(len(body) + 10), '0', '99999999999'])
    tb = rng.choice([0, 1])
    return {'env': env, 'body': body, 'tb': tb}


def run_environ(case):
    app = total_app()
    cherrypy.config.update({'request.show_tracebacks': bool(case['tb'])})
    env = dict(case['env'])
    env['wsgi.input'] = io.BytesIO(case['body'])
    env['wsgi.errors'] = sys.stderr
    starts, chunks, escaped = [], [], None
    flag = {'chunk_before_start': False}
    it = None
    del _env_reqs[:]

    def start_response(status, headers, exc_info=None):
        starts.append((status, headers, exc_info is not None))
        exc_info = None
        return lambda data: None
    try:
        try:
            it = app(env, start_response)
            for c in it:
                if not starts:
                    flag['chunk_before_start'] = True
                chunks.append(c)
        except Exception as e:     # noqa: BLE001
            escaped = 'call/next: %s: %s' % (type(e).__name__, e)
        if it is not None and hasattr(it, 'close'):
            try:
                it.close()
            except Exception as e:     # noqa: BLE001
                escaped = 'close: %s: %s' % (type(e).__name__, e)
    finally:
        try:
            cherrypy.serving.clear()
        except Exception:     # noqa: BLE001
            pass
        try:
            cherrypy.session.cache.clear()
        except Exception:     # noqa: BLE001
            pass
    return {'starts': starts, 'chunks': chunks, 'escaped': escaped, 'chunk_before_start': flag['chunk_before_start'],
            'reqs': [{'show_tracebacks': bool(r.show_tracebacks)} for r in _env_reqs], 'j': [], 'sites': []}


def oracle_environ(case, obs):
    bad = wellformed(obs)
    # "tracebacks switched off" = the attribute of the Request object, as the statement says: a failure before
    # the config is applied (e.g. a 400 from process_headers) still sees the class default
    if not obs['escaped'] and obs['starts'] and obs['reqs'] and not obs['reqs'][-1]['show_tracebacks']:
        text = b''.join(c for c in obs['chunks'] if isinstance(c, bytes))
        hits = [m for m in (b'Traceback (most recent call last)', b'File "/', b'_cprequest.py') if m in text]
        if hits:
            bad.append(('show_tracebacks is off but the body contains %s: %r' % (hits, text[:200]),
                        'traceback_leak_environ'))
    return bad


# ----------------------------------------------------------------------------------------------
# plan stream
# ----------------------------------------------------------------------------------------------
def single_fault_plans(quick):
    """Every single-fault placement x handler shape x show_tracebacks (x stream x method in thorough)."""
    P, B = pc.base_plan, pc.base_page
    outs = ['ex', 'he404', 'hr303', 'ir0'] if quick else ['ex', 'he404', 'he599', 'he399', 'he600', 'hr303', 'hr304', 'hr306',
                                                           'hr200', 'ir0', 'ir1']
    shapes = ['bytes', 'gen1', 'str', 'nonit'] if quick else ['bytes', 'list', 'gen', 'gen0', 'gen1', 'file', 'none', 'str', 'nonit']
    plans = []
    for tb in (0, 1):
        for stream in ((0, 1) if not quick else (0,)):
            for meth in (('get', 'head', 'post') if not quick else ('get',)):
                for sh in shapes:
                    # no fault at all
                    plans.append(P([B(handler=['ok', sh, None], tb=tb, stream=stream)], meth=meth, gtb=tb))
                    for o in outs:
                        for p in range(8):
                            # the error points are only reached when something else failed first
                            h = ['ex', sh, None] if p in (6, 7) else ['ok', sh, None]
                            plans.append(P([B(hooks=[[p, 1, 50, 0, o]], handler=h, tb=tb, stream=stream)], meth=meth, gtb=tb))
                        plans.append(P([B(handler=[o, sh, None], tb=tb, stream=stream)], meth=meth, gtb=tb))
                    if sh == shapes[0]:
                        for o in outs:
                            plans.append(P([B(dispatch=o, tb=tb, stream=stream)], meth=meth, gtb=tb))
                            plans.append(P([B(ns=o, tb=tb, stream=stream)], meth=meth, gtb=tb))
                            plans.append(P([B(body=o, tb=tb, stream=stream)], meth='post', gtb=tb))
                            for ep in ('absent', 'cbOk', 'tmplFail'):
                                plans.append(P([B(handler=['ex', 'bytes', None], errResp=o, errPage=ep, tb=tb, stream=stream)],
                                               meth=meth, gtb=tb))
                        for ep in ('cbOk', 'tmplFail'):
                            for h in (['ex', 'bytes', None], ['he404', 'bytes', None], ['ok', 'bytes', 99]):
                                plans.append(P([B(handler=h, errPage=ep, tb=tb, stream=stream)], meth=meth, gtb=tb))
                        for st in (99, 600, 0, 204, 304, 100, 599):
                            plans.append(P([B(handler=['ok', 'bytes', st], tb=tb, stream=stream)], meth=meth, gtb=tb))
                        plans.append(P([B(tb=tb, stream=stream)], meth=meth, noHost=1, gtb=tb))
                        plans.append(P([B(tb=tb, stream=stream)], meth=meth, badQuery=1, gtb=tb))
    return plans


def in_known_class(plan):
    """Plans in a recorded known-finding class are exercised only through the witness replay (DESIGN 1c)."""
    return any(pg['errPage'] == 'cbFail' and not pg['tb'] for pg in plan['pages'])


def observe(plan):
    obs = pc.run_real(plan)
    return {'j': obs['j'], 'flags': pc.body_flags_real(obs), 'fails': oracle(plan, obs), 'escaped': obs['escaped'],
            'nraise': sum(1 for s, o in obs['sites'] if o != 'ok'),
            'req_tb': obs['reqs'][-1]['show_tracebacks'] if obs['reqs'] else True,
            'status': [s[0] for s in obs['starts']]}


def _observe_chunk(plans):
    return [observe(p) for p in plans]


def check_plans(ctx, plans, compare=True, label='gen'):
    plans = list(plans)
    if not plans:
        return
    CHUNK = 400 if (ctx.quick() and not ctx.searching) else 48000
    if len(plans) > CHUNK:
        for i in range(0, len(plans), CHUNK):
            if len(ctx.oracle_failures) >= 20 or (len(ctx.disagreements) >= 20 and not ctx.searching):
                ctx.note('stopped early after %d failures' % (len(ctx.oracle_failures) + len(ctx.disagreements)))
                return
            check_plans(ctx, plans[i:i + CHUNK], compare=compare, label=label)
        return
    lines = [pc.plan_line(p) for p in plans]
    model = ctx.model(lines) if compare else None
    if len(plans) < 4000:
        results = _observe_chunk(plans)
    else:
        n = 64
        chunks = [plans[i::n] for i in range(n)]
        parts = common.parallel_map(_observe_chunk, chunks)
        results = [None] * len(plans)
        for ci, part in enumerate(parts):
            for k, r in enumerate(part):
                results[ci + k * n] = r
    shrunk = 0
    for idx, (plan, res) in enumerate(zip(plans, results)):
        hd = plan['pages'][plan['start']]['handler'] if plan['start'] < len(plan['pages']) else ['notfound', 'bytes']
        ctx.case({'plan': lines[idx]}, nontrivial=(res['nraise'] > 0 or hd[1] != 'bytes'), key=lines[idx])
        ctx.count('stream:' + label)
        ctx.count('raising_sites:%s' % (res['nraise'] if res['nraise'] < 4 else '4+'))
        for st in res['status'][-1:]:
            ctx.count('status:%sxx' % st[:1])
        if len(res['status']) == 2:
            ctx.count('trapper_midstream')
        if 'bare' in res['flags']:
            ctx.count('bare_error')
        ctx.count('tb:%s' % ('on' if res['req_tb'] else 'off'))
        seen = set()
        for what, sig in res['fails']:
            if sig in seen:
                continue
            seen.add(sig)
            case = {'plan': plan}
            if ctx.match_known(sig) is None and shrunk < 3:
                shrunk += 1
                small = pc.shrink_plan(plan, lambda c: any(s == sig for _, s in oracle(c, pc.run_real(c))))
                fs = [w for w, s in oracle(small, pc.run_real(small)) if s == sig]
                if fs:
                    case, what = {'plan': small, 'shrunk_from': lines[idx]}, fs[0]
            ctx.oracle_fail(case, what, sig)
        if model is not None:
            ctx.compared()
            m = pc.parse_model(model[idx])
            if m['fuel']:
                raise common.HarnessError('model ran out of fuel on %s' % lines[idx])
            unknown_fail = any(ctx.match_known(s) is None for _, s in res['fails'])
            if unknown_fail:
                continue
            if m['j'] != res['j']:
                ctx.disagree({'plan': plan}, ','.join(res['j']), ','.join(m['j']), 'journal (incl. start_response calls) differs')
            elif m['escaped'] != bool(res['escaped']):
                ctx.disagree({'plan': plan}, res['escaped'], m['escaped'], 'escaped differs')
            elif plan['reads'] is None and pc.body_flags_model(m) != res['flags']:
                ctx.disagree({'plan': plan}, res['flags'], pc.body_flags_model(m), 'kind of response entity differs')
            elif m['req_tb'] != res['req_tb']:
                ctx.disagree({'plan': plan}, res['req_tb'], m['req_tb'], "last request's show_tracebacks differs")


def check_environs(ctx, n):
    for _ in range(n):
        case = gen_environ(ctx.rng)
        obs = run_environ(case)
        key = repr(sorted((k, v) for k, v in case['env'].items() if isinstance(v, str))) + repr(case['body'][:40])
        ctx.case({'environ': {k: v for k, v in case['env'].items() if isinstance(v, str)}, 'tb': case['tb']},
                 nontrivial=True, key=key)
        ctx.count('stream:environ')
        if obs['starts']:
            st = obs['starts'][-1][0]
            ctx.count('environ_status:%sxx' % (st[:1] if isinstance(st, str) else '?'))
        for what, sig in oracle_environ(case, obs):
            ctx.oracle_fail({'environ': {k: v for k, v in case['env'].items() if isinstance(v, (str, tuple, bool))},
                             'body_hex': case['body'].hex(), 'tb': case['tb']}, what, sig)


def corpus_plans():
    d = os.path.join(common.CORPUS, PROPERTY)
    out = []
    if os.path.isdir(d):
        for f in sorted(os.listdir(d)):
            if f.endswith('.json'):
                out.append(json.load(open(os.path.join(d, f)))['plan'])
    return out


def run(ctx):
    for e in ctx.known:
        if e.get('status') == 'known':
            check_plans(ctx, [e['witness']['plan']], label='known')
    check_plans(ctx, corpus_plans(), label='corpus')
    singles = single_fault_plans(ctx.quick())
    check_plans(ctx, singles, label='single-fault')
    ctx.extra['exhaustive_single_fault_placements'] = len(singles)
    n = ctx.budget(2500, 120000)
    plans = []
    while len(plans) < n:
        p = pc.gen_plan(ctx.rng, focus=(ctx.rng.randrange(8) if len(plans) % 3 == 0 else None))
        if not in_known_class(p):
            plans.append(p)
    check_plans(ctx, plans, label='random')
    check_environs(ctx, ctx.budget(1500, 40000))


def search(ctx, around=None):
    rng = ctx.rng
    check_plans(ctx, single_fault_plans(False), compare=False, label='search')
    if not ctx.oracle_failures:
        plans = []
        while len(plans) < ctx.budget(12000, 60000):
            p = pc.gen_plan(rng, focus=(rng.randrange(8) if len(plans) % 3 == 0 else None))
            if not in_known_class(p):
                plans.append(p)
        check_plans(ctx, plans, compare=False, label='search')
    if not ctx.oracle_failures:
        check_environs(ctx, 6000)


def replay(ctx, case):
    if 'environ' in case:
        c = {'env': dict(case['environ']), 'body': bytes.fromhex(case.get('body_hex', '')), 'tb': case.get('tb', 0)}
        c['env'].setdefault('wsgi.version', (1, 0))
        for k in ('wsgi.multithread', 'wsgi.multiprocess', 'wsgi.run_once'):
            c['env'].setdefault(k, False)
        obs = run_environ(c)
        print('environ:', c['env'])
        print('impl   :', [(s[0], s[2]) for s in obs['starts']], obs['escaped'], [x[:120] for x in obs['chunks'][:2]])
        for what, sig in oracle_environ(c, obs):
            print('oracle :', sig, '-', what)
            ctx.oracle_fail(case, what, sig)
        return
    plan = case['plan']
    obs = pc.run_real(plan)
    line = pc.plan_line(plan)
    print('plan   :', line)
    print('impl   :', ','.join(obs['j']), pc.body_flags_real(obs), 'escaped=%s' % obs['escaped'])
    m = ctx.model([line])
    if m:
        mm = pc.parse_model(m[0])
        print('model  :', ','.join(mm['j']), pc.body_flags_model(mm), 'escaped=%s' % mm['escaped'])
    for what, sig in oracle(plan, obs):
        print('oracle :', sig, '-', what)
    check_plans(ctx, [plan], label='replay')
