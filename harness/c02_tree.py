"""Object-tree builder, attribute-view serialiser and in-process request runner shared by C02 and C08.

A *tree spec* is plain JSON (so it can live in replay / corpus files):

    {'nodes': [node, ...]}            nodes[0] is the root object
    node = {
      'exp':   None | value           class attribute `exposed` (None = absent; set through cherrypy.expose when True)
      'call':  None | {'exp': v}      the class defines __call__ (a probe); the *instance* mark is 'exp' above
      'falsy': bool                   __bool__ returns False
      'meth':  [[name, {'exp': v, 'alias': [..]|None, 'conf': dict|None}], ...]   real methods (probes)
      'vals':  [[name, json-value], ...]       non-callable attributes
      'kids':  [[name, index], ...]            attributes that are other generated objects
      'disp':  None | dispatcher spec (see make_dispatch)
      'conf':  None | dict                      class attribute _cp_config
      'same_as': j                              (optional) this object is ANOTHER INSTANCE of node j's class: no class
                                                fields of its own ('exp', 'call', 'meth', 'vals', 'disp', 'conf' ignored)
      'imeth': [[name, {'exp': v}], ...]        (optional) probes set on the INSTANCE (setattr), e.g. per-instance verbs
      'ivals': [[name, json-value], ...]        (optional) instance attributes
      'iexp':  value                            (optional) instance attribute `exposed`
    }
  spec['dispatch_name'] (optional): the dispatchers of 'disp' are attached under this name instead of `_cp_dispatch`
  and the Runner builds Dispatcher(dispatch_method_name=…) / MethodDispatcher(…).

Every probe callable records (pid, positional args, sorted keyword names) in the builder's journal;
`pid` is "<node>.<method>" or "<node>()" and doubles as the readable identity in replays.
"""
import io
import string
import sys
import types

from . import common

_INIT = [False]


def cp():
    import cherrypy
    if not _INIT[0]:
        cherrypy.config.update({'environment': 'test_suite', 'log.screen': False})
        _INIT[0] = True
    return cherrypy


def truthy_mark(v):
    return bool(v)


class Built:
    """Real Python objects for a tree spec."""

    def __init__(self, spec, instrument=False, gates=False):
        self.spec = spec
        self.journal = []
        # gates=True (concurrency runs): `self.gate`, when set, is called as gate(kind, info) wherever code of the
        # generated tree runs during a request: 'disp_enter' / 'disp_exit' around every `_cp_dispatch`, 'handler_fn'
        # in a popargs handler function, 'attr' on every attribute read of a generated object (the dispatcher's
        # getattr / hasattr walk and scan), 'probe' when a handler runs.  `tjournal` = journal per thread.
        self.gates = gates
        self.gate = None
        self.tjournal = {} if gates else None
        # instrument=True: every generated `_cp_dispatch` (custom ones and the functions `cherrypy.popargs`
        # returns alike) sits behind a recording wrapper; each call appends
        #   {'node': owner class index, 'self': bound object | None, 'fn': the wrapper, 'before': [..],
        #    'after': [..] | None, 'ret': object, 'raised': exception class name | None,
        #    'hkw': kwargs a callable popargs handler received | None}
        # to `disp_log` (cleared per request by Runner.get).  This is how the oracle learns which segments a
        # dispatcher consumed without any model of the dispatcher.
        self.instrument = instrument
        self.disp_log = []
        self.disp = {}        # id(function) -> descriptor dict (behaviour of a generated _cp_dispatch)
        self.keep = []
        self.objs = []
        self.classes = []
        self.exposed_by_decorator = []   # (node, method name, aliases, function): marked through cherrypy.expose
        self.config_by_decorator = []    # (node, method name, conf, function): attached through cherrypy.config(**conf)
        self._build()

    # -- probes -----------------------------------------------------------------------------
    def _probe(self, pid):
        journal = self.journal

        built = self

        is_call = pid.endswith('()')

        def probe(*a, **kw):
            pid_ = pid
            if a and getattr(a[0], '_gen_node', False) is True:
                if is_call:
                    # `__call__` lives on the class: name the INSTANCE that was called
                    pid_ = '%d()' % getattr(a[0], '_gen_inst', int(pid[:-2]))
                a = a[1:]
            ent = (pid_, [x if isinstance(x, str) else repr(x) for x in a],
                   {k: (v if isinstance(v, str) else repr(v)) for k, v in kw.items()})
            journal.append(ent)
            if built.tjournal is not None:
                import threading
                built.tjournal.setdefault(threading.get_ident(), []).append(ent)
                if built.gate is not None:
                    built.gate('probe', pid)
            return 'ran ' + pid
        probe._pid = pid
        probe.__name__ = 'probe_' + ''.join(c if c.isalnum() else '_' for c in pid)
        return probe

    def _expose(self, f, mark, alias, ns, form='kw'):
        """Mark through `cherrypy.expose` in one of its documented forms:
        bare `@expose`, `@expose()`, `@expose(alias=…)` (str or list), `@expose('alias')` / `@expose([...])`,
        `f = expose(f, alias)`."""
        cherrypy = cp()
        if alias:
            # `expose(alias=…)` writes the aliases into the *calling frame's* locals: run it with `ns`
            # as that frame's locals, exactly as a class body would.
            code = {'kw': 'f = expose(alias=alias)(f0)', 'pos': 'f = expose(alias)(f0)',
                    'func': 'f = expose(f0, alias)'}[form if form in ('kw', 'pos', 'func') else 'kw']
            a = alias if isinstance(alias, str) else list(alias)
            exec(code, {'expose': cherrypy.expose, 'alias': a, 'f0': f}, ns)
            ns.pop('f', None)
            if mark is not True and mark is not None:
                f.exposed = mark
        elif mark is True:
            if form == 'call':
                exec('f = expose()(f0)', {'expose': cherrypy.expose, 'f0': f}, ns)
                ns.pop('f', None)
            else:
                cherrypy.expose(f)
        elif mark is not None:
            f.exposed = mark
        return f

    def _build(self):
        cherrypy = cp()
        nodes = self.spec['nodes']
        # phase 1: classes and instances
        for i, nd in enumerate(nodes):
            if nd.get('same_as') is not None:
                self.classes.append(None)
                self.objs.append(None)
                continue
            ns = {'_gen_node': True, '_gen_id': i}
            for name, m in nd.get('meth', []):
                f = self._probe('%d.%s' % (i, name))
                self._expose(f, m.get('exp'), m.get('alias'), ns, m.get('xform', 'kw'))
                if m.get('alias') or m.get('exp') is True:
                    al = m.get('alias') or []
                    self.exposed_by_decorator.append((i, name, [al] if isinstance(al, str) else list(al), f,
                                                      m.get('exp') is True or m.get('exp') is None))
                want = None
                if m.get('conf') is not None:
                    # the documented way to attach handler config: the `cherrypy.config(**kw)` decorator
                    cherrypy.config(**dict(m['conf']))(f)
                    want = dict(m['conf'])
                if m.get('tooldeco') is not None:
                    # `@cherrypy.tools.<name>(**kw)`: Tool.__call__ turns the tool on in the handler's _cp_config
                    tname, kw = m['tooldeco']
                    getattr(cherrypy.tools, tname)(**dict(kw))(f)
                    want = dict(want or {})
                    want['tools.%s.on' % tname] = True
                    for k, v in kw.items():
                        want['tools.%s.%s' % (tname, k)] = v
                if want is not None:
                    self.config_by_decorator.append((i, name, want, f))
                ns[name] = f
            if nd.get('call') is not None:
                f = self._probe('%d()' % i)
                ns['__call__'] = f
            if self.gates:
                ns['__getattribute__'] = self._gated_getattribute()
            if nd.get('falsy'):
                ns['__bool__'] = lambda self: False
            if nd.get('conf') is not None:
                ns['_cp_config'] = dict(nd['conf'])
            for name, v in nd.get('vals', []):
                ns[name] = v
            cls = type('N%d' % i, (object,), ns)
            exp = nd.get('exp')
            if exp is True:
                cherrypy.expose(cls)
            elif exp is not None:
                cls.exposed = exp
            self.classes.append(cls)
            self.objs.append(cls())
        # phase 1b: further instances of an existing class, instance-level attributes
        for i, nd in enumerate(nodes):
            if nd.get('same_as') is not None:
                j = nd['same_as']
                if nodes[j].get('same_as') is not None or self.classes[j] is None:
                    raise common.HarnessError('same_as must name a node with a class of its own')
                self.classes[i] = self.classes[j]
                self.objs[i] = self.classes[j]()
        for i, nd in enumerate(nodes):
            o = self.objs[i]
            object.__setattr__(o, '_gen_inst', i)
            for name, m in nd.get('imeth', []):
                f = self._probe('%d.%s' % (i, name))
                if m.get('exp') is True:
                    cherrypy.expose(f)
                elif m.get('exp') is not None:
                    f.exposed = m['exp']
                object.__setattr__(o, name, f)
            for name, v in nd.get('ivals', []):
                object.__setattr__(o, name, v)
            if nd.get('iexp') is not None:
                object.__setattr__(o, 'exposed', nd['iexp'])
        # phase 2: wiring
        for i, nd in enumerate(nodes):
            for name, j in nd.get('kids', []):
                setattr(self.objs[i], name, self.objs[j])
            if nd.get('disp') is not None and nd.get('same_as') is None:
                self._make_dispatch(i, nd['disp'])
        self.root = self.objs[0]

    def _target(self, t):
        return None if t is None else self.objs[t]

    def _gated_getattribute(self):
        built = self

        def __getattribute__(self, name):
            g = built.gate
            if g is not None and not name.startswith('_gen'):
                g('attr', name)
            return object.__getattribute__(self, name)
        return __getattribute__

    def _recording(self, owner, inner):
        """`inner` behind a wrapper that records the vpath before and after the call and what came back.
        Called like the dispatcher calls it (`dispatch(vpath=iternames)`, self bound or not)."""
        log = self.disp_log
        built = self

        def _cp_dispatch(*a, **kw):
            vp = kw.get('vpath')
            if not isinstance(vp, list) or len(a) > 1:
                # not the dispatcher's `dispatch(vpath=iternames)` (an exposed `_cp_dispatch` called as a page
                # handler, say): nothing to record
                return inner(*a, **kw)
            import threading
            ent = {'node': owner, 'self': a[0] if a else None, 'fn': _cp_dispatch, 'before': list(vp),
                   'after': None, 'ret': None, 'raised': None, 'hkw': None, 'params': [],
                   'tid': threading.get_ident()}
            log.append(ent)
            try:
                p0 = dict(cp().serving.request.params)
            except Exception:
                p0 = None
            if built.gate is not None:
                built.gate('disp_enter', owner)
            try:
                r = inner(*a, **kw)
            except BaseException as e:
                ent['raised'] = type(e).__name__
                ent['after'] = list(vp)
                raise
            ent['after'] = list(vp)
            ent['ret'] = r
            if built.gate is not None:
                built.gate('disp_exit', owner)
            if p0 is not None:
                try:
                    # what the call put into request.params (update order)
                    ent['params'] = [(k, v) for k, v in cp().serving.request.params.items()
                                     if k not in p0 or p0[k] != v]
                except Exception:
                    ent['params'] = None
            return r
        _cp_dispatch._inner = inner
        return _cp_dispatch

    def _make_dispatch(self, i, d):
        """Attach `_cp_dispatch` to class i.

        {'t': 'popargs_cls',  'n': k}                        @cherrypy.popargs('p0', …) on the class
        {'t': 'popargs_attr', 'n': k, 'h': None | ['obj', j] | ['fn', j|None]}
                                                              _cp_dispatch = cherrypy.popargs(…, handler=…)
        {'t': 'custom', 'pop': k, 'add': [names], 'ret': 'self' | 'peek' | ['fixed', j|None], 'exp': v}
        {'t': 'value', 'v': json}                            a non-callable attribute
        """
        cherrypy = cp()
        cls = self.classes[i]
        t = d['t']
        dname = self.spec.get('dispatch_name') or '_cp_dispatch'
        names = list(d['names']) if d.get('names') is not None else ['p%d' % k for k in range(d.get('n', 0))]
        if t == 'popargs_cls':
            cherrypy.popargs(*names)(cls)
            # the class decorator attaches under Dispatcher.dispatch_method_name
            std = cherrypy.dispatch.Dispatcher.dispatch_method_name
            f = cls.__dict__[std]
            if self.instrument:
                f = self._recording(i, f)
            if dname != std:
                delattr(cls, std)
            setattr(cls, dname, f)
            self.disp[id(f)] = {'kind': 'popargs', 'names': names, 'h': None}
            self.keep.append(f)
        elif t == 'popargs_attr':
            h = d.get('h')
            if h is None:
                f = cherrypy.popargs(*names)
                desc = {'kind': 'popargs', 'names': names, 'h': None}
            elif h[0] == 'obj':
                # a handler object that is not callable is returned as it is
                f = cherrypy.popargs(*names, handler=self.objs[h[1]])
                # popargs decides by hasattr(handler, '__call__')
                if hasattr(self.objs[h[1]], '__call__'):
                    raise common.HarnessError('popargs handler object must not be callable in a spec')
                desc = {'kind': 'popargs', 'names': names, 'h': ['obj', self.objs[h[1]]]}
            else:
                target = self._target(h[1])
                log = self.disp_log

                built = self

                def handler_fn(**parms):
                    import threading
                    tid = threading.get_ident()
                    for ent in reversed(log):
                        if ent.get('tid', tid) == tid:
                            if ent.get('after') is None:
                                ent['hkw'] = dict(parms)
                            break
                    if built.gate is not None:
                        built.gate('handler_fn', i)
                    return target
                f = cherrypy.popargs(*names, handler=handler_fn)
                desc = {'kind': 'popargs', 'names': names, 'h': ['call', target]}
            if self.instrument:
                f = self._recording(i, f)
            setattr(cls, dname, f)
            self.disp[id(f)] = desc
            self.keep.append(f)
        elif t == 'custom':
            pop, add, ret = d.get('pop', 0), list(d.get('add', [])), d.get('ret')
            mut = d.get('mut')
            target = self._target(ret[1]) if isinstance(ret, list) else None

            def _cp_dispatch(self, vpath):
                for _ in range(pop):
                    if vpath:
                        vpath.pop(0)
                vpath[0:0] = add
                # rewrites a dispatcher is not supposed to do (only the table form of the model covers them)
                if mut == 'popback':
                    if vpath:
                        vpath.pop()
                elif mut == 'lower':
                    vpath[:] = [x.lower() for x in vpath]
                elif mut == 'reverse':
                    vpath.reverse()
                elif mut == 'clear':
                    del vpath[:]
                elif mut == 'rename0':
                    if vpath:
                        vpath[0] = 'a'
                elif mut == 'rename1':
                    if len(vpath) > 1:
                        vpath[1] = 'b'
                if ret == 'self':
                    return self
                if ret == 'peek':
                    return getattr(self, vpath[0], None) if vpath else None
                if ret == 'popget':
                    return getattr(self, vpath.pop(0), None) if vpath else self
                return target
            if self.instrument:
                _cp_dispatch = self._recording(i, _cp_dispatch)
            if d.get('exp') is not None:
                _cp_dispatch.exposed = d['exp']
            setattr(cls, dname, _cp_dispatch)
            self.disp[id(_cp_dispatch)] = {'kind': 'custom', 'pop': pop, 'add': add, 'mut': mut,
                                           'ret': ret if isinstance(ret, str) else ['fixed', target]}
            self.keep.append(_cp_dispatch)
        elif t == 'value':
            setattr(cls, dname, d['v'])
        else:
            raise common.HarnessError('unknown dispatcher spec %r' % (d,))


# ------------------------------------------------------------------------------------------------
# the attribute view: what `getattr` & co. answer on the real objects (Python semantics, no CherryPy)
# ------------------------------------------------------------------------------------------------
PUNCT_TABLE = str.maketrans(string.punctuation, '_' * len(string.punctuation))


def enc_text(s):
    return '-' if s == '' else '.'.join(str(ord(c)) for c in s)


def dec_text(s):
    return '' if s in ('-', '') else ''.join(chr(int(x)) for x in s.split('.'))


def enc_val(v):
    if v is None:
        return 'N'
    if v is True:
        return 'T'
    if v is False:
        return 'F'
    if isinstance(v, int):
        return 'i%d' % v
    if isinstance(v, str):
        return 's' + enc_text(v)
    raise common.HarnessError('config value outside the modelled kinds: %r' % (v,))


def enc_conf(c):
    if c is None:
        return '-'
    if not c:
        return 'E'
    return ','.join('%s~%s' % (enc_text(k), enc_val(v)) for k, v in c.items())


_NONE_KEY = ('none',)


class View:
    """Breadth-first serialisation of everything reachable from the root through the names in
    `alphabet` within `maxdepth` getattr steps."""

    def __init__(self, built, alphabet, maxdepth, dispatch_name='_cp_dispatch', extra_roots=()):
        self.built = built
        self.alphabet = list(dict.fromkeys(alphabet))
        self.maxdepth = maxdepth
        self.dispatch_name = dispatch_name
        self.extra_roots = list(extra_roots)    # objects to serialise although no attribute path may lead to them
        self.ids = {}
        self.objs = []
        self.depth = []
        self.keep = []
        self.nodes = []
        self.none_attrs = []
        self._run()

    @staticmethod
    def key(o):
        if isinstance(o, types.MethodType):
            return ('m', id(o.__self__), id(o.__func__))
        s = getattr(o, '__self__', None)
        n = getattr(o, '__name__', None)
        if s is not None and isinstance(n, str) and not isinstance(o, (type, types.ModuleType)):
            return ('w', id(s), n, type(o).__name__)
        return ('o', id(o))

    def visit(self, o, depth):
        k = self.key(o)
        if k in self.ids:
            nid = self.ids[k]
            if depth < self.depth[nid]:
                # reached again on a shorter route: explore again with the larger remaining depth
                self.depth[nid] = depth
                self.queue.append(nid)
            return nid
        nid = len(self.objs)
        self.ids[k] = nid
        self.objs.append(o)
        self.nodes.append(None)
        self.keep.append(o)
        s = getattr(o, '__self__', None)
        if s is not None:
            self.keep.append(s)
        self.depth.append(depth)
        self.queue.append(nid)
        return nid

    def _run(self):
        import collections
        self.queue = collections.deque()
        self.visit(self.built.root, 0)
        for o in self.extra_roots:
            if o is not None:
                self.visit(o, 1)
        # attributes of the None object (getattr(None, name, None) is what the walk does after a miss)
        for name in self.alphabet:
            v = getattr(None, name, None)
            if v is not None:
                self.none_attrs.append((name, self.visit(v, 1)))
        while self.queue:
            i = self.queue.popleft()
            o, d = self.objs[i], self.depth[i]
            node = {'attrs': [], 'disp': '-'}
            try:
                node['truthy'] = bool(o)
            except Exception:
                raise common.HarnessError('truth value of %r raised' % (o,))
            node['callable'] = hasattr(o, '__call__')
            node['exposed'] = bool(getattr(o, 'exposed', False))
            try:
                node['upper'] = [m for m in dir(o) if m.isupper()]
            except Exception:
                node['upper'] = []
            node['conf'] = getattr(o, '_cp_config') if hasattr(o, '_cp_config') else None
            if node['conf'] is not None and not isinstance(node['conf'], dict):
                node['conf'] = None if d > 0 else node['conf']
            f = getattr(o, '__func__', o)
            desc = self.built.disp.get(id(f))
            if desc is not None:
                # a dispatcher hop consumes a segment like an attribute step does: its targets sit one
                # level below the object that owns the dispatcher
                node['disp'] = self._disp(o, f, desc, max(d - 1, 0))
            if d < self.maxdepth:
                for name in self.alphabet:
                    try:
                        v = getattr(o, name, None)
                    except Exception:
                        raise common.HarnessError('getattr(%r, %r) raised' % (o, name))
                    if v is not None:
                        node['attrs'].append((name, self.visit(v, d + 1)))
            self.nodes[i] = node
        self.pid = {}
        for nid, o in enumerate(self.objs):
            p = getattr(o, '_pid', None)
            if isinstance(o, types.MethodType) and isinstance(p, str):
                self.pid[nid] = p                      # bound probe method
            elif isinstance(o, types.FunctionType) and isinstance(p, str):
                self.pid[nid] = p                      # probe function reached through the class
            elif getattr(o, '_gen_node', False) is True and not isinstance(o, type):
                c = type(o).__dict__.get('__call__')
                if c is not None and isinstance(getattr(c, '_pid', None), str):
                    self.pid[nid] = '%d()' % getattr(o, '_gen_inst', int(c._pid[:-2]))     # callable instance

    def _opt(self, o, d):
        return 'N' if o is None else str(self.visit(o, d + 1))

    def _disp(self, o, f, desc, d):
        bound = isinstance(o, types.MethodType)
        if desc['kind'] == 'popargs':
            # `decorated(cls_or_self=None, vpath=None)`: an unbound call simply has self = None
            selfo = o.__self__ if bound else None
            h = desc['h']
            hs = '-' if h is None else ('H' if h[0] == 'obj' else 'C') + self._opt(h[1], d)
            return 'A:%s:%s:%s' % ('+'.join(enc_text(n) for n in desc['names']) or '-', hs, self._opt(selfo, d))
        if not bound:
            return 'R'     # `_cp_dispatch(vpath=…)` without self: TypeError
        if desc.get('mut'):
            return 'U'     # not expressible as pop/add/ret: only the table form of the model covers it
        ret = desc['ret']
        if ret == 'self':
            r = 'S'
        elif ret == 'peek':
            r = 'K'
        elif ret == 'popget':
            r = 'G'
        else:
            r = 'F' + self._opt(ret[1], d)
        add = '+'.join(enc_text(a) for a in desc['add']) or '-'
        return 'P:%d:%s:%s:%s' % (desc['pop'], add, r, self._opt(o.__self__, d))

    # -- line-protocol fields ----------------------------------------------------------------
    def enc_attrs(self, attrs):
        return ','.join('%s=%d' % (enc_text(n), i) for n, i in attrs) or '-'

    def fields(self, nodisp=False):
        """(root, noneattrs, nodes) fields of a driver line (`nodisp`: without the dispatcher descriptors, for
        the table form of the model)."""
        out = []
        for nd in self.nodes:
            if nodisp:
                nd = dict(nd, disp='-')
            flags = ('t' if nd['truthy'] else '') + ('c' if nd['callable'] else '') + ('e' if nd['exposed'] else '')
            conf = nd['conf']
            try:
                cenc = enc_conf(conf)
            except common.HarnessError:
                cenc = '-'
            out.append('|'.join([flags or '-', self.enc_attrs(nd['attrs']),
                                 ','.join(enc_text(u) for u in nd['upper']) or '-', nd['disp'], cenc]))
        return '0', self.enc_attrs(self.none_attrs), ';'.join(out)


def alphabet_for(paths, methods=(), extra=()):
    cherrypy = cp()
    live = cherrypy.dispatch.Dispatcher().translate
    names = ['index', 'default', '_cp_dispatch', cherrypy.dispatch.Dispatcher.dispatch_method_name,
             'GET', 'HEAD']
    for m in methods:
        names.append(m.upper())
    for p in paths:
        for seg in p.split('/'):
            if not seg:
                continue
            names.append(seg)
            names.append(seg.translate(PUNCT_TABLE))
            try:
                t = seg.translate(live)
                if isinstance(t, str):
                    names.append(t)
            except Exception:
                pass
    names += list(extra)
    return [n for n in dict.fromkeys(names) if n]


# ------------------------------------------------------------------------------------------------
# in-process request
# ------------------------------------------------------------------------------------------------
class NoAnswer(BaseException):
    """The request did not finish within the guard time (BaseException: nothing in cherrypy swallows it)."""


def _alarm(signum, frame):
    raise NoAnswer()


class cpu_guard:
    """`with cpu_guard(4.0): …` - NoAnswer is raised inside the block when it uses more CPU time than that."""

    def __init__(self, seconds):
        self.seconds = seconds

    def __enter__(self):
        import signal
        self.old = signal.signal(signal.SIGVTALRM, _alarm)
        signal.setitimer(signal.ITIMER_VIRTUAL, self.seconds)
        return self

    def __exit__(self, *exc):
        import signal
        signal.setitimer(signal.ITIMER_VIRTUAL, 0)
        signal.signal(signal.SIGVTALRM, self.old)
        return False


class Runner:
    """One mounted `cherrypy.Application` for a built tree; `get()` sends one request through WSGI."""

    def __init__(self, built, kind='D', sections=None, hooks=None, front=None):
        """`front`: None | ['vhost', {host: prefix}, use_x_forwarded_host] | ['xmlrpc'] - a dispatcher wrapper
        from cherrypy._cpdispatch in front of the recorded default / method dispatcher."""
        cherrypy = cp()
        self.built = built
        self.seen_path = []
        self.seen_outer = []
        self.kind = kind
        dname = built.spec.get('dispatch_name')
        if dname:
            inner = cherrypy.dispatch.MethodDispatcher(dname) if kind == 'M' else cherrypy.dispatch.Dispatcher(dname)
        else:
            inner = cherrypy.dispatch.MethodDispatcher() if kind == 'M' else cherrypy.dispatch.Dispatcher()
        seen = self.seen_path
        outer_seen = self.seen_outer

        self.requests = []
        reqs = self.requests

        self.tseen = {}
        tseen = self.tseen

        def inner_recording(path_info):
            seen.append(path_info)
            if built.tjournal is not None:
                import threading
                tseen.setdefault(threading.get_ident(), []).append(path_info)
            reqs.append(cherrypy.serving.request)
            return inner(path_info)
        recording_dispatch = inner_recording
        if front is not None:
            if front[0] == 'vhost':
                wrapped = cherrypy.dispatch.VirtualHost(next_dispatcher=inner_recording,
                                                        use_x_forwarded_host=bool(front[2]), **dict(front[1]))
            elif front[0] == 'xmlrpc':
                wrapped = cherrypy.dispatch.XMLRPCDispatcher(next_dispatcher=inner_recording)
            else:
                raise common.HarnessError('unknown dispatcher front %r' % (front,))

            def recording_dispatch(path_info):
                outer_seen.append(path_info)
                return wrapped(path_info)
        conf = {}
        for k, v in (sections or {}).items():
            conf[k] = dict(v)
        root_sec = conf.setdefault('/', {})
        root_sec['request.dispatch'] = recording_dispatch
        root_sec.setdefault('tools.trailing_slash.on', False)
        self.app = cherrypy.Application(built.root, '', conf)
        self.app.log.screen = False
        self.app.log.error_file = ''
        self.app.log.access_file = ''

    def get(self, path, method='GET', query='', req_body=None, headers=None):
        self.built.journal[:] = []
        self.built.disp_log[:] = []
        self.seen_path[:] = []
        self.seen_outer[:] = []
        self.requests[:] = []
        environ = {
            'REQUEST_METHOD': method, 'SCRIPT_NAME': '', 'PATH_INFO': path, 'QUERY_STRING': query,
            'SERVER_NAME': 'localhost', 'SERVER_PORT': '80', 'SERVER_PROTOCOL': 'HTTP/1.1',
            'CONTENT_LENGTH': '0', 'wsgi.version': (1, 0), 'wsgi.url_scheme': 'http',
            'wsgi.input': io.BytesIO(b''), 'wsgi.errors': io.StringIO(), 'wsgi.multithread': False,
            'wsgi.multiprocess': False, 'wsgi.run_once': False, 'wsgi.url_encoding': 'utf-8',
            'REMOTE_ADDR': '127.0.0.1', 'HTTP_HOST': 'localhost',
        }
        if req_body is not None:
            environ['CONTENT_LENGTH'] = str(len(req_body))
            environ['CONTENT_TYPE'] = 'application/x-www-form-urlencoded'
            environ['wsgi.input'] = io.BytesIO(req_body)
        for k, v in (headers or {}).items():
            environ[k] = v
        got = {}

        def start_response(status, headers, exc_info=None):
            got['status'] = status
            got['headers'] = headers
        import signal
        # CPU time of this process, so a loaded machine cannot fake a hang
        old = signal.signal(signal.SIGVTALRM, _alarm)
        signal.setitimer(signal.ITIMER_VIRTUAL, 4.0)
        try:
            try:
                res = self.app(environ, start_response)
                try:
                    body = b''.join(res)
                finally:
                    if hasattr(res, 'close'):
                        res.close()
            finally:
                signal.setitimer(signal.ITIMER_VIRTUAL, 0)
                signal.signal(signal.SIGVTALRM, old)
        except NoAnswer:
            import gc
            gc.collect()
            return {'status': 0, 'ran': [[p, a] for p, a, kw in self.built.journal], 'kwargs': [], 'allow': None,
                    'path_info': self.seen_path[0] if self.seen_path else None, 'body': b'', 'hang': True,
                    'disp_log': list(self.built.disp_log)}
        except Exception as e:
            # the WSGI application let an exception out (it never does on the unchanged tree): an observation
            got['status'] = '599 %s' % type(e).__name__
            got.setdefault('headers', [])
            body = b''
        if 'status' not in got:
            got['status'] = '598 start_response was not called'
            got.setdefault('headers', [])
        allow = None
        for k, v in got.get('headers', []):
            if k.lower() == 'allow':
                allow = v
        return {
            'status': int(got['status'].split()[0]),
            'ran': [[p, a] for p, a, kw in self.built.journal],
            'kwargs': [kw for p, a, kw in self.built.journal],
            'allow': allow,
            'path_info': self.seen_path[0] if self.seen_path else None,
            'body': body,
            'headers': list(got.get('headers', [])),
            'disp_log': list(self.built.disp_log),
            'outer_path': self.seen_outer[0] if self.seen_outer else None,
        }


def get_in_thread(runner, path, method='GET', query='', req_body=None, headers=None):
    """Runner.get for a worker thread of a concurrency run: no signal-based guard (signals belong to the main
    thread), nothing shared is cleared; the observation is assembled from what THIS thread recorded
    (`Built(…, gates=True)` keeps journal / dispatcher log / seen paths per thread)."""
    import threading
    built = runner.built
    tid = threading.get_ident()
    built.tjournal[tid] = []
    runner.tseen[tid] = []
    environ = {
        'REQUEST_METHOD': method, 'SCRIPT_NAME': '', 'PATH_INFO': path, 'QUERY_STRING': query,
        'SERVER_NAME': 'localhost', 'SERVER_PORT': '80', 'SERVER_PROTOCOL': 'HTTP/1.1',
        'CONTENT_LENGTH': '0', 'wsgi.version': (1, 0), 'wsgi.url_scheme': 'http',
        'wsgi.input': io.BytesIO(b''), 'wsgi.errors': io.StringIO(), 'wsgi.multithread': True,
        'wsgi.multiprocess': False, 'wsgi.run_once': False, 'wsgi.url_encoding': 'utf-8',
        'REMOTE_ADDR': '127.0.0.1', 'HTTP_HOST': 'localhost',
    }
    if req_body is not None:
        environ['CONTENT_LENGTH'] = str(len(req_body))
        environ['CONTENT_TYPE'] = 'application/x-www-form-urlencoded'
        environ['wsgi.input'] = io.BytesIO(req_body)
    for k, v in (headers or {}).items():
        environ[k] = v
    got = {}

    def start_response(status, headers, exc_info=None):
        got['status'] = status
        got['headers'] = headers
    n0 = len(built.disp_log)
    try:
        res = runner.app(environ, start_response)
        try:
            b''.join(res)
        finally:
            if hasattr(res, 'close'):
                res.close()
    except Exception as e:
        got['status'] = '599 %s' % type(e).__name__
        got.setdefault('headers', [])
    if 'status' not in got:
        got['status'] = '598 start_response was not called'
        got.setdefault('headers', [])
    allow = None
    for k, v in got.get('headers', []):
        if k.lower() == 'allow':
            allow = v
    journal = list(built.tjournal.get(tid, []))
    seen = runner.tseen.get(tid, [])
    return {
        'status': int(got['status'].split()[0]),
        'ran': [[p, a] for p, a, kw in journal],
        'kwargs': [kw for p, a, kw in journal],
        'allow': allow,
        'path_info': seen[0] if seen else None,
        'disp_log': [e for e in built.disp_log[n0:] if e.get('tid') == tid],
    }


def obj_for_pid(built, pid):
    """The real callable behind a probe id (for the oracle's exposed test)."""
    node, _, meth = pid.partition('.')
    if pid.endswith('()'):
        return built.objs[int(pid[:-2])]
    return getattr(built.objs[int(node)], meth, None) if meth in dir(built.objs[int(node)]) else \
        built.classes[int(node)].__dict__.get(meth)
