"""C06 - real-code runner: one case = one handler/tool configuration + a short request history,
driven through the in-process WSGI callable of a real cherrypy.Application, with bytes counted at
the WSGI boundary by a PEP-3333 server emulation.

Case format (JSON):
  {"body": "<K>:<chunk>,<chunk>,...",   K in B S N L G F X J, chunks  b<hex> | t<cp.cp..> | n<hex>/<hex>.. | r
   "st":   "-" | "s<code>" | "e<code>" | "r<code>" | "x" | "i",
   "hcl":  0|1            handler sets Content-Length to the byte length of its (all-bytes) body
   "hstream": 0|1         handler sets response.stream = True
   "ct":   "html"|"plain"|"json"|"octet"
   "tools": [...]         subset of encode gzip etags caching expires flatten stream json
   "page": "tmpl"|"short"|"empty"|"long"
   "reqs": [{"m": "GET", "ae": "-", "inm": "-", "im": "-", "ac": "-", "range": "-"}, ...]}
"""
import io
import os
import tempfile

from . import common  # noqa: F401  (sets sys.path for CHERRYPY_REPO before cherrypy is imported)

import cherrypy
from cherrypy.lib import static as _static
from cherrypy.lib import caching as _caching
from cherrypy.lib import httputil as _httputil

_INIT = {'done': False, 'tmp': None}
CLOCK_BASE = 1000000000


class FakeTime(object):
    """Logical clock installed as the module global `time` of cherrypy._cprequest (Response.time) and
    cherrypy.lib.caching (the sweeper).  `sleep` parks the cache's sweeper thread for good, so that expiry is
    decided by caching.get's own age test only (deterministic)."""

    def __init__(self):
        self.now = float(CLOCK_BASE)

    def time(self):
        return self.now

    def sleep(self, secs):
        import threading
        threading.Event().wait()

    def __getattr__(self, name):
        import time as _t
        return getattr(_t, name)


CLOCK = FakeTime()
CC = {'-': None, 'nocache': ('Cache-Control', 'no-cache'), 'pragma': ('Pragma', 'no-cache'),
      'nostore': ('Cache-Control', 'no-store'), 'badmaxage': ('Cache-Control', 'max-age=abc')}
CUR = {}
REC = {}

PAGES = {'short': b'oops', 'empty': b'', 'long': b'E' * 600, 'str': 'o\xf6ps'.encode('utf-8'),
         'iter': [b'oo', b'', 'p\xe9s'.encode('utf-8')]}
TMPL_PAGES = ('tmpl', 'raise', 'int', 'file')     # kinds that end in a template the model does not know
CTS = {'html': 'text/html', 'plain': 'text/plain', 'json': 'application/json',
       'octet': 'application/octet-stream', 'xml': 'text/xml'}
AE = {'-': None, 'gzip': 'gzip', 'xgzip': 'x-gzip;q=0.5', 'identity': 'identity', 'gzipq0': 'gzip;q=0',
      'other': 'compress', 'idq0': 'identity;q=0'}
AC = {'-': None, 'utf8': 'utf-8', 'latin1': 'iso-8859-1', 'ascii': 'us-ascii', 'star': '*',
      'ascii2': 'us-ascii, us-ascii;q=0.5', 'l1u8': 'iso-8859-1, *;q=0.7, utf-8;q=0.5',
      'utf16': 'utf-16', 'bogus': 'x-nosuch'}


def parse_body(s):
    kind, _, rest = s.partition(':')
    chunks = []
    for tok in [t for t in rest.split(',') if t]:
        if tok[0] == 'b':
            chunks.append(('b', bytes.fromhex(tok[1:])))
        elif tok[0] == 't':
            chunks.append(('t', ''.join(chr(int(x)) for x in tok[1:].split('.') if x)))
        elif tok[0] == 'n':
            leaves = []
            for x in tok[1:].split('/'):
                if x == '':
                    continue
                if x == 'R':
                    leaves.append(('r', None))
                elif x[0] == 'T':
                    leaves.append(('t', ''.join(chr(int(y)) for y in x[1:].split('.') if y)))
                else:
                    leaves.append(('b', bytes.fromhex(x)))
            chunks.append(('n', leaves))
        elif tok[0] == 'r':
            chunks.append(('r', None))
        else:
            raise common.HarnessError('bad chunk token %r' % tok)
    return kind, chunks


class _Boom(Exception):
    pass


U8 = ' caf\xe9 \u4e2d\u6587 \U0001F600'


def _msg(text):
    """the text of an exception / message of the test application: with ext u8 it carries multi-byte characters, so
    that every page the framework builds around it (error template with traceback, bare_error, the appended note
    of a failing custom page, XML-RPC faults) has more bytes than characters"""
    if (CUR.get('case') or {}).get('ext', {}).get('u8'):
        return text + U8
    return text


def _target():
    return '/targ\xe9t-\u4e2d' if (CUR.get('case') or {}).get('ext', {}).get('u8') else '/target'


def _nest(leaves):
    """A nested generator as deep as it has leaves: it yields its first leaf and then, if there are more, a
    generator over the rest (bytes / str leaves; a raising leaf raises inside the generator that reaches it)."""
    for i, (k, x) in enumerate(leaves):
        if i >= 1:
            yield _nest(leaves[i:])
            return
        if k == 'r':
            raise _Boom(_msg('nested generator failed'))
        yield x


def _gen(chunks):
    for k, v in chunks:
        if k == 'b' or k == 't':
            yield v
        elif k == 'n':
            yield _nest(list(v))
        elif k == 'r':
            raise _Boom(_msg('handler generator failed'))


class _ClosableIter(object):
    """an iterator object (not a generator) whose close() fails: what a database cursor / network stream
    wrapped by application code can do"""

    def __init__(self, chunks):
        self._it = _gen(chunks)

    def __iter__(self):
        return self

    def __next__(self):
        return next(self._it)

    def close(self):
        raise _Boom(_msg('close failed'))


class _Reader(object):
    """a readable object without fileno() (serve_fileobj cannot tell its length either)"""

    def __init__(self, data):
        self._b = io.BytesIO(data)

    def read(self, n=-1):
        return self._b.read(n)


class _ShortReads(object):
    """an open file seen through a wrapper that has fileno() (so serve_fileobj knows the length) and, as raw /
    paced / pipe-like streams legally do, returns at most `cap` bytes per read() whatever was asked for"""

    def __init__(self, f, cap=97):
        self._f = f
        self._cap = cap

    def fileno(self):
        return self._f.fileno()

    def read(self, n=-1):
        if n is None or n < 0 or n > self._cap:
            n = self._cap
        return self._f.read(n)

    def seek(self, *a):
        return self._f.seek(*a)

    def tell(self):
        return self._f.tell()

    def close(self):
        return self._f.close()


def make_body(kind, chunks):
    if kind == 'K':
        return _ClosableIter(chunks)
    if kind == 'B':
        return chunks[0][1] if chunks else b''
    if kind == 'S':
        return chunks[0][1] if chunks else ''
    if kind == 'N':
        return None
    if kind == 'L':
        out = []
        for k, v in chunks:
            out.append(_nest(list(v)) if k == 'n' else v)
        return out
    if kind == 'G':
        return _gen(chunks)
    if kind == 'F':
        return io.BytesIO(b''.join(v for k, v in chunks))
    if kind == 'Y':
        fo = CUR['case'].get('ext', {}).get('fo')
        data = b''.join(v for k, v in chunks)
        return _static.serve_fileobj(_Reader(data) if fo else io.BytesIO(data),
                                     content_type=CTS[CUR['case'].get('ct', 'html')],
                                     disposition='inline' if fo else None)
    if kind == 'J':
        return {'k': [v.decode('latin-1') for k, v in chunks]}
    raise common.HarnessError('bad body kind %r' % kind)


def byte_len(chunks):
    return sum(len(v) for k, v in chunks if k == 'b')


def own_length(case, chunks):
    """The Content-Length the handler sets itself: hcl=1 the byte length of its bytes chunks,
    hcl='u' the length of its chunks with text encoded as UTF-8 (a handler that assumes UTF-8)."""
    if case.get('hcl') == 'u':
        return sum(len(v.encode('utf-8')) if k == 't' else len(v) for k, v in chunks if k in 'bt')
    return byte_len(chunks)


STATIC_MTIME = 1000000000          # every file the runner serves carries this modification time
SF_DATA = b'static tool file: 0123456789abcdefghijklmnopqrstuvwxyz'


def sf_data(case):
    """the file tools.staticfile serves: ext sf = 1 -> SF_DATA, sf = n > 1 -> n bytes"""
    n = int((case.get('ext') or {}).get('sf') or 0)
    if n <= 1:
        return SF_DATA
    return (SF_DATA * (n // len(SF_DATA) + 1))[:n]


EXT = {'html': 'html', 'plain': 'txt', 'json': 'json', 'octet': 'bin', 'xml': 'xml'}


def static_path(case, which):
    """one file per worker process and purpose (workers are forked after init and share the directory); the
    extension selects the Content-Type `serve_file` guesses"""
    return os.path.join(_INIT['tmp'], '%s-%d.%s' % (which, os.getpid(), EXT[case.get('ct', 'html')]))


def write_static(path, data):
    if _INIT.setdefault('written', {}).get(path) != data:
        with open(path, 'wb') as f:
            f.write(data)
        _INIT['written'][path] = data
    os.utime(path, (STATIC_MTIME, STATIC_MTIME))


def _handle():
    """the page handler of every resource of the test application"""
    c = CUR['case']
    resp = cherrypy.serving.response
    gen = CUR['gen']
    CUR['gen'] = gen + 1
    kind, chunks = CUR['bodies'][min(gen, len(CUR['bodies']) - 1)]
    CUR['body'] = (kind, chunks)
    resp.headers['Content-Type'] = CTS[c.get('ct', 'html')]
    if c.get('hstream'):
        resp.stream = True
    if c.get('ext', {}).get('te'):
        resp.headers['Transfer-Encoding'] = 'chunked'
    st = c.get('st', '-')
    if kind == 'X':
        path = static_path(c, 'f')
        data = b''.join(v for k, v in chunks)
        write_static(path, data)
        ctype = CTS[c.get('ct', 'html')]
        if c.get('hcl'):
            resp.headers['Content-Length'] = str(len(data))
        if st[0] == 's':
            resp.status = int(st[1:])
        if c.get('ext', {}).get('fo'):
            # the same entity through serve_fileobj on an open file (length from fstat) as an attachment
            f = open(path, 'rb')
            if int(c['ext']['fo']) == 2:
                f = _ShortReads(f)       # fo = 2: the same, read through an object whose reads come back short
            return _static.serve_fileobj(f, content_type=ctype, disposition='attachment',
                                         name='d\xe9p\xf4t.txt')
        return _static.serve_file(path, content_type=ctype)
    if c.get('hcl'):
        resp.headers['Content-Length'] = str(own_length(c, chunks))
    if st[0] == 's':
        resp.status = int(st[1:])
    elif st == 'i':
        resp.status = 'bogus status'
    elif st[0] == 'e':
        if c.get('ext', {}).get('emsg'):
            raise cherrypy.HTTPError(int(st[1:]), 'custom m\xe9ssage \u20ac <b>&</b> ' + 'x' * 40)
        raise cherrypy.HTTPError(int(st[1:]))
    elif st == 'r0':
        raise cherrypy.HTTPRedirect(_target())
    elif st[0] == 'r':
        raise cherrypy.HTTPRedirect(_target(), int(st[1:]))
    elif st == 'x':
        raise _Boom(chunks[0][1] if kind == 'R' and chunks else _msg('handler failed'))
    if kind == 'R':
        return chunks[0][1] if chunks else ''
    return make_body(kind, chunks)


class Sub(object):
    @cherrypy.expose
    def index(self, **kw):
        return _handle()

    @cherrypy.expose
    def leaf(self, **kw):
        return _handle()


class Rpc(cherrypy._cptools.XMLRPCController):
    @cherrypy.expose
    def m(self, *a, **kw):
        return _handle()


class MdRes(object):
    """ext md: the same handler as a MethodDispatcher resource that defines GET and POST but no HEAD; the case's
    tools are switched on in the _cp_config of the verb methods themselves, not in the path's config section"""
    exposed = True

    def GET(self, **kw):
        return _handle()

    def POST(self, **kw):
        return _handle()


class Root(object):
    sub = Sub()
    rpc = Rpc()
    md = MdRes()

    @cherrypy.expose
    def index(self, **kw):
        return _handle()

    @cherrypy.expose
    def target(self):
        return b'target'


def xmlrpc_texts(text):
    """(marshalled result, marshalled fault) for an XML-RPC method that returns / raises with `text`:
    the marshaller is a parameter of the model"""
    from xmlrpc.client import dumps, Fault
    return (dumps((text,), methodresponse=1, encoding='utf-8', allow_none=0), dumps(Fault(1, text)))


def _error_page(**kwargs):
    kind = CUR['case'].get('page', 'tmpl')
    if kind == 'str':
        return 'o\xf6ps'
    if kind == 'iter':
        return (x for x in ['oo', b'', 'p\xe9s'])   # str and bytes chunks: wrapped in UTF8StreamEncoder
    if kind == 'raise':
        raise _Boom(_msg('error page failed'))            # -> built-in template + appended note
    if kind == 'int':
        return 5                                    # -> ValueError inside get_error_page -> same fallback
    return PAGES[kind]


def _failing_error_response():
    raise _Boom(_msg('error_response failed'))


ER_BODY = b'custom error response'


def _custom_error_response():
    """a `request.error_response` that follows the rule: status, body, and no stale Content-Length"""
    resp = cherrypy.serving.response
    resp.status = int(CUR['case']['ext']['er'][1:])
    resp.body = ER_BODY
    resp.headers.pop('Content-Length', None)


def _redirecting_error_response():
    raise cherrypy.HTTPRedirect(_target(), int(CUR['case']['ext']['er'][1:]))


def _record_stream():
    REC['stream'] = bool(cherrypy.serving.response.stream)
    REC['cached'] = bool(getattr(cherrypy.serving.request, 'cached', False))


def parse_hook(spec):
    """'<prio>:<act>:<once>' -> (prio, act, once)"""
    prio, act, once = spec.split(':')
    return int(prio), act, once == '1'


def _probe():
    """A user-supplied before_finalize hook: raises, rewrites the body by the rule, or sets the status."""
    spec = CUR['case'].get('hook', '-')
    if spec == '-':
        return
    prio, act, once = parse_hook(spec)
    if once and REC.get('probe_fired'):
        return
    REC['probe_fired'] = True
    resp = cherrypy.serving.response
    if act == 'x':
        raise _Boom(_msg('hook failed'))
    if act[0] == 'e':
        raise cherrypy.HTTPError(int(act[1:]))
    if act[0] == 'r':
        raise cherrypy.HTTPRedirect(_target(), int(act[1:]))
    if act[0] == 's':
        resp.status = int(act[1:])
    elif act[0] == 'w':
        resp.body = bytes.fromhex(act[1:])
        resp.headers.pop('Content-Length', None)


def _record_etag():
    # the entity tag validate_etags (priority 75) saw when it evaluated the conditions
    REC.setdefault('etag_seen', cherrypy.serving.response.headers.get('ETag'))


def init():
    if _INIT['done']:
        return
    cherrypy.config.update({'environment': 'test_suite', 'log.screen': False,
                            'request.show_tracebacks': False})
    cherrypy.log.error_log.propagate = False
    cherrypy.log.access_log.propagate = False
    cherrypy.log.error_log.disabled = True
    cherrypy.log.access_log.disabled = True
    _INIT['tmp'] = tempfile.mkdtemp(prefix='c06-')
    import atexit
    import shutil
    atexit.register(shutil.rmtree, _INIT['tmp'], True)
    _INIT['tmplfile'] = os.path.join(_INIT['tmp'], 'error.html')
    with open(_INIT['tmplfile'], 'w') as f:
        f.write('<html><body><h1>%(status)s</h1><p>%(message)s</p><pre>%(traceback)s</pre>'
                '<i>%(version)s</i></body></html>\n')
    # one process-wide cache object (its constructor starts a sweeper thread): cleared per case
    cherrypy.tools.c06probe = cherrypy.Tool('before_finalize', _probe, priority=60)
    cherrypy._cprequest.time = CLOCK
    _caching.time = CLOCK
    cherrypy._cache = _caching.MemoryCache()
    cherrypy._cache.antistampede_timeout = None
    _INIT['done'] = True


def make_app(case):
    tools = set(case.get('tools', []))
    conf = {
        'request.show_tracebacks': False,
        'hooks.on_end_resource': cherrypy._cprequest.Hook(_record_stream, failsafe=True, priority=99),
        'hooks.before_finalize': cherrypy._cprequest.Hook(_record_etag, priority=76),
    }
    ext = case.get('ext') or {}
    if ext.get('av'):
        conf['tools.autovary.on'] = True             # (before tools.accept: its before_finalize hook is attached
        #                                               at on_start_resource, where tools.accept may refuse)
    if ext.get('acc'):
        conf['tools.accept.on'] = True
        conf['tools.accept.media'] = 'text/html'
    if ext.get('rh'):
        hl = [('Content-Length', str(own_length(case, CUR['bodies'][0][1])))]
        conf['tools.response_headers.on'] = True
        conf['tools.response_headers.headers'] = hl
    if ext.get('jin'):
        conf['tools.json_in.on'] = True
    conf['tools.trailing_slash.extra'] = True
    if ext.get('noslash'):
        conf['tools.trailing_slash.on'] = False
    if ext.get('sf'):
        conf['tools.staticfile.on'] = True
        conf['tools.staticfile.filename'] = static_path(case, 'sf')
        conf['tools.staticfile.content_types'] = {EXT[case.get('ct', 'html')]: CTS[case.get('ct', 'html')]}
    if ext.get('tb'):
        conf['request.show_tracebacks'] = True
    if ext.get('throw'):
        conf['request.throw_errors'] = True       # errors reach the WSGI exception trapper (its own bare 500)
    conf['tools.encode.on'] = 'encode' in tools     # (the global default is on)
    if ext.get('encu') and 'encode' in tools:
        conf['tools.encode.encoding'] = 'utf-8'
    if 'gzip' in tools:
        conf['tools.gzip.on'] = True
        if ext.get('gzl'):
            conf['tools.gzip.compress_level'] = int(ext['gzl'])
    if 'etags' in tools:
        conf['tools.etags.on'] = True
        conf['tools.etags.autotags'] = True
    if 'caching' in tools:
        conf['tools.caching.on'] = True
    if 'expires' in tools:
        import datetime
        secs, force = {0: (60, True), 1: (0, True), 2: (datetime.timedelta(seconds=60), False),
                       3: (0, False)}[int(ext.get('xp', 0))]
        conf['tools.expires.on'] = True
        conf['tools.expires.secs'] = secs
        conf['tools.expires.force'] = force
    if 'flatten' in tools:
        conf['tools.flatten.on'] = True
    if ext.get('sess'):
        conf['tools.sessions.on'] = True          # (after expires / flatten: sessions.save has their priority)
    if 'stream' in tools:
        conf['response.stream'] = True
    if 'errfails' in tools:
        conf['request.error_response'] = _failing_error_response
    elif str(ext.get('er', '-'))[0] == 'c':
        conf['request.error_response'] = _custom_error_response
    elif str(ext.get('er', '-'))[0] == 'r':
        conf['request.error_response'] = _redirecting_error_response
    if case['body'].startswith('J:'):
        conf['tools.json_out.on'] = True
    if case.get('hook', '-') != '-':
        conf['tools.c06probe.on'] = True
        conf['tools.c06probe.priority'] = parse_hook(case['hook'])[0]
    if case.get('page', 'tmpl') == 'file':
        conf['error_page.default'] = _INIT['tmplfile']
    elif case.get('page', 'tmpl') != 'tmpl':
        conf['error_page.default'] = _error_page
    # one Application per process, re-configured per case (every new Application registers two more
    # loggers, and logging.setLevel walks all of them)
    app = _INIT.get('app')
    if app is None or _INIT.get('app_pid') != os.getpid():
        app = _INIT['app'] = cherrypy.Application(Root(), '', {})
        _INIT['app_pid'] = os.getpid()
    app.config = {}
    MdRes.GET._cp_config = MdRes.POST._cp_config = {}
    if ext.get('md'):
        toolconf = {k: v for k, v in conf.items() if k.startswith('tools.')}
        MdRes.GET._cp_config = MdRes.POST._cp_config = toolconf
        app.merge({'/': {k: v for k, v in conf.items() if k not in toolconf},
                   '/md': {'request.dispatch': cherrypy.dispatch.MethodDispatcher()}})
    else:
        app.merge({'/': conf})
    return app


JSON_OK = b'{"a": [1, 2, 3]}'
JSON_BAD = b'{"a": [1, 2'


def environ_for(req, case=None):
    case = case or {}
    kindR = str(case.get('body', '')).startswith('R:')
    # ns = 1: an index resource without its slash; ns = 2: a non-index one with a slash too many
    # ns = 3: a path nothing is mounted at, with multi-byte characters (echoed in the 404 page); PATH_INFO carries the
    # UTF-8 bytes as latin-1 characters (PEP 3333)
    md = bool((case.get('ext') or {}).get('md')) and not int(req.get('ns', 0))
    path = '/rpc' if kindR else '/md' if md else {0: '/', 1: '/sub', 2: '/sub/leaf/',
                                 3: '/nosuch-\xe9-\u4e2d\u6587'.encode('utf-8').decode('latin-1')}[int(req.get('ns', 0))]
    env = {
        'REQUEST_METHOD': req.get('m', 'GET'), 'SCRIPT_NAME': '', 'PATH_INFO': path,
        'QUERY_STRING': '', 'SERVER_PROTOCOL': 'HTTP/1.0' if str(req.get('proto', '11')) == '10' else 'HTTP/1.1',
        'SERVER_NAME': '127.0.0.1',
        'SERVER_PORT': '80', 'REMOTE_ADDR': '127.0.0.1', 'REMOTE_PORT': '1111',
        'HTTP_HOST': '127.0.0.1', 'wsgi.version': (1, 0), 'wsgi.url_scheme': 'http',
        'wsgi.input': io.BytesIO(b''), 'wsgi.errors': io.StringIO(),
        'wsgi.multithread': False, 'wsgi.multiprocess': False, 'wsgi.run_once': False,
    }
    if kindR:
        from xmlrpc.client import dumps
        body = dumps((), 'm').encode('utf-8')
        env['wsgi.input'] = io.BytesIO(body)
        env['CONTENT_LENGTH'] = str(len(body))
        env['CONTENT_TYPE'] = 'text/xml'
    elif req.get('m') == 'POST':
        ent = req.get('ent', '-')
        if ent == '-':
            env['CONTENT_LENGTH'] = '0'
            env['CONTENT_TYPE'] = 'application/x-www-form-urlencoded'
        else:
            body = JSON_BAD if ent == 'bad' else JSON_OK
            env['wsgi.input'] = io.BytesIO(body)
            env['CONTENT_TYPE'] = 'application/json'
            if ent != 'nolen':
                env['CONTENT_LENGTH'] = str(len(body))
    if not int(req.get('acc', 1)):
        env['HTTP_ACCEPT'] = 'application/x-nosuch, image/*;q=0.5'
    elif int(req.get('acc', 1)) == 2:
        env['HTTP_ACCEPT'] = 'text/*;q=0.8, application/x-nosuch'
    if int(req.get('ims', 0)):
        env['HTTP_IF_MODIFIED_SINCE'] = _httputil.HTTPDate(STATIC_MTIME)
    ae = AE[req.get('ae', '-')]
    if ae is not None:
        env['HTTP_ACCEPT_ENCODING'] = ae
    ac = AC[req.get('ac', '-')]
    if ac is not None:
        env['HTTP_ACCEPT_CHARSET'] = ac
    for key, hdr in (('inm', 'HTTP_IF_NONE_MATCH'), ('im', 'HTTP_IF_MATCH')):
        v = req.get(key, '-')
        if v == 'star':
            env[hdr] = '*'
        elif v == 'other':
            env[hdr] = '"nomatch"'
        elif v.startswith('"'):
            env[hdr] = v
    if req.get('range', '-') != '-':
        env['HTTP_RANGE'] = req['range']
    cc = req.get('cc', '-')
    if cc.startswith('maxage'):
        env['HTTP_CACHE_CONTROL'] = 'max-age=' + cc[6:]
    elif CC[cc] is not None:
        env['HTTP_' + CC[cc][0].upper().replace('-', '_')] = CC[cc][1]
    return env


class _Timeout(BaseException):
    """raised by the per-request interval timer: the code under test did not answer in time"""


REQUEST_TIMEOUT = 30.0       # seconds of wall time for one request of a case (a healthy one takes < 5 ms)


def _on_alarm(signum, frame):
    raise _Timeout()


def wsgi_call(app, environ):
    """PEP 3333 server emulation.  Headers 'go out' with the first non-empty chunk.  Whatever the code under
    test raises (from the application callable, while its result is iterated, or from its close()) is an
    observation (`aborted`), never a harness error."""
    st = {'status': None, 'headers': None, 'sent': False, 'sent_status': None, 'sent_headers': None}

    def write(data):
        st['write_used'] = True

    def start_response(status, headers, exc_info=None):
        if exc_info is not None:
            try:
                if st['sent']:
                    raise exc_info[1].with_traceback(exc_info[2])
            finally:
                exc_info = None
        elif st['status'] is not None:
            raise AssertionError('start_response called twice without exc_info')
        try:
            headers = list(headers)
        except Exception:
            headers = []
            st['bad_headers'] = True
        st['status'], st['headers'] = status, headers
        if 'first' not in st:
            st['first'] = (status, list(headers))
        return write

    chunks, aborted = [], None
    result = None
    try:
        result = app(environ, start_response)
        for chunk in result:
            if not isinstance(chunk, bytes):
                aborted = 'nonbytes'
                break
            if chunk and not st['sent']:
                st['sent'] = True
                st['sent_status'], st['sent_headers'] = st['status'], st['headers']
            chunks.append(chunk)
    except (_Timeout, KeyboardInterrupt):
        raise
    except BaseException as e:    # noqa
        aborted = 'exc:' + type(e).__name__
    finally:
        if result is not None and hasattr(result, 'close'):
            try:
                result.close()
            except (_Timeout, KeyboardInterrupt):
                raise
            except BaseException as e:   # noqa  (PEP 3333: the server calls close() in every case; an exception
                #                                 out of it reaches the server like one raised during iteration)
                if aborted is None:
                    aborted = 'close:' + type(e).__name__
    if st.get('write_used') and aborted is None:
        aborted = 'write-callable'
    status = st['sent_status'] if st['sent'] else st['status']
    headers = st['sent_headers'] if st['sent'] else st['headers']
    return status, headers or [], chunks, aborted, st.get('first')


def _status_code(status):
    """'200 OK' -> 200; anything unparsable (a type change in the code under test) -> None"""
    try:
        if isinstance(status, bytes):
            status = status.decode('latin-1')
        return int(str(status).split(' ', 1)[0])
    except Exception:
        return None


def _header_dict(headers):
    hd = {}
    try:
        for item in headers:
            k, v = item
            if isinstance(k, bytes):
                k = k.decode('latin-1')
            if isinstance(v, bytes):
                v = v.decode('latin-1')
            hd.setdefault(str(k).lower(), []).append(str(v))
    except Exception:
        hd['x-c06-unparsable-headers'] = ['1']
    return hd


def observe(app, req):
    import signal
    REC.clear()
    timed_out = False
    old_handler = signal.signal(signal.SIGALRM, _on_alarm)
    signal.setitimer(signal.ITIMER_REAL, REQUEST_TIMEOUT)
    try:
        status, headers, chunks, aborted, first = wsgi_call(app, environ_for(req, CUR.get('case')))
    except _Timeout:
        timed_out = True
        status, headers, chunks, aborted, first = None, [], [], 'hang', None
    finally:
        signal.setitimer(signal.ITIMER_REAL, 0)
        signal.signal(signal.SIGALRM, old_handler)
    hd = _header_dict(headers)
    fh = _header_dict(first[1] if first else [])
    delivered = sum(len(c) for c in chunks)
    return {
        'status': _status_code(status) if status is not None else None,
        'cl': hd.get('content-length'),
        'ct': (hd.get('content-type') or [None])[0],
        'ce': (hd.get('content-encoding') or [None])[0],
        'etag': (hd.get('etag') or [None])[0],
        'te': (hd.get('transfer-encoding') or [None])[0],
        'delivered': delivered,
        'aborted': aborted,
        'hang': timed_out,
        'stream': REC.get('stream'),
        'cached': REC.get('cached'),
        'etag_seen': REC.get('etag_seen'),
        'body': b''.join(chunks),
        # what the application committed to in its first start_response call (before any replacement by
        # the exception trapper after a failure during body iteration)
        'first': {'status': _status_code(first[0]) if first else None,
                  'cl': fh.get('content-length'), 'ct': (fh.get('content-type') or [None])[0]},
    }


def resolve_conditions(case, reqs_done, app_factory):
    """Nothing to do here: 'match' conditions are resolved by run_case."""


def run_case(case, upto=None, override_last_method=None):
    """Run the request history of `case` on a fresh application.  Returns the list of observations.

    A request whose inm/im is 'match' gets the ETag the same history yields for a plain GET at that
    position (obtained on a separate fresh run), so that it really matches.
    """
    init()
    CUR['case'] = case
    CUR['bodies'] = [parse_body(b) for b in case['body'].split('|')]
    CUR['body'] = CUR['bodies'][0]
    reqs = [dict(r) for r in case['reqs']]
    if upto is not None:
        reqs = reqs[:upto]
    if override_last_method:
        reqs[-1]['m'] = override_last_method
    # resolve 'match'
    for i, r in enumerate(reqs):
        if r.get('inm') == 'match' or r.get('im') == 'match':
            probe = dict(r)
            probe['inm'] = '-'
            probe['im'] = '-'
            obs = _run(case, reqs[:i] + [probe])
            tag = obs[-1]['etag_seen'] or '"none"'
            if r.get('inm') == 'match':
                r['inm'] = tag
            if r.get('im') == 'match':
                r['im'] = tag
    return _run(case, reqs)


def _run(case, reqs):
    cherrypy._cache.clear()
    CUR['gen'] = 0
    if (case.get('ext') or {}).get('sf'):
        write_static(static_path(case, 'sf'), sf_data(case))
    kind0, chunks0 = CUR['bodies'][0]
    if kind0 == 'X':
        write_static(static_path(case, 'f'), b''.join(v for k, v in chunks0))
    app = make_app(case)
    out = []
    for r in reqs:
        CLOCK.now = float(CLOCK_BASE + int(r.get('t', 0)))
        out.append(observe(app, r))
    return out


def ranges_for(case, req):
    """The real get_ranges result for a static body (a parameter of the model)."""
    kind, chunks = parse_body(case['body'].split('|')[0])
    size = sum(len(v) for k, v in chunks if k == 'b')
    if (case.get('ext') or {}).get('sf'):
        size = len(sf_data(case))
    if req.get('range', '-') == '-':
        return None
    return _httputil.get_ranges(req['range'], size)
