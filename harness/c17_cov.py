"""C17 - which lines of the anchored functions the run executes.

`sys.monitoring` LINE events restricted to the code objects of the functions the property is anchored in
(encoding.compress / gzip / ResponseEncoder.* / prepare_iter, lib.set_vary_header, httputil.header_elements and the
element classes, the copied cgi header parser).  Every location reports once and is then disabled, so the cost is
negligible.  Lines that never ran end up in ctx.extra['anchored_lines_not_executed'].
"""
import importlib
import linecache
import os
import sys
import types

# (module, [qualified names]); a class name stands for all its functions
ANCHORED = [
    ('cherrypy.lib.encoding', ['compress', 'gzip', 'prepare_iter', 'ResponseEncoder.__init__',
                               'ResponseEncoder.encode_stream', 'ResponseEncoder.encode_string',
                               'ResponseEncoder.find_acceptable_charset', 'ResponseEncoder.__call__']),
    ('cherrypy.lib', ['set_vary_header', 'file_generator.__init__', 'file_generator.__iter__', 'file_generator.__next__',
                      'file_generator_limited']),
    ('cherrypy.lib.httputil', ['header_elements', 'HeaderElement.__init__', 'HeaderElement.__lt__',
                               'HeaderElement.__str__', 'HeaderElement.parse', 'HeaderElement.from_str',
                               'AcceptElement.from_str', 'AcceptElement.qvalue', 'AcceptElement.__lt__']),
]

# functions of encoding.py the property is not anchored in (listed so that the evidence says so)
OUT_OF_SCOPE = {
    'cherrypy.lib.encoding': ['decode (request side, tools.decode)', 'UTF8StreamEncoder (used by the JSON tool)',
                              'decompress (test helper)'],
    'cherrypy.lib.httputil': ['HeaderElement.__cmp__ / AcceptElement.__cmp__ (Python 2 protocol, never called)',
                              '__bytes__ / __unicode__'],
}


def _funcs(obj):
    if isinstance(obj, (classmethod, staticmethod)):
        obj = obj.__func__
    if isinstance(obj, property):
        return [f for f in (obj.fget, obj.fset, obj.fdel) if f is not None]
    if isinstance(obj, types.FunctionType):
        return [obj]
    w = getattr(obj, '__wrapped__', None)
    if isinstance(w, types.FunctionType):
        return [w]
    f = getattr(obj, '__func__', None)
    if isinstance(f, types.FunctionType):
        return [f]
    return []


class Coverage(object):
    def __init__(self):
        self.codes = {}
        self.hit = set()
        self.tid = None
        self.missing_anchors = []
        for modname, names in ANCHORED:
            try:
                mod = importlib.import_module(modname)
            except Exception:
                self.missing_anchors.append(modname)
                continue
            for qn in names:
                obj = mod
                try:
                    for part in qn.split('.'):
                        obj = vars(obj)[part] if isinstance(obj, type) else getattr(obj, part)
                except (AttributeError, KeyError):
                    self.missing_anchors.append('%s.%s' % (modname, qn))
                    continue
                fs = _funcs(obj)
                if not fs:
                    self.missing_anchors.append('%s.%s' % (modname, qn))
                for f in fs:
                    self._code(f.__code__)

    def _code(self, code):
        if code in self.codes:
            return
        self.codes[code] = True
        for c in code.co_consts:
            if isinstance(c, types.CodeType):
                self._code(c)

    def executable(self):
        out = set()
        for code in self.codes:
            for _, _, line in code.co_lines():
                if line is not None and line != code.co_firstlineno:
                    out.add((code.co_filename, line, code.co_qualname))
        return out

    def _line(self, code, line):
        self.hit.add((code.co_filename, line))
        return sys.monitoring.DISABLE

    def start(self):
        mon = getattr(sys, 'monitoring', None)
        if mon is None:
            return False
        for tid in (3, 4, 5, 2):
            try:
                mon.use_tool_id(tid, 'c17-cov')
            except ValueError:
                continue
            self.tid = tid
            break
        if self.tid is None:
            return False
        mon.register_callback(self.tid, mon.events.LINE, self._line)
        for code in self.codes:
            mon.set_local_events(self.tid, code, mon.events.LINE)
        return True

    def stop(self):
        if self.tid is None:
            return
        mon = sys.monitoring
        try:
            for code in self.codes:
                mon.set_local_events(self.tid, code, 0)
            mon.register_callback(self.tid, mon.events.LINE, None)
            mon.free_tool_id(self.tid)
        except ValueError:
            pass
        self.tid = None

    def hits(self):
        return sorted(self.hit)

    def add_hits(self, hits):
        for f, l in hits:
            self.hit.add((f, l))

    def report(self, ctx):
        ex = self.executable()
        missed = sorted((f, l, q) for f, l, q in ex if (f, l) not in self.hit)
        lines = []
        for f, l, q in missed:
            src = linecache.getline(f, l).strip()
            rel = f.split(os.sep + 'cherrypy' + os.sep, 1)[-1]
            lines.append('%s:%d %s: %s' % (rel, l, q, src[:100]))
        ctx.extra['anchored_lines_executable'] = len(ex)
        ctx.extra['anchored_lines_executed'] = len(ex) - len(missed)
        ctx.extra['anchored_lines_not_executed'] = lines
        ctx.extra['anchored_functions_out_of_scope'] = OUT_OF_SCOPE
        if self.missing_anchors:
            ctx.extra['anchored_functions_not_found'] = self.missing_anchors
        ctx.count('anchored_lines_not_executed', len(lines))
        ctx.count('anchored_lines_executable', len(ex))


_current = {'cov': None}


def start():
    """start measuring in this process; returns the Coverage object (measuring or not)"""
    cov = Coverage()
    if cov.start():
        _current['cov'] = cov
    return cov


def current():
    return _current['cov']


def stop():
    cov = _current['cov']
    if cov is not None:
        cov.stop()
    _current['cov'] = None
    return cov
