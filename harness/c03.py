"""C03 - query-string and form parameters reach the handler exactly as sent.

Model: lean/CpModel/UrlEnc.lean, theorems: lean/CpProofs/C03*.lean, driver: lean/Drv/C03.lean.
Real code: in-process WSGI requests to a `**kwargs` probe handler (one cherrypy.Application per
configuration variant), plus direct calls of the anchored units (httputil.parse_query_string,
_cpreqbody.unquote_plus / process_urlencoded) for the exhaustive small scopes.
The oracle (`oracle_*`) is written from the property statement: it looks only at the bytes on the wire
and the charsets in force, never at cherrypy; urllib.parse.parse_qsl is consulted as a second opinion.
"""
import codecs
import copy
import hashlib
import io
import itertools
import json
import os
import re
import urllib.parse

from . import common

PROPERTY = 'C03'
LEAN_TARGETS = ['CpProofs.C03', 'CpProofs.C03Tables', 'drv_c03']
DRIVER = 'drv_c03'
THEOREMS = [
    # the property, over the model
    'CpProofs.C03.C03_qs_roundtrip',
    'CpProofs.C03.C03_body_roundtrip',
    'CpProofs.C03.C03_all_or_nothing_refused',
    'CpProofs.C03.C03_all_or_nothing_accepted',
    'CpProofs.C03.parseQsPairs_eq_none',
    'CpProofs.C03.C03_merge',
    'CpProofs.C03.C03_merge_imagemap',
    'CpProofs.C03.C03_imagemap',
    'CpProofs.C03.C03_imagemap_only_exact',
    'CpProofs.C03.imageMap_iff',
    'CpProofs.C03.not_imageMap_of_withEq',
    'CpProofs.C03.C03_handle_cases',
    'CpProofs.C03.C03_status_only_404_400',
    'CpProofs.C03.C03_request_roundtrip',
    'CpProofs.C03.C03_request_roundtrip_query_only',
    'CpProofs.C03.C03_handler_sees_exactly',
    # the load-bearing lemmas
    'CpProofs.C03.query_unquote_styled',
    'CpProofs.C03.body_unquote_styled',
    'CpProofs.C03.pieces_joinSegs',
    'CpProofs.C03.rawPairs_bodyWire',
    'CpProofs.C03.processUrlencoded_eq',
    'CpProofs.C03.parseQsPairs_eq',
    'CpProofs.C03.lookup_addAll',
    'CpProofs.C03.lookup_mergeBody',
    'CpProofs.C03.utf8_rt',
    'CpProofs.C03.latin1_rt',
    'CpProofs.C03.ascii_rt',
    'CpProofs.C03.utf16le_rt',
    'CpProofs.C03.recodeQS_utf8',
    'CpProofs.C03.attemptCharsets_declared',
    # tables regenerated from the live modules
    'CpProofs.C03.tables_imagemap_pattern',
    'CpProofs.C03.tables_defaults',
    'CpProofs.C03.tables_body_pct1',
    'CpProofs.C03.tables_body_pct_hex',
]
LEVEL = 'proof'
TECHNIQUE = ('Lean 4 proof: round-trip of percent/plus encoding through the transcribed decoders by induction over '
             'the character / pair list, for every multimap, encoding style and round-tripping codec (UTF-8 = core '
             "Lean's verified codec); model tied to cherrypy by a differential run through a **kwargs handler")
LEVEL_TEXT = ('Proved in Lean over the transcribed decoders, for every list of (key, value) texts (any length, characters, '
              'repeats, empty keys/values), every per-character (query) / per-byte (body) encoding style (literal, + for '
              'space, %XY with free hex case per digit; only % + & ; = must be escaped), every mix of & and ; with empty '
              'segments, blank values with or without =, every split between query string and body, every codec with a '
              "round-trip law (UTF-8 = core Lean's verified codec, Latin-1 <= 255, US-ASCII <= 127, for bodies also UTF-16-LE "
              'and UTF-16 with BOM, each with a proved round trip) placed behind any failing '
              'attempts: the handler is called and each key carries exactly the values sent, query-string values before body '
              'values, in wire order, scalar for one and flat list for several (C03_request_roundtrip, C03_qs_roundtrip, '
              'C03_body_roundtrip, C03_merge); only an exact N,M (1-18 digits) is image-map coordinates (imageMap_iff); the '
              'response is 404 iff the query string does not decode, 400 iff it does and no attempted charset decodes every '
              'key and value of the body, and an accepted body was decoded by one single charset as a whole '
              '(C03_handle_cases, C03_all_or_nothing_*); for EVERY request whose handler is called, malformed or not, the '
              'kwargs are a dict carrying per key exactly the completely decoded query values then body values '
              '(C03_handler_sees_exactly). Partial: UTF-16-BE, malformed escapes, raw non-UTF-8 query bytes '
              'and declared-but-wrong charsets are modelled and compared with the real code (exhaustively on small scopes) '
              'but have no round-trip theorem; query_string_encoding is proved for ASCII-compatible codecs only.')
LEVEL_NOTE = ('Trusted: Lean kernel (axioms propext, Classical.choice, Quot.sound only); the hand model '
              'lean/CpModel/UrlEnc.lean as validated on every run against cherrypy through a **kwargs handler (whole '
              'requests), the anchored units, every %X/%XY item and exhaustive small strings; that the hand-written Latin-1/'
              'ASCII/UTF-16 decoders equal CPython codecs (differential only); the harness and its wire-level oracle (cross-checked with urllib.parse.parse_qsl).')
TRUSTED_BASE = [
    'the Latin-1 / ASCII / UTF-16 decoders are hand-written (round trips proved against hand-written encoders); that '
    'they are what CPython codecs do is validated by the differential `dec` stream only; UTF-8 is core Lean\'s',
    'CPython semantics of str.split / bytes.split / int(x, 16) / re.fullmatch as transcribed in CpModel/UrlEnc.lean',
]
ASSUMPTIONS = [
    'PATH_INFO is ASCII and request.uri_encoding is utf-8 (recode_path_qs transcodes path and query together)',
    'charset names are known to CPython (unknown names raise LookupError: property C07)',
    'the WSGI server hands QUERY_STRING over as Latin-1 text (PEP 3333)',
]
RULE = ('multimaps (0-8 pairs over 1-4 keys, texts of 0-20 characters drawn from ASCII / the five reserved characters / '
        'controls / Latin-1 / BMP / astral planes) x per-character encoding style (literal, %XX with per-digit hex case, '
        '+ or %20) x separators & ; (and empty pairs) x split between query string and body x body charset scenario '
        '(declared, default, configured fallbacks, declared-but-wrong, undecodable) x query_string_encoding; plus '
        'image-map shapes, exhaustive strings over {a % 2 6 + & = ;} and every %X / %XY item; plus HISTORIES of 2-6 '
        'requests against one long-lived application that re-use each other\'s query strings / bodies / keys (list-valued '
        'query key merged with body values, then the same query again; image map; refused then accepted bytes), every '
        'request judged stand-alone, with a handler that scribbles over every mutable it receives; a case is non-trivial '
        'when its wire form contains at least one of % + or a non-ASCII byte, or a repeated key, or parameters on '
        'both sides; distinct = distinct (query bytes, body bytes, configuration)')

CS_ENUM = {'utf-8': 'utf8', 'iso8859-1': 'latin1', 'ascii': 'ascii', 'utf-16': 'utf16',
           'utf-16-le': 'utf16le', 'utf-16-be': 'utf16be'}


def tables(ctx):
    """Finite facts of the anchored code, obtained by running / introspecting the live modules."""
    cherrypy = _cherrypy()
    from cherrypy import _cpreqbody, _cprequest
    from cherrypy.lib import httputil
    uq = _cpreqbody.unquote_plus
    hexd = b'0123456789abcdefABCDEF'

    def lst(xs):
        return '[' + ', '.join(str(x) for x in xs) + ']'

    def strs(xs):
        return '[' + ', '.join(json.dumps(x) for x in xs) + ']'

    pct1 = [lst(uq(b'%' + bytes([b]))) for b in range(256)]
    pcthex = ['(%d, %d, %s)' % (h, l, lst(uq(b'%' + bytes([h, l])))) for h in hexd for l in hexd]
    src = [
        '/- GENERATED by harness/c03.py (tables) from the live cherrypy modules. Do not edit. -/',
        'namespace CpModel.Gen.C03',
        '',
        '/-- `httputil.image_map_pattern.pattern` -/',
        'def imageMapPattern : String := %s' % json.dumps(httputil.image_map_pattern.pattern),
        '',
        '/-- `_cpreqbody.Entity.attempt_charsets` (class default) -/',
        'def defaultAttemptCharsets : List String := %s' % strs(_cpreqbody.Entity.attempt_charsets),
        '',
        '/-- `_cprequest.Request.query_string_encoding` -/',
        'def queryStringEncoding : String := %s' % json.dumps(_cprequest.Request.query_string_encoding),
        '',
        '/-- `_cprequest.Request.methods_with_bodies` -/',
        'def methodsWithBodies : List String := %s' % strs(_cprequest.Request.methods_with_bodies),
        '',
        "/-- `_cpreqbody.unquote_plus(b'%' + bytes([b]))` for b = 0 … 255 -/",
        'def bodyPct1 : List (List Nat) := [',
        ',\n'.join('  ' + ', '.join(pct1[i:i + 8]) for i in range(0, 256, 8)),
        ']',
        '',
        "/-- `(h, l, _cpreqbody.unquote_plus(b'%' + bytes([h, l])))` for all 22 x 22 pairs of hex digits -/",
        'def bodyPctHex : List (Nat × Nat × List Nat) := [',
        ',\n'.join('  ' + ', '.join(pcthex[i:i + 6]) for i in range(0, len(pcthex), 6)),
        ']',
        '',
        'end CpModel.Gen.C03',
        '',
    ]
    return {'CpModel/Gen/C03Tables.lean': '\n'.join(src)}


def cs_enum(name):
    """Python charset name -> the model's charset token (`unknown` = bytes.decode raises LookupError)."""
    try:
        b'a'.decode(name)
    except LookupError:
        return 'unknown'
    except UnicodeError:
        pass                             # a real codec that rejects this input
    except ValueError:
        return 'unknown'                 # e.g. a NUL inside the name
    try:
        return CS_ENUM[codecs.lookup(name).name]
    except KeyError:
        raise common.HarnessError('charset %r is outside the modelled set' % (name,))


def hx(b):
    return b.hex() if b else '-'


def tx(s):
    return '.'.join(str(ord(c)) for c in s) if s else '-'


def untx(t):
    return '' if t == '-' else ''.join(chr(int(x)) for x in t.split('.'))


def parse_atom(a):
    return int(a[1:]) if a[0] == 'i' else untx(a[1:])


def parse_params(s):
    if s == '~':
        return {}
    d = {}
    for ent in s.split('|'):
        k, v = ent.split(':', 1)
        key = untx(k)
        if key in d:
            raise common.HarnessError('model printed a duplicate key')
        d[key] = [parse_atom(x) for x in v[1:].split(',')] if v[0] == 'l' else parse_atom(v)
    return d


# ----------------------------------------------------------------------------------------------
# real-code runner
# ----------------------------------------------------------------------------------------------
POISON = '\x00leaked-from-an-earlier-request'
_apps = {}
_seen = {'calls': 0, 'kwargs': None, 'attempts': None}
_cp = []


def _cherrypy():
    if not _cp:
        import cherrypy
        cherrypy.config.update({'environment': 'test_suite', 'log.screen': False})
        _cp.append(cherrypy)
    return _cp[0]


def _get_app(qs_enc, attempt_cfg):
    cherrypy = _cherrypy()
    key = (qs_enc, tuple(attempt_cfg) if attempt_cfg is not None else None)
    if key not in _apps:
        class Root(object):
            def index(*args, **kwargs):
                _seen['calls'] += 1
                _seen['kwargs'] = copy.deepcopy(kwargs)
                _seen['attempts'] = list(cherrypy.request.body.attempt_charsets)
                # A handler may do what it likes with its arguments.  Scribble over every mutable object this
                # request handed out, so that anything a parsing helper shares with a LATER request shows up
                # there as a foreign value (what a request's handler receives must depend on that request only).
                for d in (kwargs, cherrypy.request.params, cherrypy.request.body.params,
                          cherrypy.request.body.request_params):
                    if isinstance(d, dict):
                        for v in list(d.values()):
                            if isinstance(v, list):
                                v.append(POISON)
                        d[POISON] = POISON
                return b'ok'
            index.exposed = True
        conf = {}
        if qs_enc is not None:
            conf['request.query_string_encoding'] = qs_enc
        if attempt_cfg is not None:
            conf['request.body.attempt_charsets'] = list(attempt_cfg)
        _apps[key] = cherrypy.Application(Root(), '', {'/': conf})
    return _apps[key]


CTYPE_STYLES = {
    'plain': '%s; charset=%s', 'quoted': '%s; charset="%s"', 'nospace': '%s;charset=%s',
    'spaced': '%s ;  charset=%s ', 'param-case': '%s; Charset=%s', 'extra-param': '%s; boundary=x; charset=%s',
    'trailing-param': '%s; charset=%s; q=0.5',
}


def ctype_of(case):
    cs = case.get('declared')
    base = 'application/x-www-form-urlencoded'
    return base if cs is None else CTYPE_STYLES[case.get('ctype_style', 'plain')] % (base, cs)


def run_real(case):
    """One in-process WSGI request. Returns {'status': int, 'kw': dict|None, 'calls': n, 'attempts': list|None}."""
    app = _get_app(case.get('qs_enc'), case.get('attempt_cfg'))
    q = bytes.fromhex(case['q'])
    env = {
        'REQUEST_METHOD': case.get('method', 'GET'), 'SCRIPT_NAME': '', 'PATH_INFO': '/',
        'QUERY_STRING': q.decode('latin-1'), 'SERVER_NAME': 'localhost', 'SERVER_PORT': '80',
        'SERVER_PROTOCOL': 'HTTP/1.1', 'HTTP_HOST': 'localhost', 'REMOTE_ADDR': '127.0.0.1',
        'wsgi.version': (1, 0), 'wsgi.url_scheme': 'http', 'wsgi.input': io.BytesIO(b''),
        'wsgi.errors': io.StringIO(), 'wsgi.multithread': False, 'wsgi.multiprocess': False,
        'wsgi.run_once': False,
    }
    if case.get('b') is not None:
        body = bytes.fromhex(case['b'])
        env['CONTENT_TYPE'] = ctype_of(case)
        env['CONTENT_LENGTH'] = str(len(body))
        env['wsgi.input'] = io.BytesIO(body)
    _seen.update(calls=0, kwargs=None, attempts=None)
    got = []

    def start_response(status, headers, exc_info=None):
        got.append(status)
        return lambda data: None

    it = app(env, start_response)
    try:
        for _ in it:
            pass
    finally:
        if hasattr(it, 'close'):
            it.close()
    if not got:
        raise common.HarnessError('start_response was never called')
    return {'status': int(got[0][:3]), 'kw': _seen['kwargs'], 'calls': _seen['calls'],
            'attempts': _seen['attempts']}


def model_line(case):
    qs_enc = cs_enum(case['qs_enc']) if case.get('qs_enc') else 'utf8'
    decl = cs_enum(case['declared']) if case.get('declared') else 'N'
    conf = 'N'
    if case.get('attempt_cfg') is not None:
        conf = ','.join(cs_enum(c) for c in case['attempt_cfg']) or '-'
    body = 'N' if case.get('b') is None else hx(bytes.fromhex(case['b']))
    return 'req %s %s %s %s %s' % (qs_enc, hx(bytes.fromhex(case['q'])), decl, conf, body)


def canon_model(line):
    if line.startswith('H '):
        return {'status': 200, 'kw': parse_params(line[2:])}
    if line.startswith('S '):
        return {'status': int(line[2:]), 'kw': None}
    raise common.HarnessError('unexpected driver output %r' % line)


# ----------------------------------------------------------------------------------------------
# oracle: from the statement, on the wire bytes
# ----------------------------------------------------------------------------------------------
_PCT = re.compile(rb'%([0-9A-Fa-f]{2})')
_IMAGEMAP = re.compile(rb'\A([0-9]+),([0-9]+)\Z')
REFUSED = 'refused'


def wellformed(bs):
    """Every % starts a two-hex-digit escape."""
    return b'%' not in _PCT.sub(b'', bs)


def pct_decode(bs):
    return _PCT.sub(lambda m: bytes([int(m.group(1), 16)]), bs.replace(b'+', b' '))


def wire_pairs(bs):
    """(key bytes, value bytes) after percent/plus decoding, in wire order, blanks kept."""
    out = []
    for piece in re.split(rb'[&;]', bs):
        if piece:
            k, _, v = piece.partition(b'=')
            out.append((pct_decode(k), pct_decode(v)))
    return out


def group(pairs):
    """Ordered (key, value) pairs -> what a handler must receive."""
    d = {}
    for k, v in pairs:
        d.setdefault(k, []).append(v)
    return {k: (vs[0] if len(vs) == 1 else vs) for k, vs in d.items()}


def oracle_query(q, enc):
    """Expected pairs for the query string, REFUSED, or None when the statement does not say
    (malformed escapes, raw bytes that are not UTF-8)."""
    m = _IMAGEMAP.match(q)
    if m:
        if max(len(m.group(1)), len(m.group(2))) > 18:
            return None                  # coordinates beyond any int64: the statement is read as silent
        return [('x', int(m.group(1))), ('y', int(m.group(2)))]
    if not wellformed(q):
        return None
    try:
        q.decode('utf-8')
    except UnicodeDecodeError:
        return None                      # raw non-UTF-8 bytes: cherrypy's Latin-1 pass-through, not in the statement
    ascii_only = all(c < 0x80 for c in q)
    if not ascii_only and codecs.lookup(enc).name != 'utf-8':
        return None                      # raw UTF-8 next to escapes in another charset
    try:
        return [(k.decode(enc), v.decode(enc)) for k, v in wire_pairs(q)]
    except UnicodeDecodeError:
        return REFUSED


def oracle_body(b, attempts):
    if not wellformed(b):
        return None
    raw = wire_pairs(b)
    for cs in attempts:
        try:
            return [(k.decode(cs), v.decode(cs)) for k, v in raw]
        except (LookupError, ValueError):           # undecodable, or a charset nobody knows (decodes nothing)
            continue
    return REFUSED


def attempts_of(case):
    """attempt_charsets as the documentation describes them."""
    if case.get('attempt_cfg') is not None:
        return list(case['attempt_cfg'])
    d = case.get('declared')
    return ['utf-8'] if d is None else [d] + [c for c in ['utf-8'] if c != d]


def second_opinion_query(q, enc):
    """urllib.parse.parse_qsl on the same text (None when not applicable)."""
    if _IMAGEMAP.match(q):
        return None
    try:
        text = q.decode('utf-8')
    except UnicodeDecodeError:
        return None
    try:
        return urllib.parse.parse_qsl(text.replace(';', '&'), keep_blank_values=True,
                                      encoding=enc, errors='strict')
    except UnicodeDecodeError:
        return REFUSED


def second_opinion_body(b, attempts):
    if not all(c < 0x80 for c in b):
        return None
    if any(cs_enum(cs) not in ('utf8', 'latin1', 'ascii') for cs in attempts):
        return None
    text = b.decode('ascii').replace(';', '&')
    for cs in attempts:
        try:
            return urllib.parse.parse_qsl(text, keep_blank_values=True, encoding=cs, errors='strict')
        except UnicodeDecodeError:
            continue
    return REFUSED


def expected_of(case):
    """(expected, why): expected = dict for the handler | ('status', {codes}) | None (statement silent)."""
    q = bytes.fromhex(case['q'])
    enc = case.get('qs_enc') or 'utf8'
    eq = oracle_query(q, enc)
    so = second_opinion_query(q, enc)
    loose = case.get('scenario', '').startswith(('raw', 'small'))
    if eq is not None and so is not None and eq != so:
        if not loose:
            raise common.HarnessError('oracle and urllib disagree on query %r: %r vs %r' % (q, eq, so))
        eq = None
    eb = []
    if case.get('b') is not None:
        b = bytes.fromhex(case['b'])
        att = attempts_of(case)
        eb = oracle_body(b, att)
        sb = second_opinion_body(b, att)
        if eb is not None and sb is not None and eb != sb:
            if not loose:
                raise common.HarnessError('oracle and urllib disagree on body %r: %r vs %r' % (b, eb, sb))
            eb = None
    if eq is None or eb is None:
        if eq == REFUSED:
            return ('status', {404}), 'undecodable query'
        return None, 'statement silent'
    if eq == REFUSED and eb == REFUSED:
        return ('status', {404, 400}), 'undecodable query and body'
    if eq == REFUSED:
        return ('status', {404}), 'undecodable query'
    if eb == REFUSED:
        return ('status', {400}), 'undecodable body'
    return group(eq + eb), 'round trip'


def judge(case, obs):
    """Property predicate on one observation -> list of (what, signature)."""
    bad = []
    exp, why = expected_of(case)
    if obs['calls'] > 1:
        bad.append(('handler called %d times' % obs['calls'], 'handler_called_twice'))
    if obs['status'] != 200 and obs['calls']:
        bad.append(('handler was called although the response is %d' % obs['status'], 'handler_called_on_refusal'))
    if obs['status'] not in (200, 400, 404):
        bad.append(('status %d for %s (only 200, 404 for the query, 400 for the body are allowed)'
                    % (obs['status'], why), 'status_%d' % obs['status']))
        return bad, exp
    if exp is None:
        return bad, exp
    if isinstance(exp, tuple):
        if obs['status'] not in exp[1]:
            bad.append(('%s: expected status %s, got %d with handler arguments %r'
                        % (why, sorted(exp[1]), obs['status'], obs['kw']), 'not_refused'))
    else:
        if obs['status'] != 200 or obs['calls'] != 1:
            bad.append(('decodable parameters refused with %d (expected the handler to receive %r)'
                        % (obs['status'], exp), 'refused_%d' % obs['status']))
        elif obs['kw'] != exp:
            diff = sorted(k for k in set(exp) | set(obs['kw']) if exp.get(k, None) != obs['kw'].get(k, None)
                          or (k in exp) != (k in obs['kw']))
            bad.append(('handler received %r, the request carried %r (differs at keys %r)'
                        % (obs['kw'], exp, diff[:4]), 'params_differ'))
    return bad, exp


# ----------------------------------------------------------------------------------------------
# generators
# ----------------------------------------------------------------------------------------------
RESERVED = '&;=+% '
SAFE = 'abcxyzABZ0189_-.~'
PUNCT = ',#?/\\"\'<>@:[]{}|^`!$()*'
CTRL = '\x00\t\n\r\x0b\x0c\x1f\x7f'
LATIN = '\x80\x85\xa0\xe9\xff\xc3\xa9\xb5'
BMP = '\u0100\u03bb\u0436\u05e9\u4e2d\u2028\ufeff\ufffd\ud7ff\uffff\u0301\u20ac\ue000\u0660'
ASTRAL = '\U00010000\U0001f600\U0010ffff\U0002a6d6'
NAMES = {'utf-8': ['utf-8', 'UTF-8', 'utf8'], 'latin-1': ['latin-1', 'iso-8859-1', 'ISO-8859-1', 'latin1'],
         'ascii': ['us-ascii', 'ascii'], 'utf-16': ['utf-16', 'UTF-16'], 'utf-16-le': ['utf-16-le', 'utf-16le'],
         'utf-16-be': ['utf-16-be', 'UTF-16BE']}
BAD_UTF8 = [b'\xff', b'\xc3', b'\xe2\x82', b'\xed\xa0\x80', b'\xc0\xaf', b'\xf4\x90\x80\x80', b'\x80', b'\xf0\x9f\x98']


def gen_char(rng, profile):
    r = rng.random()
    if profile == 'ascii':
        if r < 0.5:
            return rng.choice(SAFE)
        if r < 0.8:
            return rng.choice(RESERVED)
        if r < 0.93:
            return rng.choice(PUNCT)
        return rng.choice(CTRL)
    if profile == 'latin':
        if r < 0.4:
            return gen_char(rng, 'ascii')
        if r < 0.8:
            return rng.choice(LATIN)
        return chr(rng.randint(0x80, 0xff))
    # full Unicode
    if r < 0.35:
        return gen_char(rng, 'latin')
    if r < 0.6:
        return rng.choice(BMP)
    if r < 0.75:
        return rng.choice(ASTRAL)
    while True:
        c = rng.choice([rng.randint(0x100, 0xffff), rng.randint(0x10000, 0x10ffff), rng.randint(0x100, 0x7ff)])
        if not 0xd800 <= c <= 0xdfff:
            return chr(c)


def gen_text(rng, profile, big=False):
    n = rng.choice([0, 0, 1, 1, 1, 2, 2, 3, 4, 5, 8, 13, 20] if not big else [5, 20, 40, 60])
    return ''.join(gen_char(rng, profile) for _ in range(n))


def hexbyte(rng, b, hexcase):
    s = '%02x' % b
    if hexcase == 'upper':
        s = s.upper()
    elif hexcase == 'mixed':
        s = ''.join(ch.upper() if rng.random() < 0.5 else ch for ch in s)
    return ('%' + s).encode('ascii')


def enc_query_text(rng, text, enc, style, hexcase, raw_nonascii):
    """Client-side encoding of one key or value for the query string."""
    out = bytearray()
    for c in text:
        o = ord(c)
        if c == ' ':
            out += b'+' if rng.random() < 0.5 else hexbyte(rng, 0x20, hexcase)
            continue
        must = c in '%+&;=#' or o < 0x21 or o == 0x7f
        want = style == 'full' or (style == 'mixed' and rng.random() < 0.35)
        if o >= 0x80 and not must and not want and raw_nonascii:
            out += c.encode('utf-8')
        elif must or want or o >= 0x80:
            for b in c.encode(enc):
                out += hexbyte(rng, b, hexcase)
        else:
            out.append(o)
    return bytes(out)


def enc_body_bytes(rng, data, style, hexcase):
    """Client-side percent-encoding of already charset-encoded bytes for a form body."""
    out = bytearray()
    for b in data:
        if b == 0x20:
            r = rng.random()
            out += b'+' if r < 0.45 else (hexbyte(rng, b, hexcase) if r < 0.9 else b' ')
            continue
        must = b in b'%+&;='
        want = style == 'full' or (style == 'mixed' and rng.random() < 0.35)
        if must or want:
            out += hexbyte(rng, b, hexcase)
        else:
            out.append(b)
    return bytes(out)


def join_frags(rng, frags, lenient):
    out = bytearray()
    if lenient and rng.random() < 0.3:
        out += rng.choice([b'&', b';', b'&&'])
    for i, f in enumerate(frags):
        if i:
            out += rng.choice([b'&', b'&', b';'])
            if lenient and rng.random() < 0.2:
                out += rng.choice([b'&', b';'])
        out += f
    if lenient and rng.random() < 0.3:
        out += rng.choice([b'&', b';'])
    return bytes(out)


def gen_request(rng, big=False):
    """A request built from a multimap; returns the case dict (wire form + configuration + ground truth)."""
    body_cs = rng.choices(['utf-8', 'latin-1', 'utf-16', 'utf-16-le', 'utf-16-be', 'ascii'],
                          weights=[45, 22, 12, 5, 5, 6])[0]
    qs_cfg = rng.choices([None, 'utf-8', 'latin-1', 'iso-8859-1', 'ascii'], weights=[70, 6, 12, 6, 6])[0]
    qs_enc = qs_cfg or 'utf8'
    qs_profile = {'utf-8': 'full'}.get(codecs.lookup(qs_enc).name, 'latin' if 'ascii' not in qs_enc else 'ascii')
    b_profile = {'utf-8': 'full', 'latin-1': 'latin', 'ascii': 'ascii'}.get(body_cs, 'full')
    split = rng.choices(['query', 'body', 'both'], weights=[30, 25, 45])[0]
    # keys must be encodable on whichever side they are used: draw from the weaker profile
    order = ['ascii', 'latin', 'full']
    kprofile = order[min(order.index(qs_profile), order.index(b_profile))] if split == 'both' else (
        qs_profile if split == 'query' else b_profile)
    if rng.random() < 0.3:
        kprofile = 'ascii'
    nkeys = rng.choice([1, 1, 2, 2, 3, 4])
    keys = []
    for _ in range(nkeys):
        k = gen_text(rng, kprofile)
        if rng.random() < 0.08:
            k = rng.choice(['x', 'y', 'self', 'args', 'kwargs', '1,2', '', ' ', 'a=b', 'a&b'])
        keys.append(k)
    npairs = rng.choice([0, 1, 1, 2, 2, 3, 3, 4, 5, 6, 8] if not big else [8, 12, 20])
    style = rng.choice(['minimal', 'minimal', 'mixed', 'mixed', 'full'])
    hexcase = rng.choice(['upper', 'lower', 'mixed'])
    raw_nonascii = codecs.lookup(qs_enc).name == 'utf-8' and rng.random() < 0.6
    lenient = rng.random() < 0.15
    truth_q, truth_b, qfrags, bfrags = [], [], [], []
    for _ in range(npairs):
        k = rng.choice(keys)
        side = 'q' if split == 'query' else 'b' if split == 'body' else rng.choice('qb')
        prof = qs_profile if side == 'q' else b_profile
        v = '' if rng.random() < 0.2 else gen_text(rng, prof, big)
        omit_eq = v == '' and rng.random() < 0.3
        if side == 'q':
            f = enc_query_text(rng, k, qs_enc, style, hexcase, raw_nonascii)
            if not omit_eq:
                f += b'=' + enc_query_text(rng, v, qs_enc, style, hexcase, raw_nonascii)
            if f:                                    # an empty key written without '=' is no pair at all
                truth_q.append((k, v))
                qfrags.append(f)
        else:
            f = enc_body_bytes(rng, k.encode(body_cs), style, hexcase)
            if not omit_eq:
                f += b'=' + enc_body_bytes(rng, v.encode(body_cs), style, hexcase)
            if f:
                truth_b.append((k, v))
                bfrags.append(f)
    q = join_frags(rng, qfrags, lenient)
    case = {'kind': 'req', 'q': q.hex(), 'qs_enc': qs_cfg, 'method': 'GET', 'b': None,
            'declared': None, 'attempt_cfg': None}
    scenario = 'query-only'
    truth_known = True
    if split != 'query':
        case['method'] = rng.choice(['POST', 'POST', 'POST', 'PUT', 'PATCH'])
        case['b'] = join_frags(rng, bfrags, lenient).hex()
        name = rng.choice(NAMES[body_cs])
        r = rng.random()
        if r < 0.5 or body_cs not in ('utf-8', 'latin-1', 'ascii'):
            scenario = 'declared'
            case['declared'] = name
            if r > 0.9:
                scenario = 'declared+configured'     # the configured list replaces the declared charset
                case['attempt_cfg'] = [name, 'utf-8']
        elif body_cs in ('utf-8', 'ascii') and r < 0.62:
            scenario = 'default'
        elif body_cs in ('utf-8', 'ascii') and r < 0.7:
            scenario = 'declared-unknown'            # LookupError counts as a failed attempt: utf-8 is next
            case['declared'] = rng.choice(['nosuch', 'x-user-defined', 'hex', 'rot13', 'utf\x008'])
        elif r < 0.85:
            scenario = 'fallback'
            pre = rng.choice([['ascii'], ['us-ascii', 'utf-8'], ['utf-8'], []])
            case['attempt_cfg'] = pre + [name] + rng.choice([[], ['latin-1']])
            truth_known = False                      # an earlier charset may legitimately win
        else:
            scenario = 'declared-wrong'
            other = rng.choice([c for c in NAMES if c != body_cs])
            case['declared'] = rng.choice(NAMES[other])
            truth_known = False
    case['scenario'] = scenario
    if case['declared'] is not None and rng.random() < 0.3:
        case['ctype_style'] = rng.choice(sorted(CTYPE_STYLES))
    if truth_known:
        case['truth'] = [list(p) for p in truth_q + truth_b]
    case['qfrags'] = [f.hex() for f in qfrags]
    case['bfrags'] = [f.hex() for f in bfrags]
    return case


def gen_undecodable(rng):
    """A request in which one key or value carries bytes that no attempted charset decodes."""
    case = gen_request(rng)
    for k in ('truth',):
        case.pop(k, None)
    where = rng.choice(['q', 'b', 'both'])
    hexcase = rng.choice(['upper', 'lower', 'mixed'])

    def poison(frags, raw_ok):
        bad = rng.choice(BAD_UTF8)
        enc = b''.join(hexbyte(rng, b, hexcase) for b in bad)
        if raw_ok and rng.random() < 0.3:
            enc = bad
        blob = b'p' + enc + b'z'
        frag = rng.choice([blob + b'=v', b'k=' + blob, blob])
        frags = [bytes.fromhex(f) for f in frags]
        frags.insert(rng.randint(0, len(frags)), frag)
        return frags

    if where in ('q', 'both'):
        case['qs_enc'] = rng.choice([None, None, 'utf-8', 'ascii'])
        # re-encode nothing: the existing fragments stay as they are (ASCII escapes are charset-neutral enough
        # for the oracle, which recomputes the expectation from the wire)
        frags = poison(case['qfrags'], raw_ok=False)
        case['qfrags'] = [f.hex() for f in frags]
        case['q'] = b'&'.join(frags).hex()
    if where in ('b', 'both'):
        case['method'] = 'POST'
        frags = poison(case.get('bfrags') or [], raw_ok=True)
        case['bfrags'] = [f.hex() for f in frags]
        case['b'] = rng.choice([b'&', b';']).join(frags).hex()
        case['declared'] = rng.choice([None, None, 'utf-8', 'us-ascii', 'nosuch'])
        case['attempt_cfg'] = rng.choice([None, None, ['ascii', 'utf-8'], ['utf-8'], ['nosuch', 'utf-8']])
    case['scenario'] = 'undecodable-' + where
    return case


IMAGEMAP_QUERIES = ['1,2', '0,0', '007,010', '12345678901234567890,1', '1,2x', '1,2=v', '1,2=', 'x1,2', '1,2&a=1', ',2',
                    '1,', ',', '1,2,3', '1;2', ' 1,2', '1,2\n', '1,2%20', '+1,2', '-1,2', '1.5,2', '１,２',
                    '1,٢', '1_0,2', '1,2;', '&1,2', '1%2C2', '1,2#', '00,00']


def gen_imagemap(rng):
    q = rng.choice(IMAGEMAP_QUERIES)
    if rng.random() < 0.3:
        q = '%d,%d' % (rng.choice([0, 1, 9, 10, 99, 640, 10 ** 12]), rng.choice([0, 7, 480, 2 ** 70]))
    case = {'kind': 'req', 'q': q.encode('utf-8').hex(), 'qs_enc': None, 'method': 'GET', 'b': None,
            'declared': None, 'attempt_cfg': None, 'scenario': 'imagemap', 'qfrags': [], 'bfrags': []}
    if rng.random() < 0.4:
        case['method'] = 'POST'
        body = rng.choice([b'x=5', b'y=1&y=2', b'z=1', b'x=1&x=2&y=', b''])
        case['b'] = body.hex()
        case['bfrags'] = [f.hex() for f in body.split(b'&') if f]
    return case


def gen_raw(rng):
    """Unstructured wire strings: the statement is mostly silent, the model must still agree."""
    alpha = [b'a', b'%', b'2', b'6', b'+', b'&', b'=', b';', b'%c3', b'%a9', b'\xc3\xa9', b'\xe9', b'%E2%82%AC', b'%ff',
             b'%2', b'%%', b'%g1', b' ', b',', b'1', b'%26', b'%3d', b'%3B', b'%2b', b'%25', b'\xf0\x9f\x98\x80']
    q = b''.join(rng.choice(alpha) for _ in range(rng.choice([0, 1, 2, 3, 5, 8, 12])))
    case = {'kind': 'req', 'q': q.hex(), 'qs_enc': rng.choice([None, None, 'latin-1']), 'method': 'GET', 'b': None,
            'declared': None, 'attempt_cfg': None, 'scenario': 'raw', 'qfrags': [], 'bfrags': []}
    if rng.random() < 0.6:
        b = b''.join(rng.choice(alpha) for _ in range(rng.choice([0, 1, 2, 3, 5, 8, 12])))
        case.update(method='POST', b=b.hex(),
                    declared=rng.choice([None, None, 'latin-1', 'utf-16', 'ascii', 'utf-16-be', 'nosuch']),
                    attempt_cfg=rng.choice([None, None, None, ['ascii', 'utf-8', 'latin-1'], [], ['base64']]))
    return case


def gen_huge(rng):
    """Sizes beyond every internal buffer (8 KiB reads, 64 KiB): hundreds of pairs and very long values."""
    kind = rng.choice(['many-pairs', 'long-value', 'both'])
    npairs = rng.choice([70, 130, 300, 700]) if kind != 'long-value' else rng.randint(1, 4)
    keys = ['k%d' % i for i in range(rng.choice([1, 3, 40]))] + ['\u00e9\U0001f600']
    hexcase = rng.choice(['upper', 'lower', 'mixed'])
    style = rng.choice(['minimal', 'mixed'])
    truth_q, truth_b, qfrags, bfrags = [], [], [], []
    for i in range(npairs):
        k = rng.choice(keys)
        if kind != 'many-pairs' and i == 0:
            unit = gen_text(rng, 'full') or 'v'
            v = (unit * (rng.choice([9000, 20000, 70000]) // len(unit) + 1))
        else:
            v = gen_text(rng, 'full')
        if rng.random() < 0.25 and len(v) < 200:
            f = enc_query_text(rng, k, 'utf8', style, hexcase, True) + b'=' + \
                enc_query_text(rng, v, 'utf8', style, hexcase, True)
            truth_q.append((k, v))
            qfrags.append(f)
        else:
            f = enc_body_bytes(rng, k.encode('utf-8'), style, hexcase) + b'=' + \
                enc_body_bytes(rng, v.encode('utf-8'), style, hexcase)
            truth_b.append((k, v))
            bfrags.append(f)
    case = {'kind': 'req', 'q': join_frags(rng, qfrags, False).hex(), 'qs_enc': None, 'method': 'POST',
            'b': join_frags(rng, bfrags, False).hex(), 'declared': rng.choice([None, 'utf-8']), 'attempt_cfg': None,
            'scenario': 'huge-' + kind, 'truth': [list(p) for p in truth_q + truth_b],
            'qfrags': [f.hex() for f in qfrags], 'bfrags': [f.hex() for f in bfrags]}
    return case


# ---- histories: several requests against one long-lived application ---------------------------
def _req(q, body=None, declared=None, method=None, qs_cfg=None, att_cfg=None, role=''):
    return {'kind': 'req', 'q': q.hex(), 'qs_enc': qs_cfg, 'method': method or ('GET' if body is None else 'POST'),
            'b': None if body is None else body.hex(), 'declared': declared, 'attempt_cfg': att_cfg,
            'scenario': 'history', 'role': role, 'qfrags': [], 'bfrags': []}


def gen_history(rng):
    """2-6 requests that re-use each other's query strings, bodies and keys, all against the same application:
    whatever a parsing helper returns for one request (dicts, lists) must not reach a later one.  The building
    blocks: a query whose key is repeated (list value) and also occurs in the body (so the merge mutates the
    list), the same query without / with another body, the same body behind another query, an image-map query,
    the same non-UTF-8 body bytes first refused (utf-8 only) then accepted (declared latin-1)."""
    qs_cfg = rng.choices([None, 'latin-1'], weights=[85, 15])[0]
    att_cfg = rng.choices([None, ['ascii', 'utf-8']], weights=[85, 15])[0]
    qenc = qs_cfg or 'utf8'
    prof = 'full' if qs_cfg is None else 'latin'
    style = rng.choice(['minimal', 'mixed', 'full'])
    hexcase = rng.choice(['upper', 'lower', 'mixed'])
    k0 = gen_text(rng, rng.choice(['ascii', prof])) or 'tag'
    k1 = gen_text(rng, 'ascii') or 'k'
    if rng.random() < 0.5:
        k0 = rng.choice(['tag', 'a', 'x', 'y', 'id'])

    def qpair(k, v):
        return enc_query_text(rng, k, qenc, style, hexcase, qs_cfg is None) + b'=' + \
            enc_query_text(rng, v, qenc, style, hexcase, qs_cfg is None)

    def bpair(k, v, cs='utf-8'):
        return enc_body_bytes(rng, k.encode(cs), style, hexcase) + b'=' + enc_body_bytes(rng, v.encode(cs), style, hexcase)

    def vals(n):
        return [gen_text(rng, prof) for _ in range(n)]

    sep = lambda: rng.choice([b'&', b'&', b';'])
    # queries
    q_list = sep().join([qpair(k0, v) for v in vals(rng.choice([2, 2, 3]))] +
                        ([qpair(k1, vals(1)[0])] if rng.random() < 0.5 else []))   # k0 is a list
    q_scalar = qpair(k0, vals(1)[0])                                                 # k0 is a scalar
    q_other = sep().join(qpair(k1, v) for v in vals(rng.choice([1, 2])))             # k0 absent
    q_img = b'%d,%d' % (rng.choice([0, 1, 12, 640]), rng.choice([0, 2, 480]))
    # bodies
    b_same = sep().join(bpair(k0, v) for v in vals(rng.choice([1, 1, 2])))           # k0 again: merge mutates
    b_more = sep().join([bpair(k0, vals(1)[0]), bpair(k1, vals(1)[0]), bpair(k1, vals(1)[0])])
    b_other = sep().join(bpair(k1, v) for v in vals(rng.choice([1, 2])))
    b_xy = rng.choice([b'x=5', b'y=1&y=2', b'x=1&x=2&y=3'])
    l1 = ''.join(rng.choice('\xe9\xff\xa0\xc3\xb5') for _ in range(rng.randint(1, 3)))
    b_l1 = bpair(k0 if k0.isascii() else 'k', l1 + 'z', 'latin-1')                   # not UTF-8 (ends in "<hi>z")
    Q = {'list': q_list, 'scalar': q_scalar, 'other': q_other, 'img': q_img, 'none': b''}
    B = {'same': (b_same, None), 'more': (b_more, None), 'other': (b_other, None), 'xy': (b_xy, None),
         'l1-refused': (b_l1, None), 'l1-declared': (b_l1, 'latin-1'), 'l1-utf8-declared': (b_l1, 'utf-8'),
         'none': (None, None)}
    templates = [
        [('list', 'same'), ('list', 'none'), ('list', 'more'), ('list', 'none')],
        [('list', 'none'), ('list', 'same'), ('list', 'none'), ('list', 'same'), ('list', 'none')],
        [('list', 'same'), ('list', 'same'), ('list', 'none')],
        [('list', 'same'), ('scalar', 'same'), ('scalar', 'none'), ('list', 'none')],
        [('scalar', 'same'), ('scalar', 'none'), ('scalar', 'more'), ('scalar', 'same')],
        [('other', 'same'), ('list', 'same'), ('other', 'same'), ('none', 'same')],
        [('none', 'more'), ('list', 'more'), ('none', 'more'), ('other', 'more')],
        [('img', 'xy'), ('img', 'none'), ('img', 'xy'), ('img', 'same')],
        [('list', 'l1-refused'), ('list', 'l1-declared'), ('list', 'none'), ('list', 'l1-refused'),
         ('list', 'l1-utf8-declared')],
        [('none', 'l1-refused'), ('none', 'l1-declared'), ('none', 'l1-refused'), ('none', 'l1-declared')],
    ]
    if rng.random() < 0.7:
        plan = list(rng.choice(templates))
        if rng.random() < 0.3:
            plan = plan[:rng.randint(2, len(plan))]
    else:
        plan = [(rng.choice(['list', 'list', 'scalar', 'other', 'img', 'none']),
                 rng.choice(['same', 'same', 'more', 'other', 'xy', 'l1-refused', 'l1-declared', 'none', 'none']))
                for _ in range(rng.randint(2, 6))]
    steps = []
    for qn, bn in plan[:6]:
        body, declared = B[bn]
        if declared is not None and rng.random() < 0.3:
            declared = rng.choice(NAMES[declared])
        steps.append(_req(Q[qn], body, declared, rng.choice(['POST', 'POST', 'PUT']) if body is not None else 'GET',
                          qs_cfg, att_cfg, role='%s+%s' % (qn, bn)))
    return {'kind': 'history', 'steps': steps}


def history_id(hist):
    return hashlib.sha1('>'.join(case_key(s) for s in hist['steps']).encode('utf-8', 'replace')).hexdigest()[:16]


def run_history(hist):
    """Run the steps in order; per step (obs, failures, expected)."""
    out = []
    for step in hist['steps']:
        obs = run_real(step)
        bad, exp = judge(step, obs)
        out.append((obs, bad, exp))
    return out


def fresh_failures(steps):
    """Run `steps` in order in a FRESH interpreter (no state left by this run) -> per step the list of failure
    signatures.  Used only to make reported replays reproducible; ~0.5 s per call."""
    import subprocess
    import sys
    payload = json.dumps({'steps': steps})
    r = subprocess.run([sys.executable, '-m', 'harness.c03', '--fresh'], cwd=common.VERIF, input=payload.encode(),
                       stdout=subprocess.PIPE, stderr=subprocess.PIPE, timeout=600)
    if r.returncode != 0:
        raise common.HarnessError('fresh-process helper failed: %s' % r.stderr[-400:])
    last = [l for l in r.stdout.decode().splitlines() if l.startswith('FRESH ')]
    if not last:
        raise common.HarnessError('fresh-process helper printed nothing')
    return json.loads(last[-1][6:])


def _fresh_main():
    steps = json.loads(sys_stdin_read())['steps']
    out = []
    for step in steps:
        try:
            bad, _ = judge(step, run_real(step))
            out.append([sig for _, sig in bad])
        except common.HarnessError as e:
            out.append(['harness:' + str(e)[:80]])
    print('FRESH ' + json.dumps(out))


def sys_stdin_read():
    import sys
    return sys.stdin.read()


def minimal_history(before, target, sig, budget=30):
    """Smallest sub-sequence of `before` after which `target` still fails with `sig` IN A FRESH PROCESS
    (so that the replay file reproduces on its own).  Returns (steps, note)."""
    calls = [0]

    def fails(prefix):
        calls[0] += 1
        if calls[0] > budget:
            return False
        try:
            res = fresh_failures(list(prefix) + [target])
        except common.HarnessError:
            return False
        return sig in res[-1]

    if fails([]):
        return [target], 'fails as a single request on fresh state'
    before = list(before)
    if not before or not fails(before):
        return None, 'not reproduced in a fresh process from the recorded predecessors'
    if len(before) > 6:
        before = common.shrink_list(before, fails, max_rounds=12)
    i = 0
    while i < len(before):
        cand = before[:i] + before[i + 1:]
        if fails(cand):
            before = cand
        else:
            i += 1
    return before + [target], 'request %d fails only after the requests before it' % (len(before) + 1)


def shrink_history(hist, idx, sig, earlier=()):
    """A self-contained history (reproducible on fresh state) ending in the failing request."""
    target = hist['steps'][idx]
    steps, note = minimal_history(hist['steps'][:idx], target, sig)
    if steps is None and earlier:
        steps, note = minimal_history(list(earlier)[-40:] + hist['steps'][:idx], target, sig)
    if steps is None:
        return dict(hist, failed_step=idx, note=note)
    return {'kind': 'history', 'steps': steps, 'failed_step': len(steps) - 1, 'note': note}


def check_histories(ctx, hists, compare=True, echo=False, minimise=True):
    """Every request of every history is judged exactly like a stand-alone request (the expectation is computed
    from that request alone) and compared with the (stateless) model."""
    flat = [s for h in hists for s in h['steps']]
    lines = ctx.model([model_line(s) for s in flat]) if compare else None
    pos = 0
    earlier = []
    for hist in hists:
        hid = history_id(hist)
        res = run_history(hist)
        ctx.count('history_len:%d' % len(hist['steps']))
        for i, (step, (obs, bad, exp)) in enumerate(zip(hist['steps'], res)):
            ctx.case({'kind': 'history-step', 'history': hid, 'step': i, 'role': step.get('role'),
                      'q': step['q'], 'b': step.get('b')}, nontrivial=(i > 0), key='hist|%s|%d' % (hid, i))
            ctx.count('history_step:' + str(step.get('role')))
            ctx.count('history_status:%d' % obs['status'])
            if echo:
                print('--- request %d (%s): %s ?%s  body %s  declared %s' % (
                    i + 1, step.get('role'), step['method'], bytes.fromhex(step['q']),
                    None if step.get('b') is None else bytes.fromhex(step['b']), step.get('declared')))
                print('impl   :', {'status': obs['status'], 'kw': obs['kw']})
                if lines is not None:
                    print('model  :', canon_model(lines[pos + i]))
                print('oracle :', exp)
            done = set()
            for what, sig in bad:
                if sig in done:
                    continue
                done.add(sig)
                small = (shrink_history(hist, i, sig, earlier) if minimise and len(ctx.oracle_failures) < 2
                         else dict(hist, failed_step=i))
                n = len(small['steps'])
                ctx.oracle_fail(small, 'request %d of a %d-request history (%s; %s): %s'
                                % (small.get('failed_step', n - 1) + 1, n,
                                   ' -> '.join(str(s.get('role')) for s in small['steps']), small.get('note', ''),
                                   what), None)
            if lines is not None:
                ctx.compared()
                model = canon_model(lines[pos + i])
                real = {'status': obs['status'], 'kw': obs['kw'] if obs['status'] == 200 else None}
                if real != model:
                    ctx.disagree(dict(hist, failed_step=i), real, model,
                                 'handler arguments / status differ at request %d of a history' % (i + 1))
        pos += len(hist['steps'])
        earlier = (earlier + hist['steps'])[-40:]


def nontrivial(case):
    q = bytes.fromhex(case['q'])
    b = bytes.fromhex(case['b']) if case.get('b') else b''
    wire = q + b
    if any(c in b'%+' or c >= 0x80 for c in wire):
        return True
    if q and b:
        return True
    keys = [p.partition(b'=')[0] for p in re.split(rb'[&;]', wire) if p]
    return len(keys) != len(set(keys))


def case_key(case):
    return '%s|%s|%s|%s|%s|%s|%s' % (case['q'], case.get('b'), case.get('qs_enc'), case.get('declared'),
                                     case.get('attempt_cfg'), case.get('method'), case.get('ctype_style'))


def slim(case):
    return {k: v for k, v in case.items() if k not in ('truth',)}


# ----------------------------------------------------------------------------------------------
# checking
# ----------------------------------------------------------------------------------------------
def shrink(case, signature):
    """Drop pairs while the same kind of oracle failure persists."""
    def rebuild(qf, bf):
        c = dict(case)
        c['qfrags'], c['bfrags'] = qf, bf
        c['q'] = b'&'.join(bytes.fromhex(f) for f in qf).hex()
        if case.get('b') is not None:
            c['b'] = b'&'.join(bytes.fromhex(f) for f in bf).hex()
        c.pop('truth', None)
        return c

    def fails(c):
        try:
            bad, _ = judge(c, run_real(c))
        except common.HarnessError:
            return False
        return any(sig == signature for _, sig in bad)

    qf, bf = list(case.get('qfrags') or []), list(case.get('bfrags') or [])
    if not qf and not bf:
        return case
    if not fails(rebuild(qf, bf)):
        return case
    qf = common.shrink_list(qf, lambda x: fails(rebuild(x, bf)), max_rounds=40) if len(qf) > 1 else qf
    if len(qf) == 1 and fails(rebuild([], bf)):
        qf = []
    bf = common.shrink_list(bf, lambda x: fails(rebuild(qf, x)), max_rounds=40) if len(bf) > 1 else bf
    if len(bf) == 1 and fails(rebuild(qf, [])):
        bf = []
    out = rebuild(qf, bf)
    out['shrunk_from'] = {'q': case['q'], 'b': case.get('b')}
    return out


def check_requests(ctx, cases, compare=True):
    lines = ctx.model([model_line(c) for c in cases]) if compare else None
    att_seen = {}
    for idx, case in enumerate(cases):
        obs = run_real(case)
        ctx.case(slim(case), nontrivial=nontrivial(case), key=case_key(case))
        ctx.count('scenario:' + case.get('scenario', '?'))
        ctx.count('status:%d' % obs['status'])
        bad, exp = judge(case, obs)
        ctx.count('oracle:' + ('silent' if exp is None else 'refusal' if isinstance(exp, tuple) else 'roundtrip'))
        if isinstance(exp, dict):
            ctx.count('keys:%d' % min(len(exp), 4))
            ctx.count('listvalued:%s' % any(isinstance(v, list) for v in exp.values()))
            # generator's own ground truth (harness self-check: the wire oracle must reproduce it)
            if 'truth' in case and not _IMAGEMAP.match(bytes.fromhex(case['q'])):
                want = group([tuple(p) for p in case['truth']])
                if want != exp:
                    raise common.HarnessError('wire oracle %r differs from the generated multimap %r for %r'
                                              % (exp, want, slim(case)))
        done = set()
        for what, sig in bad:
            if sig in done:
                continue
            done.add(sig)
            if len(ctx.oracle_failures) < 2:
                if sig in fresh_failures([slim(case)])[0]:
                    small = shrink(case, sig)
                    again = [w for w, s2 in judge(small, run_real(small))[0] if s2 == sig]
                    what = again[0] if again else what
                else:
                    # the request alone is fine on fresh state: it is what earlier requests left behind
                    steps, note = minimal_history([slim(c) for c in cases[max(0, idx - 40):idx]], slim(case), sig)
                    if steps is not None:
                        ctx.oracle_fail({'kind': 'history', 'steps': steps, 'failed_step': len(steps) - 1, 'note': note},
                                        'request %d of a %d-request history (%s): %s' % (len(steps), len(steps), note, what),
                                        None)
                        continue
                    what = '[depends on state left by earlier requests of this run] ' + what
                    small = case
            else:
                small = case
            ctx.oracle_fail(slim(small), what, None)
        if lines is not None:
            ctx.compared()
            model = canon_model(lines[idx])
            real = {'status': obs['status'], 'kw': obs['kw'] if obs['status'] == 200 else None}
            if real != model:
                ctx.disagree(slim(case), real, model, 'handler arguments / status differ')
        if obs['attempts'] is not None and case.get('b') is not None:
            att_seen[(case.get('declared'), tuple(case['attempt_cfg']) if case.get('attempt_cfg') is not None
                      else None)] = obs['attempts']
    # attempt_charsets as computed by Entity.__init__ + config vs the model
    if compare and att_seen and lines is not None:
        items = sorted(att_seen.items(), key=repr)
        alines = ['att %s %s' % (cs_enum(d) if d else 'N',
                                 'N' if c is None else (','.join(cs_enum(x) for x in c) or '-'))
                  for (d, c), _ in items]
        outs = ctx.model(alines)
        for ((d, c), real), out in zip(items, outs):
            dedup = []
            for x in [cs_enum(n) for n in real]:
                if x not in dedup:
                    dedup.append(x)
            m = []
            for x in out[2:].split(','):
                if x and x not in m:
                    m.append(x)
            ctx.compared()
            if dedup != m:
                ctx.disagree({'kind': 'att', 'declared': d, 'attempt_cfg': c}, dedup, m, 'attempt_charsets differ')


# ---- unit level --------------------------------------------------------------------------------
class _FakeEntity(object):
    def __init__(self, data, attempts):
        self.fp = io.BytesIO(data)
        self.attempt_charsets = list(attempts)
        self.params = {}
        self.charset = None


def unit_parse_qs(text, enc='utf-8'):
    from cherrypy.lib import httputil
    try:
        return httputil.parse_query_string(text, encoding=enc)
    except UnicodeDecodeError:
        return 'unicode'
    except Exception as e:               # any other exception would be a 500 in a request
        return 'raised ' + type(e).__name__


def unit_urlencoded(data, attempts=('utf-8',)):
    cherrypy = _cherrypy()
    from cherrypy import _cpreqbody
    ent = _FakeEntity(data, attempts)
    try:
        _cpreqbody.process_urlencoded(ent)
    except cherrypy.HTTPError as e:
        return e.status
    except Exception as e:
        return 'raised ' + type(e).__name__
    return ent.params


def small_strings(maxlen, alphabet='a%26+&=;'):
    for n in range(maxlen + 1):
        for t in itertools.product(alphabet, repeat=n):
            yield ''.join(t)


def check_units(ctx, strings, enc='utf-8', attempts=('utf-8',), compare=True):
    """Same strings as query text and as body bytes through the anchored units directly."""
    strings = list(strings)
    me = cs_enum(enc)
    matt = ','.join(cs_enum(a) for a in attempts) or '-'
    lines = None
    if compare:
        lines = ctx.model(['pqs %s %s' % (me, tx(s)) for s in strings] +
                          ['purl %s %s' % (matt, hx(s.encode('utf-8'))) for s in strings])
    n = len(strings)
    for i, s in enumerate(strings):
        raw = s.encode('utf-8')
        ctx.case({'kind': 'unit', 's': s}, nontrivial=('%' in s or '+' in s), key='unit|' + s + '|' + me + '|' + matt)
        rq = unit_parse_qs(s, enc)
        rb = unit_urlencoded(raw, attempts)
        ctx.count('unit_qs:' + (rq if isinstance(rq, str) else 'ok'))
        ctx.count('unit_body:' + (str(rb) if isinstance(rb, (int, str)) else 'ok'))
        for name, r in (('parse_query_string', rq), ('process_urlencoded', rb)):
            if isinstance(r, str) and r.startswith('raised'):
                ctx.oracle_fail({'kind': 'unit', 's': s, 'enc': enc, 'attempts': list(attempts)},
                                '%s(%r) %s (neither parameters nor a 404/400 refusal)' % (name, s, r), None)
        # oracle (well-formed escapes only)
        eq = oracle_query(raw, enc)
        if eq is not None:
            want = 'unicode' if eq == REFUSED else group(eq)
            if rq != want:
                ctx.oracle_fail({'kind': 'unit_qs', 's': s, 'enc': enc},
                                'parse_query_string(%r) -> %r, the string carries %r' % (s, rq, want), None)
        eb = oracle_body(raw, attempts)
        if eb is not None:
            want = 400 if eb == REFUSED else group(eb)
            if rb != want:
                ctx.oracle_fail({'kind': 'unit_body', 's': s, 'attempts': list(attempts)},
                                'process_urlencoded(%r) -> %r, the body carries %r' % (raw, rb, want), None)
        if lines is not None:
            ctx.compared(2)
            mq = lines[i]
            mq = parse_params(mq[2:]) if mq.startswith('P ') else mq[2:]
            if mq != rq:
                ctx.disagree({'kind': 'unit_qs', 's': s, 'enc': enc}, rq, mq, 'parse_query_string differs')
            mb = lines[n + i]
            mb = parse_params(mb[2:]) if mb.startswith('P ') else int(mb[2:])
            if isinstance(rq, str) and rq.startswith('raised') or isinstance(rb, str):
                continue
            if mb != rb:
                ctx.disagree({'kind': 'unit_body', 's': s, 'attempts': list(attempts)}, rb, mb,
                             'process_urlencoded differs')


def check_pct_items(ctx):
    """Every `%X` and `%XY` item through the bytes unquote_plus (the int(x, 16) quirks)."""
    from cherrypy._cpreqbody import unquote_plus
    items = [bytes([a]) for a in range(256)] + [bytes([a, b]) for a in range(256) for b in range(256)]
    items += [bytes([a, b, 0x41]) for a in (0x20, 0x32, 0x2d, 0x67) for b in range(256)]
    lines = ctx.model(['uqb ' + hx(b'%' + it) for it in items])
    for i, it in enumerate(items):
        try:
            real = unquote_plus(b'%' + it)
        except Exception as e:
            ctx.oracle_fail({'kind': 'uqb', 'b': (b'%' + it).hex()},
                            'unquote_plus(%r) raised %s' % (b'%' + it, type(e).__name__), None)
            continue
        ctx.case({'kind': 'uqb', 'b': (b'%' + it).hex()}, nontrivial=False)
        if lines is not None:
            if hx(real) != lines[i]:
                ctx.disagree({'kind': 'uqb', 'b': (b'%' + it).hex()}, hx(real), lines[i], 'bytes unquote_plus differs')
        # oracle: a well-formed escape is that byte
        if len(it) >= 2 and _PCT.match(b'%' + it[:2]) and real[:1] != bytes([int(it[:2], 16)]):
            ctx.oracle_fail({'kind': 'uqb', 'b': (b'%' + it).hex()},
                            'unquote_plus(%r) -> %r' % (b'%' + it, real), None)
    if lines is not None:
        ctx.compared(len(items))
    ctx.count('pct_items', len(items))


def check_codecs(ctx, n):
    """The model's decoders against CPython's codecs (and urllib's text unquote_plus)."""
    rng = ctx.rng
    cases = []
    seeds = [b'', b'a', b'\xff\xfe', b'\xfe\xff', b'\xff\xfea\x00', b'\xfe\xff\x00a', b'a\x00', b'a', b'\x00\xd8',
             b'\x00\xd8\x00\xdc', b'\x00\xdc\x00\xd8', b'\xd8\x00\xdc\x00', b'\xff\xfe\xff\xfe', b'\xef\xbb\xbfa',
             b'\xed\x9f\xbf', b'\xed\xa0\x80', b'\xee\x80\x80', b'\xf4\x8f\xbf\xbf', b'\xf4\x90\x80\x80', b'\xc0\x80',
             b'\xe0\x80\x80', b'\xe0\x9f\xbf', b'\xe0\xa0\x80', b'\xf0\x8f\xbf\xbf', b'\xf0\x90\x80\x80', b'\xc2',
             b'\xc2\x80', b'\xc1\xbf', b'\xf5\x80\x80\x80', b'\xf8\x88\x80\x80\x80', b'\x80', b'\x7f', b'\xdf\xbf']
    for s in seeds:
        for cs in CS_ENUM.values():
            cases.append((cs, s))
    pool = [b'a', b'\x00', b'\xff', b'\xfe', b'\xd8', b'\xdc', b'\xc3', b'\xa9', b'\xe2', b'\x82', b'\xac', b'\xf0', b'\x9f',
            b'\x98', b'\x80', b'\xed', b'\xa0', b'\xbf', b'\xef', b'\xbb', b'=', b'\xdb', b'\xdf']
    for _ in range(n):
        cs = rng.choice(list(CS_ENUM.values()))
        if rng.random() < 0.5:
            s = b''.join(rng.choice(pool) for _ in range(rng.randint(0, 8)))
        else:
            t = gen_text(rng, 'full')
            py = {v: k for k, v in CS_ENUM.items()}[cs]
            try:
                s = t.encode(py)
            except UnicodeEncodeError:
                s = t.encode('utf-8')
            if s and rng.random() < 0.3:
                i = rng.randrange(len(s))
                s = s[:i] + bytes([rng.randrange(256)]) + s[i + 1:]
            if s and rng.random() < 0.15:
                s = s[:-1]
        cases.append((cs, s))
    py = {v: k for k, v in CS_ENUM.items()}
    lines = ctx.model(['dec %s %s' % (cs, hx(s)) for cs, s in cases])
    for i, (cs, s) in enumerate(cases):
        try:
            real = 'T ' + tx(s.decode(py[cs]))
        except UnicodeDecodeError:
            real = 'E'
        ctx.evaluations += 1
        ctx.count('codec:%s:%s' % (cs, 'ok' if real != 'E' else 'error'))
        if lines is not None:
            ctx.compared()
            if lines[i] != real:
                ctx.disagree({'kind': 'dec', 'cs': cs, 'b': s.hex()}, real, lines[i], 'charset decoder differs')
    # urllib's unquote_plus(text, enc, 'strict')
    texts = []
    alpha = ['a', '%', '2', '6', '+', '%c3', '%a9', 'é', '%E2%82%AC', '%ff', '%2', '%g', ' ', '\U0001f600', '%41']
    for _ in range(n):
        texts.append((rng.choice(['utf8', 'latin1', 'ascii', 'utf16']),
                      ''.join(rng.choice(alpha) for _ in range(rng.randint(0, 7)))))
    lines = ctx.model(['uqt %s %s' % (cs, tx(t)) for cs, t in texts])
    for i, (cs, t) in enumerate(texts):
        try:
            real = 'T ' + tx(urllib.parse.unquote_plus(t, py[cs], 'strict'))
        except UnicodeDecodeError:
            real = 'E'
        ctx.evaluations += 1
        if lines is not None:
            ctx.compared()
            if lines[i] != real:
                ctx.disagree({'kind': 'uqt', 'cs': cs, 't': t}, real, lines[i], 'text unquote_plus differs')


# ----------------------------------------------------------------------------------------------
def _corpus():
    d = os.path.join(common.CORPUS, PROPERTY)
    out = []
    if os.path.isdir(d):
        for f in sorted(os.listdir(d)):
            if f.endswith('.json'):
                out.append(json.load(open(os.path.join(d, f))))
    return out


def corpus_cases():
    return [c for c in _corpus() if c.get('kind', 'req') != 'history']


def corpus_histories():
    return [c for c in _corpus() if c.get('kind') == 'history']


def witness_case(w):
    """findings/C03.json witnesses are {'query': str, 'body': str?}."""
    case = {'kind': 'req', 'q': w.get('query', '').encode('utf-8').hex(), 'qs_enc': None, 'method': 'GET', 'b': None,
            'declared': None, 'attempt_cfg': None, 'scenario': 'witness', 'qfrags': [], 'bfrags': []}
    if 'body' in w:
        case.update(method='POST', b=w['body'].encode('utf-8').hex())
    return case


def gen_mixed(rng, n):
    out = []
    for i in range(n):
        r = rng.random()
        if i % 400 == 399:
            out.append(gen_huge(rng))
        elif r < 0.70:
            out.append(gen_request(rng, big=(i % 25 == 24)))
        elif r < 0.84:
            out.append(gen_undecodable(rng))
        elif r < 0.91:
            out.append(gen_imagemap(rng))
        else:
            out.append(gen_raw(rng))
        # re-use: an earlier request again, its query alone, or its query with another request's body
        if rng.random() < 0.08:
            old = rng.choice(out[-50:])
            if old.get('kind') == 'req' and len(old['q']) + len(old.get('b') or '') < 4000:
                new = {k: v for k, v in old.items() if k != 'truth'}
                how = rng.choice(['again', 'query-only', 'other-body'])
                if how == 'query-only':
                    new.update(b=None, method='GET', declared=None, bfrags=[])
                elif how == 'other-body':
                    other = rng.choice(out[-50:])
                    if other.get('b') is not None and other.get('attempt_cfg') == old.get('attempt_cfg'):
                        new.update(b=other['b'], method='POST', declared=other.get('declared'),
                                   bfrags=list(other.get('bfrags') or []), ctype_style=other.get('ctype_style', 'plain'))
                new['scenario'] = 'reuse-' + how
                out.append(new)
    return out


def small_requests(maxlen):
    """Every small string as the query of a GET and as the body of a POST, through the whole stack."""
    for s in small_strings(maxlen):
        h = s.encode().hex()
        yield {'kind': 'req', 'q': h, 'qs_enc': None, 'method': 'GET', 'b': None, 'declared': None,
               'attempt_cfg': None, 'scenario': 'small-query', 'qfrags': [], 'bfrags': []}
        yield {'kind': 'req', 'q': '', 'qs_enc': None, 'method': 'POST', 'b': h, 'declared': None,
               'attempt_cfg': None, 'scenario': 'small-body', 'qfrags': [], 'bfrags': []}


def _worker(args):
    """Thorough tier: one slice of generated requests in a forked process (oracle + model comparison)."""
    seed, n, tier = args
    import random
    import types
    mod = __import__('harness.c03', fromlist=['x'])
    ctx = common.Ctx(mod, tier, seed)
    ctx.rng = random.Random(seed)
    ctx.lean = types.SimpleNamespace(driver_ok=True, ok=True)
    check_requests(ctx, gen_mixed(ctx.rng, n))
    check_histories(ctx, [gen_history(ctx.rng) for _ in range(max(1, n // 8))])
    return {'evaluations': ctx.evaluations, 'nontrivial': list(ctx._nontrivial), 'hist': ctx.hist,
            'oracle_failures': ctx.oracle_failures[:3], 'disagreements': ctx.disagreements[:3],
            'compared': ctx.disagreements_checked, 'samples': ctx.samples[:2], 'lines': ctx.driver.lines}


def run(ctx):
    # fixed findings + corpus first
    first = [witness_case(e['witness']) for e in ctx.known if e.get('witness')]
    first += corpus_cases()
    check_requests(ctx, first)
    check_pct_items(ctx)
    check_codecs(ctx, ctx.budget(600, 20000))
    check_units(ctx, small_strings(ctx.budget(5, 6)))
    check_units(ctx, small_strings(3, 'a%e9+='), enc='latin-1', attempts=('ascii', 'latin-1'))
    check_units(ctx, small_strings(ctx.budget(4, 6), '%c3a9=&'))           # reaches %c3%a9 and its broken halves
    check_requests(ctx, list(small_requests(ctx.budget(3, 4))))
    ctx.extra['exhaustive_small_scope'] = ('all strings of length <= %d over {a %% 2 6 + & = ;} as query and as body '
                                           '(units; also over {%% c 3 a 9 = &} up to length 4 quick / 6 thorough), length <= %d through WSGI; '
                                           'all %%X / %%XY items'
                                           % (ctx.budget(5, 6), ctx.budget(3, 4)))
    check_histories(ctx, corpus_histories())
    if ctx.quick():
        check_histories(ctx, [gen_history(ctx.rng) for _ in range(700)])
        check_requests(ctx, gen_mixed(ctx.rng, 5000))
        check_histories(ctx, [gen_history(ctx.rng) for _ in range(300)])
    else:
        jobs = [(ctx.rng.getrandbits(48), 12500, ctx.tier) for _ in range(24)]
        for res in common.parallel_map(_worker, jobs):
            ctx.evaluations += res['evaluations']
            ctx._nontrivial.update(bytes(x) for x in res['nontrivial'])
            for k, v in res['hist'].items():
                ctx.count(k, v)
            ctx.disagreements_checked += res['compared']
            ctx.driver.lines += res['lines']
            ctx.samples += res['samples'][:1] if len(ctx.samples) < 12 else []
            for case, what, sig in res['oracle_failures']:
                ctx.oracle_fail(case, what, sig)
            for case, impl, model, what in res['disagreements']:
                ctx.disagree(case, impl, model, what)


def search(ctx, around=None):
    """Deeper oracle-only hunt (called when a proof or the correspondence broke)."""
    check_pct_items(ctx)
    check_units(ctx, small_strings(5), compare=False)
    if not ctx.oracle_failures:
        check_requests(ctx, list(small_requests(3)), compare=False)
    if not ctx.oracle_failures:
        check_histories(ctx, [gen_history(ctx.rng) for _ in range(3000)], compare=False)
    if not ctx.oracle_failures:
        check_requests(ctx, gen_mixed(ctx.rng, 12000), compare=False)


def replay(ctx, case):
    kind = case.get('kind', 'req')
    if kind == 'history':
        check_histories(ctx, [{'kind': 'history', 'steps': case['steps']}], echo=True, minimise=False)
    elif kind == 'req':
        obs = run_real(case)
        print('query  :', bytes.fromhex(case['q']))
        if case.get('b') is not None:
            print('body   :', bytes.fromhex(case['b']), '| declared', case.get('declared'), '| configured',
                  case.get('attempt_cfg'))
        print('impl   :', {'status': obs['status'], 'kw': obs['kw']})
        m = ctx.model([model_line(case)])
        if m:
            print('model  :', canon_model(m[0]))
        print('oracle :', expected_of(case))
        check_requests(ctx, [case])
    elif kind in ('unit_qs', 'unit_body', 'unit'):
        print('impl qs  :', unit_parse_qs(case['s'], case.get('enc', 'utf-8')))
        print('impl body:', unit_urlencoded(case['s'].encode('utf-8'), case.get('attempts', ['utf-8'])))
        check_units(ctx, [case['s']], enc=case.get('enc', 'utf-8'), attempts=tuple(case.get('attempts', ['utf-8'])))
    elif kind == 'uqb':
        from cherrypy._cpreqbody import unquote_plus
        b = bytes.fromhex(case['b'])
        print('impl :', unquote_plus(b))
        print('model:', ctx.model(['uqb ' + hx(b)]))
        check_pct_items(ctx)
    else:
        check_codecs(ctx, 200)


if __name__ == '__main__':
    import sys
    if '--fresh' in sys.argv:
        _fresh_main()
