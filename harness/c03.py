"""C03 - query-string and form parameters reach the handler exactly as sent.

Model: lean/CpModel/UrlEnc.lean, theorems: lean/CpProofs/C03*.lean, driver: lean/Drv/C03.lean.
Real code: in-process WSGI requests to a `**kwargs` probe handler (one cherrypy.Application per
configuration variant), plus direct calls of the anchored units (httputil.parse_query_string,
_cpreqbody.unquote_plus / process_urlencoded) for the exhaustive small scopes.
The oracle (`oracle_*`) is written from the property statement: it looks only at the bytes on the wire
and the charsets in force, never at cherrypy; urllib.parse.parse_qsl is consulted as a second opinion.
"""
import codecs
import copy
import hashlib
import io
import itertools
import json
import os
import re
import signal
import threading
import urllib.parse

from . import common
from . import c03_bind
from . import c03_cov

PROPERTY = 'C03'
LEAN_TARGETS = ['CpProofs.C03', 'CpProofs.C03Malformed', 'CpProofs.C03Req', 'CpProofs.C03Bind', 'CpProofs.C03Tables',
                'drv_c03']
DRIVER = 'drv_c03'
THEOREMS = [
    # the property, over the model
    'CpProofs.C03.C03_qs_roundtrip',
    'CpProofs.C03.C03_body_roundtrip',
    'CpProofs.C03.C03_all_or_nothing_refused',
    'CpProofs.C03.C03_all_or_nothing_accepted',
    'CpProofs.C03.parseQsPairs_eq_none',
    'CpProofs.C03.C03_merge',
    'CpProofs.C03.C03_merge_imagemap',
    'CpProofs.C03.C03_imagemap',
    'CpProofs.C03.C03_imagemap_only_exact',
    'CpProofs.C03.imageMap_iff',
    'CpProofs.C03.not_imageMap_of_withEq',
    'CpProofs.C03.C03_handle_cases',
    'CpProofs.C03.C03_status_only_404_400',
    'CpProofs.C03.C03_request_roundtrip',
    'CpProofs.C03.C03_request_roundtrip_query_only',
    'CpProofs.C03.C03_handler_sees_exactly',
    # the load-bearing lemmas
    'CpProofs.C03.query_unquote_styled',
    'CpProofs.C03.body_unquote_styled',
    'CpProofs.C03.pieces_joinSegs',
    'CpProofs.C03.rawPairs_bodyWire',
    'CpProofs.C03.processUrlencoded_eq',
    'CpProofs.C03.parseQsPairs_eq',
    'CpProofs.C03.lookup_addAll',
    'CpProofs.C03.lookup_mergeBody',
    'CpProofs.C03.utf8_rt',
    'CpProofs.C03.latin1_rt',
    'CpProofs.C03.ascii_rt',
    'CpProofs.C03.utf16le_rt',
    'CpProofs.C03.recodeQS_utf8',
    'CpProofs.C03.attemptCharsets_declared',
    # both percent-decoders on EVERY input (malformed escapes), raw query bytes, attempt order, UTF-16-BE
    'CpProofs.C03.pctJoin_escFix_pct',
    'CpProofs.C03.unquoteImpl_cons_ne',
    'CpProofs.C03.unquoteImpl_escape',
    'CpProofs.C03.unquoteImpl_malformed',
    'CpProofs.C03.unquoteImpl_of_noEscape',
    'CpProofs.C03.bodyUnq_cons_ne',
    'CpProofs.C03.bodyUnq_pct',
    'CpProofs.C03.bodyUnq_escape',
    'CpProofs.C03.recodeQS_fallback',
    'CpProofs.C03.recodePathQs_utf8',
    'CpProofs.C03.recodePathQs_latin1',
    'CpProofs.C03.recodePathQs_path_fails',
    'CpProofs.C03.C03_query_without_escape_accepted',
    'CpProofs.C03.attemptCharsets_spec',
    'CpProofs.C03.C03_first_attempt_wins',
    'CpProofs.C03.C03_latin1_never_refused',
    'CpProofs.C03.utf16be_rt',
    # the request around the parsers: which bodies are read, statuses, multipart fields
    'CpProofs.C03.selectProc_default',
    'CpProofs.C03.selectProc_default_urlencoded_iff',
    'CpProofs.C03.handleX_eq_handle_body',
    'CpProofs.C03.handleX_eq_handle_nobody',
    'CpProofs.C03.handleX_411_iff',
    'CpProofs.C03.handleX_status',
    'CpProofs.C03.lookup_addAllA',
    'CpProofs.C03.partsParams_eq',
    'CpProofs.C03.decodeEntity_eq',
    'CpProofs.C03.fieldAtoms_eq_none',
    'CpProofs.C03.C03_multipart_merge',
    'CpProofs.C03.C03_multipart_handler_sees',
    # binding to the handler's signature
    'CpProofs.C03.C03_bind_catchall',
    'CpProofs.C03.respond_catchall',
    'CpProofs.C03.bindDecision_status',
    'CpProofs.C03.C03_bind_400_needs_body_key',
    'CpProofs.C03.C03_bind_5xx_witnesses',
    'CpProofs.C03.C03_bind_self_key_repaired',
    'CpProofs.C03.C03_bind_never_5xx_full_false',
    'CpProofs.C03.C03_bind_never_5xx_partial',
    'CpProofs.C03.respond_status',
    'CpProofs.C03.respond_handler',
    'CpProofs.C03.lookup_lateKwargs',
    'CpProofs.C03.respond_catchall_late',
    # tables regenerated from the live modules
    'CpProofs.C03.tables_processors',
    'CpProofs.C03.tables_imagemap_pattern',
    'CpProofs.C03.tables_defaults',
    'CpProofs.C03.tables_body_pct1',
    'CpProofs.C03.tables_body_pct_hex',
]
LEVEL = 'proof'
TECHNIQUE = ('Lean 4 proof: round-trip of percent/plus encoding through the transcribed decoders by induction over '
             'the character / pair list, for every multimap, encoding style and round-tripping codec (UTF-8 = core '
             "Lean's verified codec); model tied to cherrypy by a differential run through a **kwargs handler")
LEVEL_TEXT = ('Proved in Lean over the transcribed decoders, for every list of (key, value) texts (any length, characters, '
              'repeats, empty keys/values), every per-character (query) / per-byte (body) encoding style (literal, + for '
              'space, %XY with free hex case per digit; only % + & ; = must be escaped), every mix of & and ; with empty '
              'segments, blank values with or without =, every split between query string and body, every codec with a '
              "round-trip law (UTF-8 = core Lean's verified codec, Latin-1 <= 255, US-ASCII <= 127, for bodies also UTF-16-LE, "
              'UTF-16-BE and UTF-16 with either byte-order mark, each with a proved round trip) placed behind any failing '
              'attempts: the handler is called and each key carries exactly the values sent, query-string values before body '
              'values, in wire order, scalar for one and flat list for several (C03_request_roundtrip, C03_qs_roundtrip, '
              'C03_body_roundtrip, C03_merge); only an exact N,M (1-18 digits) is image-map coordinates (imageMap_iff); the '
              'response is 404 iff the query string does not decode, 400 iff it does and no attempted charset decodes every '
              'key and value of the body, and an accepted body was decoded by one single charset as a whole '
              '(C03_handle_cases, C03_all_or_nothing_*); for EVERY request whose handler is called, malformed or not, the '
              'kwargs are a dict carrying per key exactly the completely decoded query values then body values '
              '(C03_handler_sees_exactly). Outside the round trip the code is characterised exactly: both percent decoders '
              'on every input as scan equations (query: a malformed % stays literally, unquoteImpl_malformed / '
              '_of_noEscape; body: the % is dropped and int(x,16) leniency applies, bodyUnq_pct); raw non-UTF-8 query bytes '
              'fall back to Latin-1 and never cause a 404 without an escape (recodeQS_fallback, '
              'C03_query_without_escape_accepted), path and query are transcoded in one try (recodePathQs_path_fails); '
              'the first attempted charset that reads everything wins, rightly or not (C03_first_attempt_wins, '
              'C03_latin1_never_refused, attemptCharsets_spec). Around the parsers: a body is read as a form iff the method '
              'carries bodies, process_request_body is on, a length is announced (else 411) and the media type is exactly '
              'the lower-case string (selectProc_default_urlencoded_iff, handleX_eq_handle_body / _nobody, handleX_411_iff, '
              'handleX_status); multipart fields are promoted and merged behind the query values by the same flat-list law '
              '(C03_multipart_merge, C03_multipart_handler_sees, fieldAtoms_eq_none: refusal per field, not per body). '
              'Binding: a handler that takes any keyword is called with exactly request.params incl. late assignments '
              '(C03_bind_catchall, respond_catchall, lookup_lateKwargs); binding answers 404/400/500 only, 400 only with a '
              'body key; "never a 5xx from binding" is FALSE for the code, repaired or not (C03_bind_never_5xx_full_false: '
              'required keyword-only parameter missing, positional-only named by keyword, plain-function handlers; the '
              'key self sent to a method was a fourth class until repair 172eec3, C03_bind_self_key_repaired: 404/400 now) '
              'and proved for bound handlers without positional-only / required keyword-only parameters, for the repaired '
              'code whatever the keys (C03_bind_never_5xx_partial: test_callable_spec is complete there); whether the '
              'live test_callable_spec checks the bound first argument is probed on every run (Gen specChecksBoundArg) '
              'and the model follows the probe. Partial: query_string_encoding and '
              'uri_encoding are proved for ASCII-compatible codecs only; Content-Type header syntax, multipart framing and '
              'CPython codecs other than UTF-8 are compared, not proved.')
LEVEL_NOTE = ('Trusted: Lean kernel (axioms propext, Classical.choice, Quot.sound only); the hand model '
              'lean/CpModel/UrlEnc.lean + UrlEncReq.lean + UrlEncBind.lean as validated on every run against cherrypy through a '
              '**kwargs handler and handlers with generated signatures (whole requests), the anchored units, the live '
              'test_callable_spec, CPython itself for call binding, every %X/%XY item and exhaustive small strings; that the hand-written Latin-1/'
              'ASCII/UTF-16 decoders equal CPython codecs (differential only); the harness and its wire-level oracle (cross-checked with urllib.parse.parse_qsl).')
TRUSTED_BASE = [
    'the Latin-1 / ASCII / UTF-16 decoders are hand-written (round trips proved against hand-written encoders); that '
    'they are what CPython codecs do is validated by the differential `dec` stream only; UTF-8 is core Lean\'s',
    'CPython semantics of str.split / bytes.split / int(x, 16) / re.fullmatch as transcribed in CpModel/UrlEnc.lean',
]
ASSUMPTIONS = [
    'round-trip theorems: PATH_INFO decodes in request.uri_encoding (default utf-8; recode_path_qs transcodes path and '
    'query together - the other case is modelled, compared and characterised by recodePathQs_path_fails)',
    'binding: the handler body itself does not raise TypeError; no dispatcher sets handler.kwargs beyond the modelled '
    'late assignments',
    'charset names are known to CPython (unknown names raise LookupError: property C07)',
    'the WSGI server hands QUERY_STRING over as Latin-1 text (PEP 3333)',
]
RULE = ('multimaps (0-8 pairs over 1-4 keys, texts of 0-20 characters drawn from ASCII / the five reserved characters / '
        'controls / Latin-1 / BMP / astral planes) x per-character encoding style (literal, %XX with per-digit hex case, '
        '+ or %20) x separators & ; (and empty pairs) x split between query string and body x body charset scenario '
        '(declared, default, configured fallbacks, declared-but-wrong, undecodable) x query_string_encoding; plus '
        'image-map shapes, exhaustive strings over {a % 2 6 + & = ;} and every %X / %XY item; plus HISTORIES of 2-6 '
        'requests against one long-lived application that re-use each other\'s query strings / bodies / keys (list-valued '
        'query key merged with body values, then the same query again; image map; refused then accepted bytes), every '
        'request judged stand-alone, with a handler that scribbles over every mutable it receives; plus the dimensions '
        'around the parsers (uri_encoding x non-ASCII path, body on GET/DELETE/HEAD/OPTIONS, process_request_body, '
        'processors overridden, media type spellings, no Content-Type, no Content-Length, empty body, POST without body, '
        'extra Content-Type parameters, a before_handler tool assigning params: random + an exhaustive grid), '
        'multipart/form-data fields (repeated names, uploads, per-part charsets, undecodable) next to a query string, '
        'handlers with generated signatures (positional, positional-only, defaults, *args, keyword-only, **kwargs; method / '
        'callable object / plain function) reached with path atoms, query keys and body keys aimed at the boundaries of '
        'the signature; a case is non-trivial '
        'when its wire form contains at least one of % + or a non-ASCII byte, or a repeated key, or parameters on '
        'both sides; distinct = distinct (query bytes, body bytes, configuration)')

CS_ENUM = {'utf-8': 'utf8', 'iso8859-1': 'latin1', 'ascii': 'ascii', 'utf-16': 'utf16',
           'utf-16-le': 'utf16le', 'utf-16-be': 'utf16be'}


def tables(ctx):
    """Finite facts of the anchored code, obtained by running / introspecting the live modules."""
    cherrypy = _cherrypy()
    from cherrypy import _cpreqbody, _cprequest
    from cherrypy.lib import httputil
    def uq(x):
        # whatever the code under test does is data: an exception or a non-bytes result becomes an entry no proof accepts
        try:
            r = _cpreqbody.unquote_plus(x)
            return r if isinstance(r, bytes) else [999]
        except Exception:
            return [999]
    hexd = b'0123456789abcdefABCDEF'

    def lst(xs):
        return '[' + ', '.join(str(x) for x in xs) + ']'

    def strs(xs):
        return '[' + ', '.join(json.dumps(x) for x in xs) + ']'

    body = _cpreqbody.RequestBody(io.BytesIO(b''), httputil.HeaderMap())
    procs = sorted((k, getattr(v, '__name__', repr(v))) for k, v in body.processors.items())
    # probe: does test_callable_spec refuse a parameter named like the bound first argument (repair 172eec3)?
    probe = c03_bind.make_root(dict(c03_bind.CATCH_ALL, kind='method', varargs=False), lambda loc: None)
    bound_arg_checked = c03_bind.live_spec(cherrypy, probe.default, [], {'self': '1'}, []) == 404
    pct1 = [lst(uq(b'%' + bytes([b]))) for b in range(256)]
    pcthex = ['(%d, %d, %s)' % (h, l, lst(uq(b'%' + bytes([h, l])))) for h in hexd for l in hexd]
    src = [
        '/- GENERATED by harness/c03.py (tables) from the live cherrypy modules. Do not edit. -/',
        'namespace CpModel.Gen.C03',
        '',
        '/-- `httputil.image_map_pattern.pattern` -/',
        'def imageMapPattern : String := %s' % json.dumps(httputil.image_map_pattern.pattern),
        '',
        '/-- `_cpreqbody.Entity.attempt_charsets` (class default) -/',
        'def defaultAttemptCharsets : List String := %s' % strs(_cpreqbody.Entity.attempt_charsets),
        '',
        '/-- `_cprequest.Request.query_string_encoding` -/',
        'def queryStringEncoding : String := %s' % json.dumps(_cprequest.Request.query_string_encoding),
        '',
        '/-- `_cprequest.Request.methods_with_bodies` -/',
        'def methodsWithBodies : List String := %s' % strs(_cprequest.Request.methods_with_bodies),
        '',
        '/-- `RequestBody(...).processors`: media type (or top-level type) -> processor function, sorted by key -/',
        'def requestBodyProcessors : List (String × String) := [%s]'
        % ', '.join('(%s, %s)' % (json.dumps(k), json.dumps(v)) for k, v in procs),
        '',
        "/-- probed: `test_callable_spec(<bound method def f(self, **kw)>, [], {'self': '1'})` raises HTTPError(404) -/",
        'def specChecksBoundArg : Bool := %s' % ('true' if bound_arg_checked else 'false'),
        '',
        '/-- `_cpreqbody.Part.attempt_charsets` (class default) -/',
        'def partAttemptCharsets : List String := %s' % strs(_cpreqbody.Part.attempt_charsets),
        '',
        '/-- `_cpreqbody.RequestBody.default_content_type` (no Content-Type header) -/',
        'def defaultContentType : String := %s' % json.dumps(_cpreqbody.RequestBody.default_content_type),
        '',
        "/-- `_cpreqbody.unquote_plus(b'%' + bytes([b]))` for b = 0 … 255 -/",
        'def bodyPct1 : List (List Nat) := [',
        ',\n'.join('  ' + ', '.join(pct1[i:i + 8]) for i in range(0, 256, 8)),
        ']',
        '',
        "/-- `(h, l, _cpreqbody.unquote_plus(b'%' + bytes([h, l])))` for all 22 x 22 pairs of hex digits -/",
        'def bodyPctHex : List (Nat × Nat × List Nat) := [',
        ',\n'.join('  ' + ', '.join(pcthex[i:i + 6]) for i in range(0, len(pcthex), 6)),
        ']',
        '',
        'end CpModel.Gen.C03',
        '',
    ]
    return {'CpModel/Gen/C03Tables.lean': '\n'.join(src)}


def cs_enum(name):
    """Python charset name -> the model's charset token (`unknown` = bytes.decode raises LookupError)."""
    try:
        b'a'.decode(name)
    except LookupError:
        return 'unknown'
    except UnicodeError:
        pass                             # a real codec that rejects this input
    except ValueError:
        return 'unknown'                 # e.g. a NUL inside the name
    try:
        return CS_ENUM[codecs.lookup(name).name]
    except KeyError:
        raise common.HarnessError('charset %r is outside the modelled set' % (name,))


def hx(b):
    return b.hex() if b else '-'


def tx(s):
    return '.'.join(str(ord(c)) for c in s) if s else '-'


def untx(t):
    return '' if t == '-' else ''.join(chr(int(x)) for x in t.split('.'))


class PartRef(int):
    """The model's `p<idx>`: the Part object of the multipart part with that wire index."""


def parse_atom(a):
    if a[0] == 'p':
        return PartRef(a[1:])
    return int(a[1:]) if a[0] == 'i' else untx(a[1:])


def _resolve_parts(v, parts):
    if isinstance(v, list):
        return [_resolve_parts(x, parts) for x in v]
    if isinstance(v, PartRef):
        p = parts[int(v)]
        return {'part': p.get('filename'), 'data': p['value']}
    return v


def parse_params(s):
    if s == '~':
        return {}
    d = {}
    for ent in s.split('|'):
        k, v = ent.split(':', 1)
        key = untx(k)
        if key in d:
            raise common.HarnessError('model printed a duplicate key')
        d[key] = [parse_atom(x) for x in v[1:].split(',')] if v[0] == 'l' else parse_atom(v)
    return d


# ----------------------------------------------------------------------------------------------
# real-code runner
# ----------------------------------------------------------------------------------------------
POISON = '\x00leaked-from-an-earlier-request'
FORM = 'application/x-www-form-urlencoded'
BODY_METHODS = ('POST', 'PUT', 'PATCH')          # Request.methods_with_bodies (theorem tables_defaults)
HANG_SECONDS = 20
_apps = {}
_sig_apps = []
_seen = {'calls': 0, 'kwargs': None, 'attempts': None}
_cp = []


def _cherrypy():
    if not _cp:
        import cherrypy
        cherrypy.config.update({'environment': 'test_suite', 'log.screen': False})
        _cp.append(cherrypy)
    return _cp[0]


def _canon_value(v):
    """A handler argument as a plain observation: text, int, list of those; a multipart Part (file upload) becomes
    {'part': filename, 'data': hex of its content}."""
    if isinstance(v, (list, tuple)):
        return [_canon_value(x) for x in v]
    if isinstance(v, (str, int)) or v is None:
        return v
    if hasattr(v, 'filename') and hasattr(v, 'file'):
        if v.file:
            v.file.seek(0)
            data = v.file.read()
            v.file.seek(0)
        else:
            data = v.value
        if isinstance(data, str):
            data = data.encode('utf-8', 'surrogatepass')
        return {'part': v.filename, 'data': bytes(data or b'').hex()}
    return {'object': type(v).__name__}


def _scribble(cherrypy, dicts):
    # A handler may do what it likes with its arguments.  Scribble over every mutable object this request handed
    # out, so that anything a parsing helper shares with a LATER request shows up there as a foreign value (what a
    # request's handler receives must depend on that request only).
    for d in dicts:
        if isinstance(d, dict):
            for v in list(d.values()):
                if isinstance(v, list):
                    v.append(POISON)
            d[POISON] = POISON


def _record(cherrypy, args, kwargs, loc=None):
    try:
        req = cherrypy.request
        _seen['calls'] += 1
        _seen['kwargs'] = {k: _canon_value(v) for k, v in kwargs.items()}
        _seen['args'] = [_canon_value(a) for a in args]
        if loc is not None:
            _seen['locals'] = {k: ({kk: _canon_value(vv) for kk, vv in v.items()} if isinstance(v, dict)
                                   else _canon_value(v)) for k, v in loc.items() if k != 'self'}
        _seen['attempts'] = list(req.body.attempt_charsets)
        _seen['ctype'] = req.body.content_type.value
        _scribble(cherrypy, (kwargs, req.params, req.body.params, req.body.request_params)
                  + tuple(v for v in (loc or {}).values() if isinstance(v, dict)))
    except Exception as e:                     # a bug of this probe must not look like a CherryPy failure
        _seen['probe_error'] = '%s: %s' % (type(e).__name__, e)


def _processors(name):
    from cherrypy import _cpreqbody
    return {'empty': {}, 'text-form': {'text': _cpreqbody.process_urlencoded},
            'form-only': {FORM: _cpreqbody.process_urlencoded}}[name]


PROC_TOKENS = {None: 'D', 'empty': '~', 'text-form': '%s:u' % '.'.join(str(ord(c)) for c in 'text'),
               'form-only': '%s:u' % '.'.join(str(ord(c)) for c in FORM)}


def _get_app(case):
    cherrypy = _cherrypy()
    sig = case.get('sig')
    att = case.get('attempt_cfg')
    key = (case.get('qs_enc'), tuple(att) if att is not None else None, case.get('uri_enc'),
           case.get('process_body'), case.get('processors'),
           c03_bind.sig_token(sig) if sig is not None else None,
           json.dumps(case.get('late'), sort_keys=True) if case.get('late') else None)
    if key in _apps:
        return _apps[key]
    if sig is None:
        class Root(object):
            def index(*args, **kwargs):
                _record(cherrypy, args, kwargs)
                return b'ok'
            index.exposed = True

            def default(*args, **kwargs):
                _record(cherrypy, args, kwargs)
                return b'ok'
            default.exposed = True
        root = Root()
    else:
        def rec(loc):
            # handler.kwargs (request.params + what a dispatcher / tool gave the handler) is what the model's
            # `H <params>` stands for; the handler's own view is `locals`
            try:
                h = cherrypy.request.handler
                while hasattr(h, 'oldhandler'):  # tools.encode wraps the page handler
                    h = h.oldhandler
                kw = dict(h.kwargs)
            except Exception as e:               # a bug of this probe must not look like a CherryPy failure
                _seen['probe_error'] = '%s: %s' % (type(e).__name__, e)
                return
            _record(cherrypy, (), kw, loc)
        root = c03_bind.make_root(sig, rec)
    conf = {}
    if case.get('qs_enc') is not None:
        conf['request.query_string_encoding'] = case['qs_enc']
    if att is not None:
        conf['request.body.attempt_charsets'] = list(att)
    if case.get('uri_enc') is not None:
        conf['request.uri_encoding'] = case['uri_enc']
    if case.get('process_body') is not None:
        conf['request.process_request_body'] = bool(case['process_body'])
    if case.get('processors') is not None:
        conf['request.body.processors'] = _processors(case['processors'])
    if case.get('late'):
        late = case['late']

        def before_handler():
            # what a tool may do between dispatch and the call: the handler's keyword arguments are bound late
            for k, v in late.get('params') or []:
                cherrypy.request.params[k] = v
            if late.get('handler_kwargs'):
                cherrypy.request.handler.kwargs = dict((k, v) for k, v in late['handler_kwargs'])
        conf['hooks.before_handler'] = before_handler
    app = cherrypy.Application(root, '', {'/': conf})
    _apps[key] = app
    if sig is not None or case.get('late'):     # generated signatures: keep only the most recent applications
        _sig_apps.append(key)
        if len(_sig_apps) > 48:
            _apps.pop(_sig_apps.pop(0), None)
    return app


CTYPE_STYLES = {
    'plain': '%s; charset=%s', 'quoted': '%s; charset="%s"', 'nospace': '%s;charset=%s',
    'spaced': '%s ;  charset=%s ', 'param-case': '%s; Charset=%s', 'extra-param': '%s; boundary=x; charset=%s',
    'trailing-param': '%s; charset=%s; q=0.5', 'upper-value': '%s; CHARSET=%s', 'tab': '%s;\tcharset=%s',
}


def media_of(case):
    """The media type the request is labelled with ('' = no Content-Type header reaches the server)."""
    if case.get('b') is None or case.get('no_ctype'):
        return ''
    return case.get('media', FORM)


def ctype_of(case):
    cs = case.get('declared')
    base = case.get('media', FORM) + case.get('ctype_extra', '')
    if case.get('boundary'):
        base += '; boundary=' + case['boundary']
    return base if cs is None else CTYPE_STYLES[case.get('ctype_style', 'plain')] % (base, cs)


class _Hang(BaseException):
    pass


def _on_alarm(signum, frame):
    raise _Hang()


_hangs = [0]
MAX_HANGS = 3


class deadline(object):
    """`with deadline():` - a call into the code under test that does not return within HANG_SECONDS raises _Hang
    (main thread only; elsewhere no guard).  A hang is an observation, reported with its input."""
    def __enter__(self):
        self.timed = threading.current_thread() is threading.main_thread()
        if self.timed:
            self.old = signal.signal(signal.SIGALRM, _on_alarm)
            signal.setitimer(signal.ITIMER_REAL, HANG_SECONDS)
        return self

    def __exit__(self, et, ev, tb):
        if self.timed:
            signal.setitimer(signal.ITIMER_REAL, 0)
            signal.signal(signal.SIGALRM, self.old)
        if et is _Hang:
            _hangs[0] += 1
        return False


def too_many_hangs(ctx):
    if _hangs[0] >= MAX_HANGS:
        ctx.note('stopped this stream after %d hangs of the code under test' % _hangs[0])
        return True
    return False


def run_real(case):
    """One in-process WSGI request.  Returns {'status': int | 'raised X' | 'hang', 'kw': dict|None, 'calls': n,
    'attempts': list|None, ...}: whatever the code under test does is an observation."""
    app = _get_app(case)
    q = bytes.fromhex(case['q'])
    env = {
        'REQUEST_METHOD': case.get('method', 'GET'), 'SCRIPT_NAME': '',
        'PATH_INFO': bytes.fromhex(case.get('path') or '2f').decode('latin-1'),
        'QUERY_STRING': q.decode('latin-1'), 'SERVER_NAME': 'localhost', 'SERVER_PORT': '80',
        'SERVER_PROTOCOL': 'HTTP/1.1', 'HTTP_HOST': 'localhost', 'REMOTE_ADDR': '127.0.0.1',
        'wsgi.version': (1, 0), 'wsgi.url_scheme': 'http', 'wsgi.input': io.BytesIO(b''),
        'wsgi.errors': io.StringIO(), 'wsgi.multithread': False, 'wsgi.multiprocess': False,
        'wsgi.run_once': False,
    }
    if case.get('b') is not None:
        body = bytes.fromhex(case['b'])
        if not case.get('no_ctype'):
            env['CONTENT_TYPE'] = ctype_of(case)
        if not case.get('no_length'):
            env['CONTENT_LENGTH'] = str(len(body))
        env['wsgi.input'] = io.BytesIO(body)
    _seen.clear()
    _seen.update(calls=0, kwargs=None, attempts=None, args=None, locals=None, ctype=None)
    got = []

    def start_response(status, headers, exc_info=None):
        got.append(status)
        return lambda data: None

    status = None
    try:
        with deadline():
            it = app(env, start_response)
            try:
                for _ in it:
                    pass
            finally:
                if hasattr(it, 'close'):
                    it.close()
    except _Hang:
        status = 'hang (no response within %d s)' % HANG_SECONDS
    except Exception as e:                   # noqa: whatever escapes the WSGI application is an observation
        status = 'raised ' + type(e).__name__
    if _seen.get('probe_error'):
        raise common.HarnessError('probe handler failed: ' + _seen['probe_error'])
    if status is None:
        if not got:
            status = 'no start_response'
        else:
            try:
                status = int(got[0][:3])
            except (TypeError, ValueError):
                status = 'status line %r' % (got[0],)
    return {'status': status, 'kw': _seen['kwargs'], 'calls': _seen['calls'],
            'attempts': _seen['attempts'], 'args': _seen['args'], 'locals': _seen['locals'],
            'ctype': _seen['ctype']}


NEW_DIMS = ('uri_enc', 'process_body', 'processors', 'media', 'no_length', 'no_ctype', 'parts', 'sig', 'path',
            'boundary', 'late')


def uses_new_dims(case):
    if any(case.get(k) not in (None, False) for k in NEW_DIMS) or case.get('process_body') is not None:
        return True
    m = case.get('method', 'GET')
    return (case.get('b') is not None) != (m in BODY_METHODS)


def fields_token(case):
    out = []
    for p in case.get('parts') or []:
        out.append('%s:%d:%s:%s' % ('N' if p.get('name') is None else tx(p['name']), 1 if p.get('filename') is not None
                                    else 0, hx(bytes.fromhex(p['value'])),
                                    cs_enum(p['charset']) if p.get('charset') else 'N'))
    return '|'.join(out) or '~'


def model_line_x(case):
    """The `reqx` / `resp` line: every body dimension (and the handler's signature) spelled out."""
    qs_enc = cs_enum(case['qs_enc']) if case.get('qs_enc') else 'utf8'
    uri = cs_enum(case['uri_enc']) if case.get('uri_enc') else 'utf8'
    decl = cs_enum(case['declared']) if case.get('declared') and case.get('b') is not None \
        and not case.get('no_ctype') else 'N'
    conf = 'N'
    if case.get('attempt_cfg') is not None:
        conf = ','.join(cs_enum(c) for c in case['attempt_cfg']) or '-'
    pb = case.get('process_body') is not False and case.get('method', 'GET') in BODY_METHODS
    has_len = case.get('b') is not None and not case.get('no_length')
    body = hx(bytes.fromhex(case['b'])) if case.get('b') is not None else '-'
    rest = '%s %s %s %s %d %d %s %s %s %s %s %s' % (
        uri, qs_enc, hx(bytes.fromhex(case.get('path') or '2f')), hx(bytes.fromhex(case['q'])), pb, has_len,
        PROC_TOKENS[case.get('processors')], tx(media_of(case)), decl, conf, body, fields_token(case))
    if case.get('sig') is not None or case.get('late'):
        late = case.get('late') or {}
        pairs = list(late.get('params') or []) + list(late.get('handler_kwargs') or [])
        return 'resp %s %d %s %s' % (c03_bind.sig_token(case.get('sig') or c03_bind.CATCH_ALL),
                                     len(case.get('atoms') or []),
                                     ','.join('%s:%s' % (tx(k), tx(v)) for k, v in pairs) or '~', rest)
    return 'reqx ' + rest


def model_line(case):
    if uses_new_dims(case):
        return model_line_x(case)
    qs_enc = cs_enum(case['qs_enc']) if case.get('qs_enc') else 'utf8'
    decl = cs_enum(case['declared']) if case.get('declared') else 'N'
    conf = 'N'
    if case.get('attempt_cfg') is not None:
        conf = ','.join(cs_enum(c) for c in case['attempt_cfg']) or '-'
    body = 'N' if case.get('b') is None else hx(bytes.fromhex(case['b']))
    return 'req %s %s %s %s %s' % (qs_enc, hx(bytes.fromhex(case['q'])), decl, conf, body)


def canon_model(line, case=None):
    if line.startswith('H '):
        kw = parse_params(line[2:])
        if case is not None and case.get('parts'):
            kw = {k: _resolve_parts(v, case['parts']) for k, v in kw.items()}
        return {'status': 200, 'kw': kw}
    if line.startswith('S '):
        return {'status': int(line[2:]), 'kw': None}
    raise common.HarnessError('unexpected driver output %r' % line)


# ----------------------------------------------------------------------------------------------
# oracle: from the statement, on the wire bytes
# ----------------------------------------------------------------------------------------------
_PCT = re.compile(rb'%([0-9A-Fa-f]{2})')
_IMAGEMAP = re.compile(rb'\A([0-9]+),([0-9]+)\Z')
REFUSED = 'refused'


def wellformed(bs):
    """Every % starts a two-hex-digit escape."""
    return b'%' not in _PCT.sub(b'', bs)


def pct_decode(bs):
    return _PCT.sub(lambda m: bytes([int(m.group(1), 16)]), bs.replace(b'+', b' '))


def wire_pairs(bs):
    """(key bytes, value bytes) after percent/plus decoding, in wire order, blanks kept."""
    out = []
    for piece in re.split(rb'[&;]', bs):
        if piece:
            k, _, v = piece.partition(b'=')
            out.append((pct_decode(k), pct_decode(v)))
    return out


def group(pairs):
    """Ordered (key, value) pairs -> what a handler must receive."""
    d = {}
    for k, v in pairs:
        d.setdefault(k, []).append(v)
    return {k: (vs[0] if len(vs) == 1 else vs) for k, vs in d.items()}


def oracle_query(q, enc):
    """Expected pairs for the query string, REFUSED, or None when the statement does not say
    (malformed escapes, raw bytes that are not UTF-8)."""
    m = _IMAGEMAP.match(q)
    if m:
        if max(len(m.group(1)), len(m.group(2))) > 18:
            return None                  # coordinates beyond any int64: the statement is read as silent
        return [('x', int(m.group(1))), ('y', int(m.group(2)))]
    if not wellformed(q):
        return None
    try:
        q.decode('utf-8')
    except UnicodeDecodeError:
        return None                      # raw non-UTF-8 bytes: cherrypy's Latin-1 pass-through, not in the statement
    ascii_only = all(c < 0x80 for c in q)
    if not ascii_only and codecs.lookup(enc).name != 'utf-8':
        return None                      # raw UTF-8 next to escapes in another charset
    try:
        return [(k.decode(enc), v.decode(enc)) for k, v in wire_pairs(q)]
    except UnicodeDecodeError:
        return REFUSED


def oracle_body(b, attempts):
    if not wellformed(b):
        return None
    raw = wire_pairs(b)
    for cs in attempts:
        try:
            return [(k.decode(cs), v.decode(cs)) for k, v in raw]
        except (LookupError, ValueError):           # undecodable, or a charset nobody knows (decodes nothing)
            continue
    return REFUSED


def attempts_of(case):
    """attempt_charsets as the documentation describes them."""
    if case.get('attempt_cfg') is not None:
        return list(case['attempt_cfg'])
    d = case.get('declared')
    return ['utf-8'] if d is None else [d] + [c for c in ['utf-8'] if c != d]


def second_opinion_query(q, enc):
    """urllib.parse.parse_qsl on the same text (None when not applicable)."""
    if _IMAGEMAP.match(q):
        return None
    try:
        text = q.decode('utf-8')
    except UnicodeDecodeError:
        return None
    try:
        return urllib.parse.parse_qsl(text.replace(';', '&'), keep_blank_values=True,
                                      encoding=enc, errors='strict')
    except UnicodeDecodeError:
        return REFUSED


def second_opinion_body(b, attempts):
    if not all(c < 0x80 for c in b):
        return None
    if any(cs_enum(cs) not in ('utf8', 'latin1', 'ascii') for cs in attempts):
        return None
    text = b.decode('ascii').replace(';', '&')
    for cs in attempts:
        try:
            return urllib.parse.parse_qsl(text, keep_blank_values=True, encoding=cs, errors='strict')
        except UnicodeDecodeError:
            continue
    return REFUSED


def outside_quantifier(case):
    """Why the statement says nothing about this request (None = it does).  The statement covers parameters "sent
    as a query string and/or an application/x-www-form-urlencoded body" to a handler that can take them."""
    sig = case.get('sig')
    if sig is not None and not c03_bind.is_catch_all(sig):
        return 'handler with named parameters'
    if case.get('late'):
        return 'a tool assigns to request.params / handler.kwargs before the handler runs'
    if any(c >= 0x80 for c in bytes.fromhex(case.get('path') or '2f')):
        return 'non-ASCII path'
    if case.get('uri_enc') is not None and cs_enum(case['uri_enc']) != 'utf8' \
            and any(c >= 0x80 for c in bytes.fromhex(case['q'])):
        return 'request.uri_encoding is not utf-8 and the query string has raw non-ASCII bytes'
    if case.get('uri_enc') is not None and cs_enum(case['uri_enc']) not in ('utf8', 'latin1', 'ascii'):
        return 'request.uri_encoding is not ASCII-compatible'
    if case.get('parts'):
        return 'multipart body'
    method = case.get('method', 'GET')
    if case.get('b') is None:
        if method in BODY_METHODS and case.get('process_body') is not False:
            return 'body-carrying method without a body'
        return None
    if method not in BODY_METHODS:
        return 'body on a method without bodies'
    if case.get('process_body') is False:
        return 'request.process_request_body is off'
    if case.get('processors') is not None:
        return 'request.body.processors overridden'
    if case.get('no_ctype') or case.get('media', FORM) != FORM:
        return 'body not labelled application/x-www-form-urlencoded'
    if case.get('no_length'):
        return 'no Content-Length'
    return None


def expected_of(case, ignore_sig=False):
    """(expected, why): expected = dict for the handler | ('status', {codes}) | None (statement silent)."""
    out = outside_quantifier(dict(case, sig=None) if ignore_sig else case)
    if out is not None:
        return None, 'statement silent: ' + out
    q = bytes.fromhex(case['q'])
    enc = case.get('qs_enc') or 'utf8'
    eq = oracle_query(q, enc)
    so = second_opinion_query(q, enc)
    loose = case.get('scenario', '').startswith(('raw', 'small'))
    if eq is not None and so is not None and eq != so:
        if not loose:
            raise common.HarnessError('oracle and urllib disagree on query %r: %r vs %r' % (q, eq, so))
        eq = None
    eb = []
    if case.get('b') is not None:
        b = bytes.fromhex(case['b'])
        att = attempts_of(case)
        eb = oracle_body(b, att)
        sb = second_opinion_body(b, att)
        if eb is not None and sb is not None and eb != sb:
            if not loose:
                raise common.HarnessError('oracle and urllib disagree on body %r: %r vs %r' % (b, eb, sb))
            eb = None
    if eq is None or eb is None:
        if eq == REFUSED:
            return ('status', {404}), 'undecodable query'
        return None, 'statement silent'
    if eq == REFUSED and eb == REFUSED:
        return ('status', {404, 400}), 'undecodable query and body'
    if eq == REFUSED:
        return ('status', {404}), 'undecodable query'
    if eb == REFUSED:
        return ('status', {400}), 'undecodable body'
    return group(eq + eb), 'round trip'


def allowed_statuses(case):
    """Status codes the statement (200 / 404 / 400) and plain HTTP (411 for a body without length) allow."""
    ok = {200, 400, 404}
    if case.get('method', 'GET') in BODY_METHODS and case.get('process_body') is not False \
            and (case.get('b') is None or case.get('no_length')):
        ok.add(411)
    return ok


def judge_binding(case, obs):
    """A handler with named parameters.  The statement's "the handler receives exactly those keys and values" has one
    consequence here that does not depend on CherryPy's error mapping: when CPython can bind the parameters the
    request carries (and its path atoms) to the handler, the handler is called once with exactly those; when it
    cannot, the handler's body does not run."""
    bad = []
    exp, why = expected_of(case, ignore_sig=True)
    if not isinstance(exp, dict):
        return bad, None
    atoms = list(case.get('atoms') or [])
    bound = c03_bind.py_bind(case['sig'], atoms, exp)
    if bound is None:
        if obs['calls']:
            bad.append(('handler body ran although its signature cannot take %r + %r' % (atoms, exp), 'bound_impossible'))
        return bad, ('unbindable', exp)
    want = {k: ({kk: _canon_value(vv) for kk, vv in v.items()} if isinstance(v, dict) else _canon_value(v))
            for k, v in bound.items() if k != 'self'}
    if obs['status'] != 200 or obs['calls'] != 1:
        bad.append(('parameters %r (path atoms %r) fit def default(%s), but the response is %s and the handler ran %d times'
                    % (exp, atoms, c03_bind.param_list(case['sig']), obs['status'], obs['calls']), 'fitting_params_refused'))
    elif obs['locals'] != want:
        bad.append(('handler def default(%s) received %r, the request carried %r' % (
            c03_bind.param_list(case['sig']), obs['locals'], want), 'bound_params_differ'))
    return bad, ('bound', want)


def judge(case, obs):
    """Property predicate on one observation -> list of (what, signature)."""
    bad = []
    if not isinstance(obs['status'], int):
        bad.append(('the request ended in %s instead of a response' % obs['status'], 'no_response'))
        return bad, None
    if case.get('sig') is not None and not c03_bind.is_catch_all(case['sig']):
        return judge_binding(case, obs)
    exp, why = expected_of(case)
    if obs['calls'] > 1:
        bad.append(('handler called %d times' % obs['calls'], 'handler_called_twice'))
    if obs['status'] != 200 and obs['calls']:
        bad.append(('handler was called although the response is %d' % obs['status'], 'handler_called_on_refusal'))
    if obs['status'] not in allowed_statuses(case):
        bad.append(('status %d for %s (only 200, 404 for the query, 400 for the body are allowed)'
                    % (obs['status'], why), 'status_%d' % obs['status']))
        return bad, exp
    if exp is None:
        return bad, exp
    if isinstance(exp, tuple):
        if obs['status'] not in exp[1]:
            bad.append(('%s: expected status %s, got %d with handler arguments %r'
                        % (why, sorted(exp[1]), obs['status'], obs['kw']), 'not_refused'))
    else:
        if obs['status'] != 200 or obs['calls'] != 1:
            bad.append(('decodable parameters refused with %d (expected the handler to receive %r)'
                        % (obs['status'], exp), 'refused_%d' % obs['status']))
        elif obs['kw'] != exp:
            diff = sorted(k for k in set(exp) | set(obs['kw']) if exp.get(k, None) != obs['kw'].get(k, None)
                          or (k in exp) != (k in obs['kw']))
            bad.append(('handler received %r, the request carried %r (differs at keys %r)'
                        % (obs['kw'], exp, diff[:4]), 'params_differ'))
    return bad, exp


# ----------------------------------------------------------------------------------------------
# generators
# ----------------------------------------------------------------------------------------------
RESERVED = '&;=+% '
SAFE = 'abcxyzABZ0189_-.~'
PUNCT = ',#?/\\"\'<>@:[]{}|^`!$()*'
CTRL = '\x00\t\n\r\x0b\x0c\x1f\x7f'
LATIN = '\x80\x85\xa0\xe9\xff\xc3\xa9\xb5'
BMP = '\u0100\u03bb\u0436\u05e9\u4e2d\u2028\ufeff\ufffd\ud7ff\uffff\u0301\u20ac\ue000\u0660'
ASTRAL = '\U00010000\U0001f600\U0010ffff\U0002a6d6'
NAMES = {'utf-8': ['utf-8', 'UTF-8', 'utf8'], 'latin-1': ['latin-1', 'iso-8859-1', 'ISO-8859-1', 'latin1'],
         'ascii': ['us-ascii', 'ascii'], 'utf-16': ['utf-16', 'UTF-16'], 'utf-16-le': ['utf-16-le', 'utf-16le'],
         'utf-16-be': ['utf-16-be', 'UTF-16BE']}
BAD_UTF8 = [b'\xff', b'\xc3', b'\xe2\x82', b'\xed\xa0\x80', b'\xc0\xaf', b'\xf4\x90\x80\x80', b'\x80', b'\xf0\x9f\x98']


def gen_char(rng, profile):
    r = rng.random()
    if profile == 'ascii':
        if r < 0.5:
            return rng.choice(SAFE)
        if r < 0.8:
            return rng.choice(RESERVED)
        if r < 0.93:
            return rng.choice(PUNCT)
        return rng.choice(CTRL)
    if profile == 'latin':
        if r < 0.4:
            return gen_char(rng, 'ascii')
        if r < 0.8:
            return rng.choice(LATIN)
        return chr(rng.randint(0x80, 0xff))
    # full Unicode
    if r < 0.35:
        return gen_char(rng, 'latin')
    if r < 0.6:
        return rng.choice(BMP)
    if r < 0.75:
        return rng.choice(ASTRAL)
    while True:
        c = rng.choice([rng.randint(0x100, 0xffff), rng.randint(0x10000, 0x10ffff), rng.randint(0x100, 0x7ff)])
        if not 0xd800 <= c <= 0xdfff:
            return chr(c)


def gen_text(rng, profile, big=False):
    n = rng.choice([0, 0, 1, 1, 1, 2, 2, 3, 4, 5, 8, 13, 20] if not big else [5, 20, 40, 60])
    return ''.join(gen_char(rng, profile) for _ in range(n))


def hexbyte(rng, b, hexcase):
    s = '%02x' % b
    if hexcase == 'upper':
        s = s.upper()
    elif hexcase == 'mixed':
        s = ''.join(ch.upper() if rng.random() < 0.5 else ch for ch in s)
    return ('%' + s).encode('ascii')


def enc_query_text(rng, text, enc, style, hexcase, raw_nonascii):
    """Client-side encoding of one key or value for the query string."""
    out = bytearray()
    for c in text:
        o = ord(c)
        if c == ' ':
            out += b'+' if rng.random() < 0.5 else hexbyte(rng, 0x20, hexcase)
            continue
        must = c in '%+&;=#' or o < 0x21 or o == 0x7f
        want = style == 'full' or (style == 'mixed' and rng.random() < 0.35)
        if o >= 0x80 and not must and not want and raw_nonascii:
            out += c.encode('utf-8')
        elif must or want or o >= 0x80:
            for b in c.encode(enc):
                out += hexbyte(rng, b, hexcase)
        else:
            out.append(o)
    return bytes(out)


def enc_body_bytes(rng, data, style, hexcase):
    """Client-side percent-encoding of already charset-encoded bytes for a form body."""
    out = bytearray()
    for b in data:
        if b == 0x20:
            r = rng.random()
            out += b'+' if r < 0.45 else (hexbyte(rng, b, hexcase) if r < 0.9 else b' ')
            continue
        must = b in b'%+&;='
        want = style == 'full' or (style == 'mixed' and rng.random() < 0.35)
        if must or want:
            out += hexbyte(rng, b, hexcase)
        else:
            out.append(b)
    return bytes(out)


def join_frags(rng, frags, lenient):
    out = bytearray()
    if lenient and rng.random() < 0.3:
        out += rng.choice([b'&', b';', b'&&'])
    for i, f in enumerate(frags):
        if i:
            out += rng.choice([b'&', b'&', b';'])
            if lenient and rng.random() < 0.2:
                out += rng.choice([b'&', b';'])
        out += f
    if lenient and rng.random() < 0.3:
        out += rng.choice([b'&', b';'])
    return bytes(out)


def gen_request(rng, big=False):
    """A request built from a multimap; returns the case dict (wire form + configuration + ground truth)."""
    body_cs = rng.choices(['utf-8', 'latin-1', 'utf-16', 'utf-16-le', 'utf-16-be', 'ascii'],
                          weights=[45, 22, 12, 5, 5, 6])[0]
    qs_cfg = rng.choices([None, 'utf-8', 'latin-1', 'iso-8859-1', 'ascii'], weights=[70, 6, 12, 6, 6])[0]
    qs_enc = qs_cfg or 'utf8'
    qs_profile = {'utf-8': 'full'}.get(codecs.lookup(qs_enc).name, 'latin' if 'ascii' not in qs_enc else 'ascii')
    b_profile = {'utf-8': 'full', 'latin-1': 'latin', 'ascii': 'ascii'}.get(body_cs, 'full')
    split = rng.choices(['query', 'body', 'both'], weights=[30, 25, 45])[0]
    # keys must be encodable on whichever side they are used: draw from the weaker profile
    order = ['ascii', 'latin', 'full']
    kprofile = order[min(order.index(qs_profile), order.index(b_profile))] if split == 'both' else (
        qs_profile if split == 'query' else b_profile)
    if rng.random() < 0.3:
        kprofile = 'ascii'
    nkeys = rng.choice([1, 1, 2, 2, 3, 4])
    keys = []
    for _ in range(nkeys):
        k = gen_text(rng, kprofile)
        if rng.random() < 0.08:
            k = rng.choice(['x', 'y', 'self', 'args', 'kwargs', '1,2', '', ' ', 'a=b', 'a&b'])
        keys.append(k)
    npairs = rng.choice([0, 1, 1, 2, 2, 3, 3, 4, 5, 6, 8] if not big else [8, 12, 20])
    style = rng.choice(['minimal', 'minimal', 'mixed', 'mixed', 'full'])
    hexcase = rng.choice(['upper', 'lower', 'mixed'])
    raw_nonascii = codecs.lookup(qs_enc).name == 'utf-8' and rng.random() < 0.6
    lenient = rng.random() < 0.15
    truth_q, truth_b, qfrags, bfrags = [], [], [], []
    for _ in range(npairs):
        k = rng.choice(keys)
        side = 'q' if split == 'query' else 'b' if split == 'body' else rng.choice('qb')
        prof = qs_profile if side == 'q' else b_profile
        v = '' if rng.random() < 0.2 else gen_text(rng, prof, big)
        omit_eq = v == '' and rng.random() < 0.3
        if side == 'q':
            f = enc_query_text(rng, k, qs_enc, style, hexcase, raw_nonascii)
            if not omit_eq:
                f += b'=' + enc_query_text(rng, v, qs_enc, style, hexcase, raw_nonascii)
            if f:                                    # an empty key written without '=' is no pair at all
                truth_q.append((k, v))
                qfrags.append(f)
        else:
            f = enc_body_bytes(rng, k.encode(body_cs), style, hexcase)
            if not omit_eq:
                f += b'=' + enc_body_bytes(rng, v.encode(body_cs), style, hexcase)
            if f:
                truth_b.append((k, v))
                bfrags.append(f)
    q = join_frags(rng, qfrags, lenient)
    case = {'kind': 'req', 'q': q.hex(), 'qs_enc': qs_cfg, 'method': 'GET', 'b': None,
            'declared': None, 'attempt_cfg': None}
    scenario = 'query-only'
    truth_known = True
    if split != 'query':
        case['method'] = rng.choice(['POST', 'POST', 'POST', 'PUT', 'PATCH'])
        case['b'] = join_frags(rng, bfrags, lenient).hex()
        name = rng.choice(NAMES[body_cs])
        r = rng.random()
        if r < 0.5 or body_cs not in ('utf-8', 'latin-1', 'ascii'):
            scenario = 'declared'
            case['declared'] = name
            if r > 0.9:
                scenario = 'declared+configured'     # the configured list replaces the declared charset
                case['attempt_cfg'] = [name, 'utf-8']
        elif body_cs in ('utf-8', 'ascii') and r < 0.62:
            scenario = 'default'
        elif body_cs in ('utf-8', 'ascii') and r < 0.7:
            scenario = 'declared-unknown'            # LookupError counts as a failed attempt: utf-8 is next
            case['declared'] = rng.choice(['nosuch', 'x-user-defined', 'hex', 'rot13', 'utf\x008'])
        elif r < 0.85:
            scenario = 'fallback'
            pre = rng.choice([['ascii'], ['us-ascii', 'utf-8'], ['utf-8'], []])
            case['attempt_cfg'] = pre + [name] + rng.choice([[], ['latin-1']])
            truth_known = False                      # an earlier charset may legitimately win
        else:
            scenario = 'declared-wrong'
            other = rng.choice([c for c in NAMES if c != body_cs])
            case['declared'] = rng.choice(NAMES[other])
            truth_known = False
    case['scenario'] = scenario
    if case['declared'] is not None and rng.random() < 0.3:
        case['ctype_style'] = rng.choice(sorted(CTYPE_STYLES))
    if truth_known:
        case['truth'] = [list(p) for p in truth_q + truth_b]
    case['qfrags'] = [f.hex() for f in qfrags]
    case['bfrags'] = [f.hex() for f in bfrags]
    return case


def gen_undecodable(rng):
    """A request in which one key or value carries bytes that no attempted charset decodes."""
    case = gen_request(rng)
    for k in ('truth',):
        case.pop(k, None)
    where = rng.choice(['q', 'b', 'both'])
    hexcase = rng.choice(['upper', 'lower', 'mixed'])

    def poison(frags, raw_ok):
        bad = rng.choice(BAD_UTF8)
        enc = b''.join(hexbyte(rng, b, hexcase) for b in bad)
        if raw_ok and rng.random() < 0.3:
            enc = bad
        blob = b'p' + enc + b'z'
        frag = rng.choice([blob + b'=v', b'k=' + blob, blob])
        frags = [bytes.fromhex(f) for f in frags]
        frags.insert(rng.randint(0, len(frags)), frag)
        return frags

    if where in ('q', 'both'):
        case['qs_enc'] = rng.choice([None, None, 'utf-8', 'ascii'])
        # re-encode nothing: the existing fragments stay as they are (ASCII escapes are charset-neutral enough
        # for the oracle, which recomputes the expectation from the wire)
        frags = poison(case['qfrags'], raw_ok=False)
        case['qfrags'] = [f.hex() for f in frags]
        case['q'] = b'&'.join(frags).hex()
    if where in ('b', 'both'):
        case['method'] = 'POST'
        frags = poison(case.get('bfrags') or [], raw_ok=True)
        case['bfrags'] = [f.hex() for f in frags]
        case['b'] = rng.choice([b'&', b';']).join(frags).hex()
        case['declared'] = rng.choice([None, None, 'utf-8', 'us-ascii', 'nosuch'])
        case['attempt_cfg'] = rng.choice([None, None, ['ascii', 'utf-8'], ['utf-8'], ['nosuch', 'utf-8']])
    case['scenario'] = 'undecodable-' + where
    return case


IMAGEMAP_QUERIES = ['1,2', '0,0', '007,010', '12345678901234567890,1', '1,2x', '1,2=v', '1,2=', 'x1,2', '1,2&a=1', ',2',
                    '1,', ',', '1,2,3', '1;2', ' 1,2', '1,2\n', '1,2%20', '+1,2', '-1,2', '1.5,2', '１,２',
                    '1,٢', '1_0,2', '1,2;', '&1,2', '1%2C2', '1,2#', '00,00']


def gen_imagemap(rng):
    q = rng.choice(IMAGEMAP_QUERIES)
    if rng.random() < 0.3:
        q = '%d,%d' % (rng.choice([0, 1, 9, 10, 99, 640, 10 ** 12]), rng.choice([0, 7, 480, 2 ** 70]))
    case = {'kind': 'req', 'q': q.encode('utf-8').hex(), 'qs_enc': None, 'method': 'GET', 'b': None,
            'declared': None, 'attempt_cfg': None, 'scenario': 'imagemap', 'qfrags': [], 'bfrags': []}
    if rng.random() < 0.4:
        case['method'] = 'POST'
        body = rng.choice([b'x=5', b'y=1&y=2', b'z=1', b'x=1&x=2&y=', b''])
        case['b'] = body.hex()
        case['bfrags'] = [f.hex() for f in body.split(b'&') if f]
    return case


def gen_raw(rng):
    """Unstructured wire strings: the statement is mostly silent, the model must still agree."""
    alpha = [b'a', b'%', b'2', b'6', b'+', b'&', b'=', b';', b'%c3', b'%a9', b'\xc3\xa9', b'\xe9', b'%E2%82%AC', b'%ff',
             b'%2', b'%%', b'%g1', b' ', b',', b'1', b'%26', b'%3d', b'%3B', b'%2b', b'%25', b'\xf0\x9f\x98\x80']
    q = b''.join(rng.choice(alpha) for _ in range(rng.choice([0, 1, 2, 3, 5, 8, 12])))
    case = {'kind': 'req', 'q': q.hex(), 'qs_enc': rng.choice([None, None, 'latin-1']), 'method': 'GET', 'b': None,
            'declared': None, 'attempt_cfg': None, 'scenario': 'raw', 'qfrags': [], 'bfrags': []}
    if rng.random() < 0.6:
        b = b''.join(rng.choice(alpha) for _ in range(rng.choice([0, 1, 2, 3, 5, 8, 12])))
        case.update(method='POST', b=b.hex(),
                    declared=rng.choice([None, None, 'latin-1', 'utf-16', 'ascii', 'utf-16-be', 'nosuch']),
                    attempt_cfg=rng.choice([None, None, None, ['ascii', 'utf-8', 'latin-1'], [], ['base64']]))
    return case


def gen_huge(rng):
    """Sizes beyond every internal buffer (8 KiB reads, 64 KiB): hundreds of pairs and very long values."""
    kind = rng.choice(['many-pairs', 'long-value', 'both'])
    npairs = rng.choice([70, 130, 300, 700]) if kind != 'long-value' else rng.randint(1, 4)
    keys = ['k%d' % i for i in range(rng.choice([1, 3, 40]))] + ['\u00e9\U0001f600']
    hexcase = rng.choice(['upper', 'lower', 'mixed'])
    style = rng.choice(['minimal', 'mixed'])
    truth_q, truth_b, qfrags, bfrags = [], [], [], []
    for i in range(npairs):
        k = rng.choice(keys)
        if kind != 'many-pairs' and i == 0:
            unit = gen_text(rng, 'full') or 'v'
            v = (unit * (rng.choice([9000, 20000, 70000]) // len(unit) + 1))
        else:
            v = gen_text(rng, 'full')
        if rng.random() < 0.25 and len(v) < 200:
            f = enc_query_text(rng, k, 'utf8', style, hexcase, True) + b'=' + \
                enc_query_text(rng, v, 'utf8', style, hexcase, True)
            truth_q.append((k, v))
            qfrags.append(f)
        else:
            f = enc_body_bytes(rng, k.encode('utf-8'), style, hexcase) + b'=' + \
                enc_body_bytes(rng, v.encode('utf-8'), style, hexcase)
            truth_b.append((k, v))
            bfrags.append(f)
    case = {'kind': 'req', 'q': join_frags(rng, qfrags, False).hex(), 'qs_enc': None, 'method': 'POST',
            'b': join_frags(rng, bfrags, False).hex(), 'declared': rng.choice([None, 'utf-8']), 'attempt_cfg': None,
            'scenario': 'huge-' + kind, 'truth': [list(p) for p in truth_q + truth_b],
            'qfrags': [f.hex() for f in qfrags], 'bfrags': [f.hex() for f in bfrags]}
    return case


# ---- the dimensions around the parsers ---------------------------------------------------------
DIM_KINDS = ['uri_enc', 'method-nobody', 'process_body', 'processors', 'media', 'no_ctype', 'no_length', 'empty-body',
             'path', 'post-nobody', 'ctype-params', 'late']
MEDIA = ['text/plain', 'application/json', 'Application/X-WWW-Form-Urlencoded', 'APPLICATION/X-WWW-FORM-URLENCODED',
         'application/x-www-form-urlencoded2', 'application', 'text/x-form', 'application/octet-stream', 'x']
CTYPE_EXTRA = ['; boundary=zzz', ';q=1', '; x="a;b"', '; format=flowed', ' ', ';', '; X=Y']


def _ensure_body(rng, case):
    if case.get('b') is None:
        case['b'] = rng.choice([b'z=1', b'a=1&a=2', b'', b'k=%C3%A9']).hex()
        case['bfrags'] = []
        if case.get('method', 'GET') not in BODY_METHODS:
            case['method'] = 'POST'


def gen_dims(rng):
    """A generated round-trip request with one or two of the dimensions around the parsers changed: uri_encoding,
    a body on a method without bodies, process_request_body off, processors overridden, another media type (or
    spelling), no Content-Type, no Content-Length, an empty body, a non-ASCII path, POST without body, extra
    Content-Type parameters."""
    case = gen_request(rng)
    kinds = rng.sample(DIM_KINDS, rng.choice([1, 1, 1, 2]))
    for kind in kinds:
        if kind == 'uri_enc':
            case['uri_enc'] = rng.choice(['utf-8', 'UTF-8', 'ISO-8859-1', 'iso-8859-1', 'latin-1', 'ascii', 'us-ascii',
                                          'utf-16'])
        elif kind == 'method-nobody':
            _ensure_body(rng, case)
            case['method'] = rng.choice(['GET', 'DELETE', 'HEAD', 'OPTIONS'])
        elif kind == 'process_body':
            _ensure_body(rng, case)
            case['process_body'] = rng.choice([False, False, True])
        elif kind == 'processors':
            _ensure_body(rng, case)
            case['processors'] = rng.choice(['empty', 'text-form', 'form-only'])
            if case['processors'] == 'text-form' and rng.random() < 0.7:
                case['media'] = rng.choice(['text/plain', 'text/x-form', 'text'])
                if rng.random() < 0.5:                  # RequestBody.__init__: text/* and the four Latin-1 spellings
                    case['declared'] = rng.choice(['ISO-8859-1', 'iso-8859-1', 'Latin-1', 'latin-1', 'latin1', 'l1',
                                                   'utf-8', 'us-ascii'])
        elif kind == 'media':
            _ensure_body(rng, case)
            case['media'] = rng.choice(MEDIA)
        elif kind == 'no_ctype':
            _ensure_body(rng, case)
            case['no_ctype'] = True
        elif kind == 'no_length':
            _ensure_body(rng, case)
            case['no_length'] = True
        elif kind == 'empty-body':
            case.update(b='', bfrags=[])
            if case.get('method', 'GET') not in BODY_METHODS:
                case['method'] = 'POST'
        elif kind == 'path':
            case['path'] = rng.choice([b'/\xe9', b'/\xc3\xa9', b'/a/b', b'/\xff\xfe', b'/a', b'/\xc3\xa9/x']).hex()
        elif kind == 'post-nobody':
            case.update(b=None, bfrags=[], method=rng.choice(BODY_METHODS), declared=None)
        elif kind == 'ctype-params':
            _ensure_body(rng, case)
            case['ctype_extra'] = rng.choice(CTYPE_EXTRA)
        elif kind == 'late':
            sent = [k for k, _ in (case.get('truth') or [])] + ['a', 'late\u00e9']
            pick = lambda: [[rng.choice(sent + ['hk', 'x']), rng.choice(['L', '', 'l\u00e9'])]
                            for _ in range(rng.choice([0, 1, 1, 2]))]
            case['late'] = {'params': pick(), 'handler_kwargs': pick()}
            if not case['late']['params'] and not case['late']['handler_kwargs']:
                case['late']['handler_kwargs'] = [['hk', 'K']]
    case.pop('truth', None)
    if case.get('b') is None:
        case['declared'] = None
    case['scenario'] = 'dims:' + '+'.join(sorted(kinds))
    return case


MP_NAMES = ['a', 'b', 'tag', 'x', 'y', 'file', 'k 1', 'na\xefve', 'parts', 'self', 'a=b']


def build_multipart(parts, boundary):
    out = bytearray()
    for p in parts:
        out += b'--' + boundary.encode('ascii') + b'\r\n'
        disp = 'form-data'
        if p.get('name') is not None:
            disp += '; name="%s"' % p['name']
        if p.get('filename') is not None:
            disp += '; filename="%s"' % p['filename']
        out += b'Content-Disposition: ' + disp.encode('latin-1') + b'\r\n'
        if p.get('ctype'):
            out += b'Content-Type: ' + p['ctype'].encode('latin-1') + b'\r\n'
        out += b'\r\n' + bytes.fromhex(p['value']) + b'\r\n'
    out += b'--' + boundary.encode('ascii') + b'--\r\n'
    return bytes(out)


def gen_parts(rng, names, prof='full', n=None):
    parts = []
    for _ in range(n if n is not None else rng.choice([0, 1, 1, 2, 2, 3, 4, 6])):
        name = rng.choice(names)
        if rng.random() < 0.08:
            name = None
        p = {'name': name, 'filename': None, 'charset': None, 'ctype': None}
        r = rng.random()
        if r < 0.25:                                   # a file upload: any bytes
            p['filename'] = rng.choice(['f.bin', 'a b.txt', '', 'r\xe9sum\xe9.pdf'])
            data = bytes(rng.randrange(256) for _ in range(rng.choice([0, 1, 5, 40])))
            data = data.replace(b'\r', b'r').replace(b'\n', b'n').replace(b'--', b'-+')
            if rng.random() < 0.15:
                data = data * 60
            p['ctype'] = rng.choice([None, 'application/octet-stream', 'image/png'])
        else:
            text = gen_text(rng, prof).replace('\r', ' ').replace('\n', ' ')
            if rng.random() < 0.08:
                text = text * 400 + 'x' * 1100          # beyond Part.maxrambytes: spooled to a file
            text = text.replace('--', '-+')
            cs = rng.choice([None, None, None, 'utf-8', 'latin-1', 'utf-16', 'us-ascii'])
            r2 = rng.random()
            if cs is None:
                data = text.encode('utf-8')
                if r2 < 0.1:
                    data = text.encode('latin-1', 'replace') + b'\xe9'     # undecodable: neither ASCII nor UTF-8
            else:
                try:
                    data = text.encode(cs)
                except UnicodeEncodeError:
                    data = text.encode('utf-8')       # declared-but-wrong: the fallbacks decide
                p['charset'] = cs
                p['ctype'] = rng.choice(['text/plain; charset=%s', 'text/plain;charset="%s"',
                                         'application/x-custom; charset=%s']) % cs
            data = data.replace(b'\r', b' ').replace(b'\n', b' ')
        p['value'] = data.hex()
        parts.append(p)
    return parts


def gen_multipart(rng):
    """multipart/form-data (sometimes another multipart/*) with fields, repeated names, file uploads, per-part
    charsets, next to a query string that uses the same names."""
    names = rng.sample(MP_NAMES, rng.choice([1, 2, 3]))
    parts = gen_parts(rng, names)
    boundary = rng.choice(['XyZ', '----WebKitFormBoundary7MA4YWxkTrZu0gW', 'b', "a'b(c)"])
    qfrags = []
    for _ in range(rng.choice([0, 0, 1, 2, 3])):
        k = rng.choice(names + ['q'])
        qfrags.append(enc_query_text(rng, k, 'utf8', 'mixed', 'upper', False) + b'=' +
                      enc_query_text(rng, gen_text(rng, 'full'), 'utf8', 'mixed', 'lower', False))
    if rng.random() < 0.05:
        qfrags = [b'3,4']
    case = {'kind': 'req', 'q': b'&'.join(qfrags).hex(), 'qs_enc': None, 'method': rng.choice(['POST', 'POST', 'PUT']),
            'b': build_multipart(parts, boundary).hex(), 'declared': None, 'attempt_cfg': None,
            'media': rng.choices(['multipart/form-data', 'multipart/mixed', 'multipart/x'], weights=[80, 12, 8])[0],
            'boundary': boundary, 'parts': parts, 'scenario': 'multipart', 'qfrags': [], 'bfrags': []}
    if rng.random() < 0.06:
        case['method'] = 'GET'                          # not read at all
    if rng.random() < 0.05:
        case['process_body'] = False
    return case


def gen_bind_request(rng):
    """A request to a handler with a generated signature: path atoms, query keys and body keys aimed at the boundaries
    of that signature (exactly the required ones, one missing, one extra, a positional given twice, ...)."""
    sig = c03_bind.gen_sig(rng)
    if rng.random() < 0.12:
        sig = dict(c03_bind.CATCH_ALL, kind=rng.choice(['plain', 'method']), self_posonly=True)
    nargs, flagged = c03_bind.gen_call(rng, sig)
    atoms = ['p%d' % i for i in range(nargs)]
    qf, bf = [], []
    for k, from_body in flagged:
        v = rng.choice(['1', 'v', '', '\u00e9', 'a b'])
        frag = enc_query_text(rng, k, 'utf8', 'minimal', 'upper', False) + b'=' + \
            enc_query_text(rng, v, 'utf8', 'minimal', 'upper', False)
        (bf if from_body else qf).append(frag)
        if rng.random() < 0.12:                         # the same key again, on either side: a list value
            (bf if rng.random() < 0.5 else qf).append(frag)
    case = {'kind': 'req', 'q': b'&'.join(qf).hex(), 'qs_enc': None, 'method': 'GET', 'b': None, 'declared': None,
            'attempt_cfg': None, 'sig': sig, 'atoms': atoms, 'path': ('/' + '/'.join(atoms)).encode('ascii').hex(),
            'scenario': 'bind', 'qfrags': [], 'bfrags': []}
    if bf or rng.random() < 0.1:
        case.update(method=rng.choice(['POST', 'PUT']), b=b'&'.join(bf).hex())
    return case


# ---- histories: several requests against one long-lived application ---------------------------
def _req(q, body=None, declared=None, method=None, qs_cfg=None, att_cfg=None, role='', **extra):
    case = {'kind': 'req', 'q': q.hex(), 'qs_enc': qs_cfg, 'method': method or ('GET' if body is None else 'POST'),
            'b': None if body is None else body.hex(), 'declared': declared, 'attempt_cfg': att_cfg,
            'scenario': 'history', 'role': role, 'qfrags': [], 'bfrags': []}
    case.update(extra)
    return case


def gen_history(rng):
    """2-6 requests that re-use each other's query strings, bodies and keys, all against the same application:
    whatever a parsing helper returns for one request (dicts, lists) must not reach a later one.  The building
    blocks: a query whose key is repeated (list value) and also occurs in the body (so the merge mutates the
    list), the same query without / with another body, the same body behind another query, an image-map query,
    the same non-UTF-8 body bytes first refused (utf-8 only) then accepted (declared latin-1)."""
    qs_cfg = rng.choices([None, 'latin-1'], weights=[85, 15])[0]
    att_cfg = rng.choices([None, ['ascii', 'utf-8']], weights=[85, 15])[0]
    qenc = qs_cfg or 'utf8'
    prof = 'full' if qs_cfg is None else 'latin'
    style = rng.choice(['minimal', 'mixed', 'full'])
    hexcase = rng.choice(['upper', 'lower', 'mixed'])
    k0 = gen_text(rng, rng.choice(['ascii', prof])) or 'tag'
    k1 = gen_text(rng, 'ascii') or 'k'
    if rng.random() < 0.5:
        k0 = rng.choice(['tag', 'a', 'x', 'y', 'id'])

    def qpair(k, v):
        return enc_query_text(rng, k, qenc, style, hexcase, qs_cfg is None) + b'=' + \
            enc_query_text(rng, v, qenc, style, hexcase, qs_cfg is None)

    def bpair(k, v, cs='utf-8'):
        return enc_body_bytes(rng, k.encode(cs), style, hexcase) + b'=' + enc_body_bytes(rng, v.encode(cs), style, hexcase)

    def vals(n):
        return [gen_text(rng, prof) for _ in range(n)]

    sep = lambda: rng.choice([b'&', b'&', b';'])
    # queries
    q_list = sep().join([qpair(k0, v) for v in vals(rng.choice([2, 2, 3]))] +
                        ([qpair(k1, vals(1)[0])] if rng.random() < 0.5 else []))   # k0 is a list
    q_scalar = qpair(k0, vals(1)[0])                                                 # k0 is a scalar
    q_other = sep().join(qpair(k1, v) for v in vals(rng.choice([1, 2])))             # k0 absent
    q_img = b'%d,%d' % (rng.choice([0, 1, 12, 640]), rng.choice([0, 2, 480]))
    # bodies
    b_same = sep().join(bpair(k0, v) for v in vals(rng.choice([1, 1, 2])))           # k0 again: merge mutates
    b_more = sep().join([bpair(k0, vals(1)[0]), bpair(k1, vals(1)[0]), bpair(k1, vals(1)[0])])
    b_other = sep().join(bpair(k1, v) for v in vals(rng.choice([1, 2])))
    b_xy = rng.choice([b'x=5', b'y=1&y=2', b'x=1&x=2&y=3'])
    l1 = ''.join(rng.choice('\xe9\xff\xa0\xc3\xb5') for _ in range(rng.randint(1, 3)))
    b_l1 = bpair(k0 if k0.isascii() else 'k', l1 + 'z', 'latin-1')                   # not UTF-8 (ends in "<hi>z")
    Q = {'list': q_list, 'scalar': q_scalar, 'other': q_other, 'img': q_img, 'none': b''}
    B = {'same': (b_same, None), 'more': (b_more, None), 'other': (b_other, None), 'xy': (b_xy, None),
         'l1-refused': (b_l1, None), 'l1-declared': (b_l1, 'latin-1'), 'l1-utf8-declared': (b_l1, 'utf-8'),
         'none': (None, None)}
    # the same key as fields of a multipart form (merged into the same dict by the same loop)
    mp_ok = all((0x20 <= ord(c) < 0x7f or 0xa0 <= ord(c) < 0x100) and c not in '"\\;,' for c in k0) \
        and k0 == k0.strip()
    mp_name = k0 if mp_ok else 'tag'
    mp_parts = [{'name': mp_name, 'filename': None, 'charset': None, 'ctype': None,
                 'value': v.replace('\r', ' ').replace('\n', ' ').replace('--', '-+').encode('utf-8').hex()}
                for v in vals(rng.choice([1, 2]))]
    MP = {'mp-same': dict(media='multipart/form-data', boundary='HiSt', parts=mp_parts)}
    templates = [
        [('list', 'same'), ('list', 'none'), ('list', 'more'), ('list', 'none')],
        [('list', 'none'), ('list', 'same'), ('list', 'none'), ('list', 'same'), ('list', 'none')],
        [('list', 'same'), ('list', 'same'), ('list', 'none')],
        [('list', 'same'), ('scalar', 'same'), ('scalar', 'none'), ('list', 'none')],
        [('scalar', 'same'), ('scalar', 'none'), ('scalar', 'more'), ('scalar', 'same')],
        [('other', 'same'), ('list', 'same'), ('other', 'same'), ('none', 'same')],
        [('none', 'more'), ('list', 'more'), ('none', 'more'), ('other', 'more')],
        [('img', 'xy'), ('img', 'none'), ('img', 'xy'), ('img', 'same')],
        [('list', 'l1-refused'), ('list', 'l1-declared'), ('list', 'none'), ('list', 'l1-refused'),
         ('list', 'l1-utf8-declared')],
        [('none', 'l1-refused'), ('none', 'l1-declared'), ('none', 'l1-refused'), ('none', 'l1-declared')],
        [('list', 'mp-same'), ('list', 'none'), ('list', 'mp-same'), ('list', 'same'), ('list', 'none')],
        [('scalar', 'mp-same'), ('scalar', 'none'), ('list', 'mp-same'), ('none', 'mp-same')],
    ]
    if rng.random() < 0.7:
        plan = list(rng.choice(templates))
        if rng.random() < 0.3:
            plan = plan[:rng.randint(2, len(plan))]
    else:
        plan = [(rng.choice(['list', 'list', 'scalar', 'other', 'img', 'none']),
                 rng.choice(['same', 'same', 'more', 'other', 'xy', 'l1-refused', 'l1-declared', 'none', 'none',
                             'mp-same']))
                for _ in range(rng.randint(2, 6))]
    steps = []
    for qn, bn in plan[:6]:
        if bn in MP:
            steps.append(_req(Q[qn], build_multipart(MP[bn]['parts'], MP[bn]['boundary']), None,
                              rng.choice(['POST', 'PUT']), qs_cfg, att_cfg, role='%s+%s' % (qn, bn), **MP[bn]))
            continue
        body, declared = B[bn]
        if declared is not None and rng.random() < 0.3:
            declared = rng.choice(NAMES[declared])
        steps.append(_req(Q[qn], body, declared, rng.choice(['POST', 'POST', 'PUT']) if body is not None else 'GET',
                          qs_cfg, att_cfg, role='%s+%s' % (qn, bn)))
    return {'kind': 'history', 'steps': steps}


def history_id(hist):
    return hashlib.sha1('>'.join(case_key(s) for s in hist['steps']).encode('utf-8', 'replace')).hexdigest()[:16]


def run_history(hist):
    """Run the steps in order; per step (obs, failures, expected)."""
    out = []
    for step in hist['steps']:
        obs = run_real(step)
        bad, exp = judge(step, obs)
        out.append((obs, bad, exp))
    return out


def fresh_failures(steps):
    """Run `steps` in order in a FRESH interpreter (no state left by this run) -> per step the list of failure
    signatures.  Used only to make reported replays reproducible; ~0.5 s per call."""
    import subprocess
    import sys
    payload = json.dumps({'steps': steps})
    r = subprocess.run([sys.executable, '-m', 'harness.c03', '--fresh'], cwd=common.VERIF, input=payload.encode(),
                       stdout=subprocess.PIPE, stderr=subprocess.PIPE, timeout=600)
    if r.returncode != 0:
        raise common.HarnessError('fresh-process helper failed: %s' % r.stderr[-400:])
    last = [l for l in r.stdout.decode().splitlines() if l.startswith('FRESH ')]
    if not last:
        raise common.HarnessError('fresh-process helper printed nothing')
    return json.loads(last[-1][6:])


def _fresh_main():
    steps = json.loads(sys_stdin_read())['steps']
    out = []
    for step in steps:
        try:
            bad, _ = judge(step, run_real(step))
            out.append([sig for _, sig in bad])
        except common.HarnessError as e:
            out.append(['harness:' + str(e)[:80]])
    print('FRESH ' + json.dumps(out))


def sys_stdin_read():
    import sys
    return sys.stdin.read()


def minimal_history(before, target, sig, budget=30):
    """Smallest sub-sequence of `before` after which `target` still fails with `sig` IN A FRESH PROCESS
    (so that the replay file reproduces on its own).  Returns (steps, note)."""
    calls = [0]

    def fails(prefix):
        calls[0] += 1
        if calls[0] > budget:
            return False
        try:
            res = fresh_failures(list(prefix) + [target])
        except common.HarnessError:
            return False
        return sig in res[-1]

    if fails([]):
        return [target], 'fails as a single request on fresh state'
    before = list(before)
    if not before or not fails(before):
        return None, 'not reproduced in a fresh process from the recorded predecessors'
    if len(before) > 6:
        before = common.shrink_list(before, fails, max_rounds=12)
    i = 0
    while i < len(before):
        cand = before[:i] + before[i + 1:]
        if fails(cand):
            before = cand
        else:
            i += 1
    return before + [target], 'request %d fails only after the requests before it' % (len(before) + 1)


def shrink_history(hist, idx, sig, earlier=()):
    """A self-contained history (reproducible on fresh state) ending in the failing request."""
    target = hist['steps'][idx]
    steps, note = minimal_history(hist['steps'][:idx], target, sig)
    if steps is None and earlier:
        steps, note = minimal_history(list(earlier)[-40:] + hist['steps'][:idx], target, sig)
    if steps is None:
        return dict(hist, failed_step=idx, note=note)
    return {'kind': 'history', 'steps': steps, 'failed_step': len(steps) - 1, 'note': note}


def check_histories(ctx, hists, compare=True, echo=False, minimise=True):
    """Every request of every history is judged exactly like a stand-alone request (the expectation is computed
    from that request alone) and compared with the (stateless) model."""
    flat = [s for h in hists for s in h['steps']]
    lines = ctx.model([model_line(s) for s in flat]) if compare else None
    pos = 0
    earlier = []
    for hist in hists:
        if too_many_hangs(ctx):
            break
        hid = history_id(hist)
        res = run_history(hist)
        ctx.count('history_len:%d' % len(hist['steps']))
        for i, (step, (obs, bad, exp)) in enumerate(zip(hist['steps'], res)):
            ctx.case({'kind': 'history-step', 'history': hid, 'step': i, 'role': step.get('role'),
                      'q': step['q'], 'b': step.get('b')}, nontrivial=(i > 0), key='hist|%s|%d' % (hid, i))
            ctx.count('history_step:' + str(step.get('role')))
            ctx.count('history_status:%d' % obs['status'])
            if echo:
                print('--- request %d (%s): %s ?%s  body %s  declared %s' % (
                    i + 1, step.get('role'), step['method'], bytes.fromhex(step['q']),
                    None if step.get('b') is None else bytes.fromhex(step['b']), step.get('declared')))
                print('impl   :', {'status': obs['status'], 'kw': obs['kw']})
                if lines is not None:
                    print('model  :', canon_model(lines[pos + i], step))
                print('oracle :', exp)
            done = set()
            for what, sig in bad:
                if sig in done:
                    continue
                done.add(sig)
                small = (shrink_history(hist, i, sig, earlier) if minimise and len(ctx.oracle_failures) < 2
                         else dict(hist, failed_step=i))
                n = len(small['steps'])
                ctx.oracle_fail(small, 'request %d of a %d-request history (%s; %s): %s'
                                % (small.get('failed_step', n - 1) + 1, n,
                                   ' -> '.join(str(s.get('role')) for s in small['steps']), small.get('note', ''),
                                   what), None)
            if lines is not None:
                ctx.compared()
                model = canon_model(lines[pos + i], step)
                real = {'status': obs['status'], 'kw': obs['kw'] if obs['status'] == 200 else None}
                if real != model:
                    ctx.disagree(dict(hist, failed_step=i), real, model,
                                 'handler arguments / status differ at request %d of a history' % (i + 1))
        pos += len(hist['steps'])
        earlier = (earlier + hist['steps'])[-40:]


def nontrivial(case):
    q = bytes.fromhex(case['q'])
    b = bytes.fromhex(case['b']) if case.get('b') else b''
    wire = q + b
    if any(c in b'%+' or c >= 0x80 for c in wire):
        return True
    if q and b:
        return True
    keys = [p.partition(b'=')[0] for p in re.split(rb'[&;]', wire) if p]
    return len(keys) != len(set(keys))


def case_key(case):
    k = '%s|%s|%s|%s|%s|%s|%s' % (case['q'], case.get('b'), case.get('qs_enc'), case.get('declared'),
                                  case.get('attempt_cfg'), case.get('method'), case.get('ctype_style'))
    if uses_new_dims(case):
        k += '|' + '|'.join('%s' % (case.get(d),) for d in NEW_DIMS if d not in ('parts', 'sig'))
        if case.get('sig') is not None:
            k += '|' + c03_bind.sig_token(case['sig'])
    return k


def slim(case):
    return {k: v for k, v in case.items() if k not in ('truth',)}


# ----------------------------------------------------------------------------------------------
# checking
# ----------------------------------------------------------------------------------------------
def shrink(case, signature):
    """Drop pairs while the same kind of oracle failure persists."""
    def rebuild(qf, bf):
        c = dict(case)
        c['qfrags'], c['bfrags'] = qf, bf
        c['q'] = b'&'.join(bytes.fromhex(f) for f in qf).hex()
        if case.get('b') is not None:
            c['b'] = b'&'.join(bytes.fromhex(f) for f in bf).hex()
        c.pop('truth', None)
        return c

    def fails(c):
        try:
            bad, _ = judge(c, run_real(c))
        except common.HarnessError:
            return False
        return any(sig == signature for _, sig in bad)

    qf, bf = list(case.get('qfrags') or []), list(case.get('bfrags') or [])
    if not qf and not bf:
        return case
    if not fails(rebuild(qf, bf)):
        return case
    qf = common.shrink_list(qf, lambda x: fails(rebuild(x, bf)), max_rounds=40) if len(qf) > 1 else qf
    if len(qf) == 1 and fails(rebuild([], bf)):
        qf = []
    bf = common.shrink_list(bf, lambda x: fails(rebuild(qf, x)), max_rounds=40) if len(bf) > 1 else bf
    if len(bf) == 1 and fails(rebuild(qf, [])):
        bf = []
    out = rebuild(qf, bf)
    out['shrunk_from'] = {'q': case['q'], 'b': case.get('b')}
    return out


def check_requests(ctx, cases, compare=True):
    lines = ctx.model([model_line(c) for c in cases]) if compare else None
    att_seen = {}
    for idx, case in enumerate(cases):
        if too_many_hangs(ctx):
            break
        obs = run_real(case)
        ctx.case(slim(case), nontrivial=nontrivial(case), key=case_key(case))
        ctx.count('scenario:' + case.get('scenario', '?'))
        ctx.count('status:%d' % obs['status'])
        bad, exp = judge(case, obs)
        ctx.count('oracle:' + ('silent' if exp is None else 'refusal' if isinstance(exp, tuple) else 'roundtrip'))
        if isinstance(exp, dict):
            ctx.count('keys:%d' % min(len(exp), 4))
            ctx.count('listvalued:%s' % any(isinstance(v, list) for v in exp.values()))
            # generator's own ground truth (harness self-check: the wire oracle must reproduce it)
            if 'truth' in case and not _IMAGEMAP.match(bytes.fromhex(case['q'])):
                want = group([tuple(p) for p in case['truth']])
                if want != exp:
                    raise common.HarnessError('wire oracle %r differs from the generated multimap %r for %r'
                                              % (exp, want, slim(case)))
        done = set()
        for what, sig in bad:
            if sig in done:
                continue
            done.add(sig)
            if len(ctx.oracle_failures) < 2:
                if sig in fresh_failures([slim(case)])[0]:
                    small = shrink(case, sig)
                    again = [w for w, s2 in judge(small, run_real(small))[0] if s2 == sig]
                    what = again[0] if again else what
                else:
                    # the request alone is fine on fresh state: it is what earlier requests left behind
                    steps, note = minimal_history([slim(c) for c in cases[max(0, idx - 40):idx]], slim(case), sig)
                    if steps is not None:
                        ctx.oracle_fail({'kind': 'history', 'steps': steps, 'failed_step': len(steps) - 1, 'note': note},
                                        'request %d of a %d-request history (%s): %s' % (len(steps), len(steps), note, what),
                                        None)
                        continue
                    what = '[depends on state left by earlier requests of this run] ' + what
                    small = case
            else:
                small = case
            ctx.oracle_fail(slim(small), what, None)
        if lines is not None:
            ctx.compared()
            model = canon_model(lines[idx], case)
            real = {'status': obs['status'], 'kw': obs['kw'] if obs['status'] == 200 else None}
            if real != model:
                ctx.disagree(slim(case), real, model, 'handler arguments / status differ')
        if obs['attempts'] is not None:
            decl = case.get('declared') if case.get('b') is not None and not case.get('no_ctype') else None
            att_seen[(media_of(case), decl, tuple(case['attempt_cfg']) if case.get('attempt_cfg') is not None
                      else None)] = obs['attempts']
            if obs['ctype'] != media_of(case):
                ctx.disagree(slim(case), obs['ctype'], media_of(case), 'request.body.content_type.value differs')
        for d in NEW_DIMS:
            if case.get(d) not in (None, False) or (d == 'process_body' and case.get(d) is False):
                ctx.count('dim:%s%s' % (d, '=off' if case.get(d) is False else ''))
    # attempt_charsets as computed by Entity.__init__ + config vs the model
    if compare and att_seen and lines is not None:
        items = sorted(att_seen.items(), key=repr)
        alines = ['ratt %s %s %s' % (tx(m), cs_enum(d) if d else 'N',
                                     'N' if c is None else (','.join(cs_enum(x) for x in c) or '-'))
                  for (m, d, c), _ in items]
        alines += ['att %s %s' % (cs_enum(d) if d else 'N',
                                  'N' if c is None else (','.join(cs_enum(x) for x in c) or '-'))
                   for (m, d, c), _ in items if not m.startswith('text/')]
        outs = ctx.model(alines)
        items = items + [it for it in items if not it[0][0].startswith('text/')]
        for ((media, d, c), real), out in zip(items, outs):
            dedup = []
            for x in [cs_enum(n) for n in real]:
                if x not in dedup:
                    dedup.append(x)
            m = []
            for x in out[2:].split(','):
                if x and x not in m:
                    m.append(x)
            ctx.compared()
            if dedup != m:
                ctx.disagree({'kind': 'att', 'media': media, 'declared': d, 'attempt_cfg': c}, dedup, m,
                             'attempt_charsets differ')


# ---- unit level --------------------------------------------------------------------------------
class _FakeEntity(object):
    def __init__(self, data, attempts):
        self.fp = io.BytesIO(data)
        self.attempt_charsets = list(attempts)
        self.params = {}
        self.charset = None


def unit_parse_qs(text, enc='utf-8'):
    from cherrypy.lib import httputil
    try:
        with deadline():
            return httputil.parse_query_string(text, encoding=enc)
    except UnicodeDecodeError:
        return 'unicode'
    except _Hang:
        return 'raised nothing: hang'
    except Exception as e:               # any other exception would be a 500 in a request
        return 'raised ' + type(e).__name__


def unit_urlencoded(data, attempts=('utf-8',)):
    cherrypy = _cherrypy()
    from cherrypy import _cpreqbody
    ent = _FakeEntity(data, attempts)
    try:
        with deadline():
            _cpreqbody.process_urlencoded(ent)
    except cherrypy.HTTPError as e:
        return e.status
    except _Hang:
        return 'raised nothing: hang'
    except Exception as e:
        return 'raised ' + type(e).__name__
    return ent.params


def small_strings(maxlen, alphabet='a%26+&=;'):
    for n in range(maxlen + 1):
        for t in itertools.product(alphabet, repeat=n):
            yield ''.join(t)


def check_units(ctx, strings, enc='utf-8', attempts=('utf-8',), compare=True):
    """Same strings as query text and as body bytes through the anchored units directly."""
    strings = list(strings)
    me = cs_enum(enc)
    matt = ','.join(cs_enum(a) for a in attempts) or '-'
    lines = None
    if compare:
        lines = ctx.model(['pqs %s %s' % (me, tx(s)) for s in strings] +
                          ['purl %s %s' % (matt, hx(s.encode('utf-8'))) for s in strings])
    n = len(strings)
    for i, s in enumerate(strings):
        if too_many_hangs(ctx):
            break
        raw = s.encode('utf-8')
        ctx.case({'kind': 'unit', 's': s}, nontrivial=('%' in s or '+' in s), key='unit|' + s + '|' + me + '|' + matt)
        rq = unit_parse_qs(s, enc)
        rb = unit_urlencoded(raw, attempts)
        ctx.count('unit_qs:' + (rq if isinstance(rq, str) else 'ok'))
        ctx.count('unit_body:' + (str(rb) if isinstance(rb, (int, str)) else 'ok'))
        for name, r in (('parse_query_string', rq), ('process_urlencoded', rb)):
            if isinstance(r, str) and r.startswith('raised'):
                ctx.oracle_fail({'kind': 'unit', 's': s, 'enc': enc, 'attempts': list(attempts)},
                                '%s(%r) %s (neither parameters nor a 404/400 refusal)' % (name, s, r), None)
        # oracle (well-formed escapes only)
        eq = oracle_query(raw, enc)
        if eq is not None:
            want = 'unicode' if eq == REFUSED else group(eq)
            if rq != want:
                ctx.oracle_fail({'kind': 'unit_qs', 's': s, 'enc': enc},
                                'parse_query_string(%r) -> %r, the string carries %r' % (s, rq, want), None)
        eb = oracle_body(raw, attempts)
        if eb is not None:
            want = 400 if eb == REFUSED else group(eb)
            if rb != want:
                ctx.oracle_fail({'kind': 'unit_body', 's': s, 'attempts': list(attempts)},
                                'process_urlencoded(%r) -> %r, the body carries %r' % (raw, rb, want), None)
        if lines is not None:
            ctx.compared(2)
            mq = lines[i]
            mq = parse_params(mq[2:]) if mq.startswith('P ') else mq[2:]
            if mq != rq:
                ctx.disagree({'kind': 'unit_qs', 's': s, 'enc': enc}, rq, mq, 'parse_query_string differs')
            mb = lines[n + i]
            mb = parse_params(mb[2:]) if mb.startswith('P ') else int(mb[2:])
            if isinstance(rq, str) and rq.startswith('raised') or isinstance(rb, str):
                continue
            if mb != rb:
                ctx.disagree({'kind': 'unit_body', 's': s, 'attempts': list(attempts)}, rb, mb,
                             'process_urlencoded differs')


def check_pct_items(ctx):
    """Every `%X` and `%XY` item through the bytes unquote_plus (the int(x, 16) quirks)."""
    from cherrypy._cpreqbody import unquote_plus
    items = [bytes([a]) for a in range(256)] + [bytes([a, b]) for a in range(256) for b in range(256)]
    items += [bytes([a, b, 0x41]) for a in (0x20, 0x32, 0x2d, 0x67) for b in range(256)]
    lines = ctx.model(['uqb ' + hx(b'%' + it) for it in items])
    for i, it in enumerate(items):
        try:
            real = unquote_plus(b'%' + it)
            if not isinstance(real, bytes):
                raise TypeError('returned ' + type(real).__name__)
        except Exception as e:
            ctx.oracle_fail({'kind': 'uqb', 'b': (b'%' + it).hex()},
                            'unquote_plus(%r) raised %s' % (b'%' + it, type(e).__name__), None)
            continue
        ctx.case({'kind': 'uqb', 'b': (b'%' + it).hex()}, nontrivial=False)
        if lines is not None:
            if hx(real) != lines[i]:
                ctx.disagree({'kind': 'uqb', 'b': (b'%' + it).hex()}, hx(real), lines[i], 'bytes unquote_plus differs')
        # oracle: a well-formed escape is that byte
        if len(it) >= 2 and _PCT.match(b'%' + it[:2]) and real[:1] != bytes([int(it[:2], 16)]):
            ctx.oracle_fail({'kind': 'uqb', 'b': (b'%' + it).hex()},
                            'unquote_plus(%r) -> %r' % (b'%' + it, real), None)
    if lines is not None:
        ctx.compared(len(items))
    ctx.count('pct_items', len(items))


def check_codecs(ctx, n):
    """The model's decoders against CPython's codecs (and urllib's text unquote_plus)."""
    rng = ctx.rng
    cases = []
    seeds = [b'', b'a', b'\xff\xfe', b'\xfe\xff', b'\xff\xfea\x00', b'\xfe\xff\x00a', b'a\x00', b'a', b'\x00\xd8',
             b'\x00\xd8\x00\xdc', b'\x00\xdc\x00\xd8', b'\xd8\x00\xdc\x00', b'\xff\xfe\xff\xfe', b'\xef\xbb\xbfa',
             b'\xed\x9f\xbf', b'\xed\xa0\x80', b'\xee\x80\x80', b'\xf4\x8f\xbf\xbf', b'\xf4\x90\x80\x80', b'\xc0\x80',
             b'\xe0\x80\x80', b'\xe0\x9f\xbf', b'\xe0\xa0\x80', b'\xf0\x8f\xbf\xbf', b'\xf0\x90\x80\x80', b'\xc2',
             b'\xc2\x80', b'\xc1\xbf', b'\xf5\x80\x80\x80', b'\xf8\x88\x80\x80\x80', b'\x80', b'\x7f', b'\xdf\xbf']
    for s in seeds:
        for cs in CS_ENUM.values():
            cases.append((cs, s))
    pool = [b'a', b'\x00', b'\xff', b'\xfe', b'\xd8', b'\xdc', b'\xc3', b'\xa9', b'\xe2', b'\x82', b'\xac', b'\xf0', b'\x9f',
            b'\x98', b'\x80', b'\xed', b'\xa0', b'\xbf', b'\xef', b'\xbb', b'=', b'\xdb', b'\xdf']
    for _ in range(n):
        cs = rng.choice(list(CS_ENUM.values()))
        if rng.random() < 0.5:
            s = b''.join(rng.choice(pool) for _ in range(rng.randint(0, 8)))
        else:
            t = gen_text(rng, 'full')
            py = {v: k for k, v in CS_ENUM.items()}[cs]
            try:
                s = t.encode(py)
            except UnicodeEncodeError:
                s = t.encode('utf-8')
            if s and rng.random() < 0.3:
                i = rng.randrange(len(s))
                s = s[:i] + bytes([rng.randrange(256)]) + s[i + 1:]
            if s and rng.random() < 0.15:
                s = s[:-1]
        cases.append((cs, s))
    py = {v: k for k, v in CS_ENUM.items()}
    lines = ctx.model(['dec %s %s' % (cs, hx(s)) for cs, s in cases])
    for i, (cs, s) in enumerate(cases):
        try:
            real = 'T ' + tx(s.decode(py[cs]))
        except UnicodeDecodeError:
            real = 'E'
        ctx.evaluations += 1
        ctx.count('codec:%s:%s' % (cs, 'ok' if real != 'E' else 'error'))
        if lines is not None:
            ctx.compared()
            if lines[i] != real:
                ctx.disagree({'kind': 'dec', 'cs': cs, 'b': s.hex()}, real, lines[i], 'charset decoder differs')
    # urllib's unquote_plus(text, enc, 'strict')
    texts = []
    alpha = ['a', '%', '2', '6', '+', '%c3', '%a9', 'é', '%E2%82%AC', '%ff', '%2', '%g', ' ', '\U0001f600', '%41']
    for _ in range(n):
        texts.append((rng.choice(['utf8', 'latin1', 'ascii', 'utf16']),
                      ''.join(rng.choice(alpha) for _ in range(rng.randint(0, 7)))))
    lines = ctx.model(['uqt %s %s' % (cs, tx(t)) for cs, t in texts])
    for i, (cs, t) in enumerate(texts):
        try:
            real = 'T ' + tx(urllib.parse.unquote_plus(t, py[cs], 'strict'))
        except UnicodeDecodeError:
            real = 'E'
        ctx.evaluations += 1
        if lines is not None:
            ctx.compared()
            if lines[i] != real:
                ctx.disagree({'kind': 'uqt', 'cs': cs, 't': t}, real, lines[i], 'text unquote_plus differs')


# ----------------------------------------------------------------------------------------------
def _corpus():
    d = os.path.join(common.CORPUS, PROPERTY)
    out = []
    if os.path.isdir(d):
        for f in sorted(os.listdir(d)):
            if f.endswith('.json'):
                out.append(json.load(open(os.path.join(d, f))))
    return out


def corpus_cases():
    return [c for c in _corpus() if c.get('kind', 'req') != 'history']


def corpus_histories():
    return [c for c in _corpus() if c.get('kind') == 'history']


def witness_case(w):
    """findings/C03.json witnesses are {'query': str, 'body': str?}."""
    case = {'kind': 'req', 'q': w.get('query', '').encode('utf-8').hex(), 'qs_enc': None, 'method': 'GET', 'b': None,
            'declared': None, 'attempt_cfg': None, 'scenario': 'witness', 'qfrags': [], 'bfrags': []}
    if 'body' in w:
        case.update(method='POST', b=w['body'].encode('utf-8').hex())
    return case


def gen_mixed(rng, n):
    out = []
    for i in range(n):
        r = rng.random()
        if i % 400 == 399:
            out.append(gen_huge(rng))
        elif i % 5 == 4:
            r2 = rng.random()
            out.append(gen_dims(rng) if r2 < 0.5 else gen_multipart(rng) if r2 < 0.75 else gen_bind_request(rng))
        elif r < 0.70:
            out.append(gen_request(rng, big=(i % 25 == 24)))
        elif r < 0.84:
            out.append(gen_undecodable(rng))
        elif r < 0.91:
            out.append(gen_imagemap(rng))
        else:
            out.append(gen_raw(rng))
        # re-use: an earlier request again, its query alone, or its query with another request's body
        if rng.random() < 0.08:
            old = rng.choice(out[-50:])
            if old.get('kind') == 'req' and len(old['q']) + len(old.get('b') or '') < 4000 \
                    and not uses_new_dims(old):
                new = {k: v for k, v in old.items() if k != 'truth'}
                how = rng.choice(['again', 'query-only', 'other-body'])
                if how == 'query-only':
                    new.update(b=None, method='GET', declared=None, bfrags=[])
                elif how == 'other-body':
                    other = rng.choice(out[-50:])
                    if other.get('b') is not None and other.get('attempt_cfg') == old.get('attempt_cfg'):
                        new.update(b=other['b'], method='POST', declared=other.get('declared'),
                                   bfrags=list(other.get('bfrags') or []), ctype_style=other.get('ctype_style', 'plain'))
                new['scenario'] = 'reuse-' + how
                out.append(new)
    return out


def small_requests(maxlen):
    """Every small string as the query of a GET and as the body of a POST, through the whole stack."""
    for s in small_strings(maxlen):
        h = s.encode().hex()
        yield {'kind': 'req', 'q': h, 'qs_enc': None, 'method': 'GET', 'b': None, 'declared': None,
               'attempt_cfg': None, 'scenario': 'small-query', 'qfrags': [], 'bfrags': []}
        yield {'kind': 'req', 'q': '', 'qs_enc': None, 'method': 'POST', 'b': h, 'declared': None,
               'attempt_cfg': None, 'scenario': 'small-body', 'qfrags': [], 'bfrags': []}


def _worker(args):
    """Thorough tier: one slice of generated requests in a forked process (oracle + model comparison)."""
    seed, n, tier = args
    import random
    import types
    mod = __import__('harness.c03', fromlist=['x'])
    ctx = common.Ctx(mod, tier, seed)
    ctx.rng = random.Random(seed)
    ctx.lean = types.SimpleNamespace(driver_ok=True, ok=True)
    c03_cov.start()
    check_requests(ctx, gen_mixed(ctx.rng, n))
    check_histories(ctx, [gen_history(ctx.rng) for _ in range(max(1, n // 8))])
    c03_bind.check_units(ctx, _cherrypy(), max(1, n // 20))
    return {'cov': c03_cov.take(), 'evaluations': ctx.evaluations, 'nontrivial': list(ctx._nontrivial), 'hist': ctx.hist,
            'oracle_failures': ctx.oracle_failures[:3], 'disagreements': ctx.disagreements[:3],
            'compared': ctx.disagreements_checked, 'samples': ctx.samples[:2], 'lines': ctx.driver.lines}


def explain_unexecuted(rel, qualname, src):
    """Why a line of an anchored function cannot run in this harness (None = it should have)."""
    if qualname == '_parse_qs':
        if 'strict_parsing' in src or 'bad query field' in src:
            return 'strict_parsing is never passed by CherryPy (parse_query_string has no such argument)'
        if src == 'continue':
            return 'keep_blank_values=False only: Request.process_query_string never passes it'
    if qualname == 'test_callable_spec':
        if src in ('except TypeError:', 'raise', '(args, varargs, varkw,', 'defaults) = getargspec(callable.__call__)') \
                or 'isinstance(callable, object)' in src:
            return ('getargspec(callable) raising TypeError: inspect.getfullargspec accepts every callable a '
                    'dispatcher can hand over')
        if src == 'inspect.ismethod(callable)':
            return "second operand of `hasattr(callable, '__call__') or ...`: every callable has __call__"
    if qualname == 'process_urlencoded' and 'entity.params[key]' in src:
        return ('entity.params non-empty before the processor runs: neither RequestBody nor Part is ever constructed '
                'with params (the final copy loop is the identity on {})')
    if qualname == 'Entity.__init__':
        if src in ('except ValueError:', 'pass'):
            return 'non-numeric Content-Length: refused before CherryPy sees it (C05)'
        if 'self.name' in src or 'self.filename' in src or 'filename*' in src or src in ('try:', 'raise cherrypy.HTTPError(') \
                or src.startswith(('except (ValueError, LookupError)', 'encoding, lang, filename', '400,')):
            return 'Content-Disposition of multipart parts (doubly quoted name, RFC 5987 filename*): property C04'
    if qualname == 'RequestBody.__init__' and src == 'request_params = {}':
        return 'RequestBody built without request_params: Request._do_respond always passes request.params'
    return None


def run(ctx):
    cov = c03_cov.start()
    try:
        _run(ctx)
    finally:
        if cov is not None:
            ctx.extra.setdefault('_cov_hits', []).extend(c03_cov.take())
            c03_cov.report(ctx, ctx.extra.pop('_cov_hits'), explain_unexecuted)


def _run(ctx):
    # fixed findings + corpus first
    first = [witness_case(e['witness']) for e in ctx.known if e.get('witness')]
    first += corpus_cases()
    check_requests(ctx, first)
    check_pct_items(ctx)
    check_codecs(ctx, ctx.budget(600, 20000))
    check_units(ctx, small_strings(ctx.budget(5, 6)))
    check_units(ctx, small_strings(3, 'a%e9+='), enc='latin-1', attempts=('ascii', 'latin-1'))
    check_units(ctx, small_strings(ctx.budget(4, 6), '%c3a9=&'))           # reaches %c3%a9 and its broken halves
    check_requests(ctx, list(small_requests(ctx.budget(3, 4))))
    ctx.extra['exhaustive_small_scope'] = ('all strings of length <= %d over {a %% 2 6 + & = ;} as query and as body '
                                           '(units; also over {%% c 3 a 9 = &} up to length 4 quick / 6 thorough), length <= %d through WSGI; '
                                           'all %%X / %%XY items'
                                           % (ctx.budget(5, 6), ctx.budget(3, 4)))
    check_histories(ctx, corpus_histories())
    check_dim_grid(ctx)
    probe = c03_bind.make_root(dict(c03_bind.CATCH_ALL, kind='method', varargs=False), lambda loc: None)
    ctx.extra['test_callable_spec_checks_bound_first_argument'] = (
        c03_bind.live_spec(_cherrypy(), probe.default, [], {'self': '1'}, []) == 404)
    if ctx.quick():
        check_histories(ctx, [gen_history(ctx.rng) for _ in range(700)])
        check_requests(ctx, gen_mixed(ctx.rng, 5000))
        check_histories(ctx, [gen_history(ctx.rng) for _ in range(300)])
        c03_bind.check_units(ctx, _cherrypy(), 500)
    else:
        jobs = [(ctx.rng.getrandbits(48), 12500, ctx.tier) for _ in range(24)]
        for res in common.parallel_map(_worker, jobs):
            ctx.evaluations += res['evaluations']
            ctx._nontrivial.update(bytes(x) for x in res['nontrivial'])
            for k, v in res['hist'].items():
                ctx.count(k, v)
            ctx.disagreements_checked += res['compared']
            ctx.driver.lines += res['lines']
            ctx.extra.setdefault('_cov_hits', []).extend(tuple(h) for h in res.get('cov', []))
            ctx.samples += res['samples'][:1] if len(ctx.samples) < 12 else []
            for case, what, sig in res['oracle_failures']:
                ctx.oracle_fail(case, what, sig)
            for case, impl, model, what in res['disagreements']:
                ctx.disagree(case, impl, model, what)


def check_dim_grid(ctx, compare=True):
    """Systematic small scope over the dimensions around the parsers: every method x body present x Content-Type
    label x Content-Length present x process_request_body x processors, with one fixed query and body."""
    cases = []
    for method in ('GET', 'POST', 'PUT', 'PATCH', 'DELETE', 'HEAD'):
        for body in (None, b'a=2&b=%C3%A9', b''):
            for media in (FORM, None, 'text/plain', 'Application/X-Www-Form-Urlencoded'):
                for no_length in (False, True):
                    for pb in (None, False):
                        for procs in (None, 'empty', 'text-form'):
                            if body is None and (media != FORM or no_length):
                                continue
                            c = {'kind': 'req', 'q': b'a=1&c=3'.hex(), 'qs_enc': None, 'method': method,
                                 'b': None if body is None else body.hex(), 'declared': None, 'attempt_cfg': None,
                                 'scenario': 'dim-grid', 'qfrags': [], 'bfrags': []}
                            if media is None:
                                c['no_ctype'] = True
                            elif media != FORM:
                                c['media'] = media
                            if no_length:
                                c['no_length'] = True
                            if pb is not None:
                                c['process_body'] = pb
                            if procs is not None:
                                c['processors'] = procs
                            cases.append(c)
    for uri in ('utf-8', 'ISO-8859-1', 'latin-1', 'ascii', 'utf-16'):
        for path in (b'/', b'/\xe9', b'/\xc3\xa9', b'/ab'):
            for q in (b'k=%C3%A9', b'k=\xc3\xa9', b'k=\xe9', b'k=v', b'\xc3\xa9=1&\xe9=2'):
                cases.append({'kind': 'req', 'q': q.hex(), 'qs_enc': None, 'method': 'GET', 'b': None, 'declared': None,
                              'attempt_cfg': None, 'uri_enc': uri, 'path': path.hex(), 'scenario': 'dim-grid-uri',
                              'qfrags': [], 'bfrags': []})
    check_requests(ctx, cases, compare=compare)
    ctx.extra['exhaustive_dimension_grid'] = ('%d requests: method x body x Content-Type label x Content-Length x '
                                              'process_request_body x processors; uri_encoding x path x query bytes'
                                              % len(cases))


def search(ctx, around=None):
    """Deeper oracle-only hunt (called when a proof or the correspondence broke)."""
    check_pct_items(ctx)
    check_units(ctx, small_strings(5), compare=False)
    if not ctx.oracle_failures:
        check_requests(ctx, list(small_requests(3)), compare=False)
    if not ctx.oracle_failures:
        check_dim_grid(ctx, compare=False)
    if not ctx.oracle_failures:
        check_histories(ctx, [gen_history(ctx.rng) for _ in range(3000)], compare=False)
    if not ctx.oracle_failures:
        check_requests(ctx, gen_mixed(ctx.rng, 12000), compare=False)


def replay(ctx, case):
    kind = case.get('kind', 'req')
    if kind == 'history':
        check_histories(ctx, [{'kind': 'history', 'steps': case['steps']}], echo=True, minimise=False)
    elif kind == 'req':
        obs = run_real(case)
        print('query  :', bytes.fromhex(case['q']))
        if case.get('b') is not None:
            print('body   :', bytes.fromhex(case['b']), '| declared', case.get('declared'), '| configured',
                  case.get('attempt_cfg'))
        print('impl   :', {'status': obs['status'], 'kw': obs['kw']})
        m = ctx.model([model_line(case)])
        if m:
            print('model  :', canon_model(m[0], case))
        print('oracle :', expected_of(case))
        check_requests(ctx, [case])
    elif kind in ('unit_qs', 'unit_body', 'unit'):
        print('impl qs  :', unit_parse_qs(case['s'], case.get('enc', 'utf-8')))
        print('impl body:', unit_urlencoded(case['s'].encode('utf-8'), case.get('attempts', ['utf-8'])))
        check_units(ctx, [case['s']], enc=case.get('enc', 'utf-8'), attempts=tuple(case.get('attempts', ['utf-8'])))
    elif kind == 'bind':
        c03_bind.replay_unit(ctx, _cherrypy(), case)
        c03_bind.check_units(ctx, _cherrypy(), 50)
    elif kind == 'uqb':
        from cherrypy._cpreqbody import unquote_plus
        b = bytes.fromhex(case['b'])
        print('impl :', unquote_plus(b))
        print('model:', ctx.model(['uqb ' + hx(b)]))
        check_pct_items(ctx)
    else:
        check_codecs(ctx, 200)


if __name__ == '__main__':
    import sys
    if '--fresh' in sys.argv:
        _fresh_main()
