"""C08 - the effective request config is the most-specific-wins merge, scoped by path.

Model: lean/CpModel/Config.lean (on top of Dispatch.lean) and Unrepr.lean (+ Gen tables),
theorems: lean/CpProofs/C08.lean, driver: lean/Drv/C08.lean.
Real code: generated object trees with `_cp_config` on classes / handlers / default handlers, generated
application sections (dict or INI text) and global entries; every request goes through the in-process WSGI
entry point; `request.config`, `request.toolmaps` and the probe tools that ran are recorded.
"""
import ast
import io
import json
import os
import string

from . import common
from . import c02
from . import c02_tree as T
from . import c08_hist as H
from . import c08_ns as NS
from . import c08_upd as U
from . import c08_ini as INI
from . import c08_cov as COV
from . import c08_pkg as PKG

PROPERTY = 'C08'
LEAN_TARGETS = ['CpProofs.C08', 'CpProofs.C08Hist', 'CpProofs.C08Ns', 'CpProofs.C08Upd', 'CpProofs.C08Eval', 'CpProofs.C08Ini', 'drv_c08']
DRIVER = 'drv_c08'
THEOREMS = [
    'CpProofs.C08.get_append',
    'CpProofs.C08.C08_merge_spec',
    'CpProofs.C08.C08_merge_spec_levels',
    'CpProofs.C08.C08_deeper_wins',
    'CpProofs.C08.C08_section_over_cpconfig_same_level',
    'CpProofs.C08.C08_scoped',
    'CpProofs.C08.C08_scoped_general',
    'CpProofs.C08.C08_find_config',
    'CpProofs.C08.C08_tools',
    'CpProofs.C08.C08_tool_args',
    'CpProofs.C08.C08_unrepr_partial',
    'CpProofs.C08.C08_unrepr_dichotomy',
    'CpProofs.C08.C08_unrepr_set_rejected',
    'CpProofs.C08.live_sites_copy',
    'CpProofs.C08.req_preserves_world',
    'CpProofs.C08.C08_history_independent',
    'CpProofs.C08.C08_history_requests_invisible',
    'CpProofs.C08.alias_breaks_independence',
    'CpProofs.C08.C08_merge_section',
    'CpProofs.C08.C08_handler_tool_args',
    'CpProofs.C08.C08_custom_toolbox',
    'CpProofs.C08.C08_ns_delivers',
    'CpProofs.C08.C08_ns_only_registered',
    'CpProofs.C08.C08_ns_routing',
    'CpProofs.C08.C08_ns_context_manager',
    'CpProofs.C08.C08_ns_toolbox',
    'CpProofs.C08.C08_ns_propagate_stops',
    'CpProofs.C08.C08_ns_swallow_continues',
    'CpProofs.C08.C08_request_ns_order',
    'CpProofs.C08.C08_config_ns_served',
    'CpProofs.C08.C08_config_ns_not_request',
    'CpProofs.C08.C08_app_ns',
    'CpProofs.C08.C08_request_ns_body',
    'CpProofs.C08.C08_request_ns_attr',
    'CpProofs.C08.C08_response_ns_header',
    'CpProofs.C08.C08_response_ns_attr',
    'CpProofs.C08.C08_hooks_ns',
    'CpProofs.C08.C08_hooks_ns_live',
    'CpProofs.C08.C08_error_page_ns',
    'CpProofs.C08.C08_engine_ns_plugin',
    'CpProofs.C08.C08_server_ns',
    'CpProofs.C08.C08_env_expansion',
    'CpProofs.C08.C08_env_absent',
    'CpProofs.C08.C08_env_unknown',
    'CpProofs.C08.C08_update_global_section',
    'CpProofs.C08.C08_update_file_eq_dict',
    'CpProofs.C08.C08_update_later_wins',
    'CpProofs.C08.C08_setitem',
    'CpProofs.C08.C08_env_live_all',
    'CpProofs.C08.C08_env_live_production',
    'CpProofs.C08.C08_call_splat_keeps',
    'CpProofs.C08.C08_call_keyword_after_splat',
    'CpProofs.C08.C08_call_keyword_before_splat',
    'CpProofs.C08.C08_call_symbolic',
    'CpProofs.C08.C08_call_not_callable',
    'CpProofs.C08.C08_unrepr_starred',
    'CpProofs.C08.C08_unrepr_starred_dichotomy',
    'CpProofs.C08.C08_subscript_index',
    'CpProofs.C08.C08_subscript_list',
    'CpProofs.C08.C08_add_str',
    'CpProofs.C08.C08_add_list',
    'CpProofs.C08.C08_add_mixed',
    'CpProofs.C08.C08_sub_str',
    'CpProofs.C08.C08_mult_int',
    'CpProofs.C08.C08_mult_seq',
    'CpProofs.C08.C08_name_lookup_order',
    'CpProofs.C08.C08_ini_plain',
    'CpProofs.C08.C08_ini_section_over_default',
    'CpProofs.C08.C08_ini_options',
    'CpProofs.C08.C08_ini_case_kept',
    'CpProofs.C08.C08_ini_case_sensitive',
    'CpProofs.C08.C08_ini_stock_lowercases',
]
LEVEL = 'proof'
TECHNIQUE = ('Lean 4 proof: set_conf over the object trail refined to a level-by-level declarative merge (induction over the '
             'segment list), find_config = longest section prefix, toolbox on/off and arguments read off the effective config, '
             'histories of requests and config steps over a world model with explicit copy sites (independence of history), '
             'NamespaceSet / registered namespace handlers, cherrypy.config.update with environments, the INI layer, unrepr '
             'round trip and evaluation (calls, subscripts, operators) by structural induction; tied to the code by a '
             'differential run over single requests, histories against long-lived applications and generated inputs for '
             'every model function')
LEVEL_TEXT = ('Proved in Lean for every object graph without _cp_dispatch, every application config, global config and path: '
              'request.config = global, then per level of segments ++ [index] the _cp_config of the object found there and the '
              'section named by that path prefix, the default handler\'s _cp_config right after its owner; hence deeper wins, '
              'section beats _cp_config at the same level, and a section whose name is not a path prefix of the request can be '
              'removed without effect (string-prefix siblings included; this scoping theorem and the flattening over the final '
              'trail are also proved for all graphs, dispatchers included). find_config returns the value of the longest prefix '
              'section holding the key. A tool is set up iff the effective tools.<t>.on is truthy, with exactly the effective '
              'tools.<t>.* entries minus on/priority; a tools.<t>.handler(**kw) page handler calls the tool with kw overlaid by the '
              'effective tools.<t>.* of THIS request. For every history of requests (any applications, paths, order), app.merge and '
              'cherrypy.config.update steps, each request observes a function of the configuration steps before it and the request '
              'alone (requests leave the world unchanged; the two copy sites this rests on are measured on the live code and are a '
              'proof obligation; without the copy the statement is proved false by a 2-request witness). NamespaceSet.__call__: '
              'every entry ns.k reaches exactly the handler registered for ns, as (k, value), in registration x dict order; '
              'context-manager handlers are entered first and exited exactly once, told about an exception, which propagates iff '
              'not swallowed; the request serves hooks, request, response, error_page and tools (live tables); effects of the '
              'registered handlers (request.body.*, response.headers.*, hooks.<point>.*, error_page, server.<name>.on, '
              'engine.<plugin>.on, log, checker). cherrypy.config.update: only [global] of a sectioned input counts, file = dict, '
              'environment entries fill in the keys the update does not set (live table), later updates win. INI layer: case of '
              'option names kept, DEFAULT inherited and overridden, values without % literal. unrepr(repr(v)) = v for all literal '
              'values built from None/bool/int/float/complex/str/bytes/list/tuple/dict/dotted names whenever the generated builder '
              'table has the node classes needed; calls: name=value beats **mapping wherever it stands, **mapping never overrides, '
              'callee gets exactly the built arguments; subscripts with negative indices; Add/Mult on sequences. Partial: the '
              'level-by-level form needs graphs without _cp_dispatch; a starred call argument is appended as one value on the '
              'unrepaired tree (finding F31, dichotomy theorem); symbolic applications, float products outside 3 decimals, duplicate '
              'keys in dict displays and configparser\'s line syntax are covered by the correspondence run only.')
LEVEL_NOTE = ('Trusted: Lean kernel, the hand models Dispatch/Config/ConfigHist/ConfigNs/ConfigUpdate/ConfigIni/Unrepr as validated '
              'by the differential run, the serialised getattr view, CPython\'s parser (ast.parse output is an input of the model, '
              'and toAst is validated against it), configparser\'s reader (the INI model starts from the parsed document).')
TRUSTED_BASE = [
    'Python attribute lookup on the generated objects (serialised view) and dict semantics (update, insertion order)',
    'CPython parser: ast.parse(text) is serialised into the model; toAst(v) is checked against ast.parse(repr(v)) on every run',
    'configparser line syntax (sections, `name = value`): the INI model starts from the document the file denotes; '
    'interpolation, DEFAULT and optionxform are modelled and compared with Parser and the stock parser on every run',
    'the functions a config value calls (the model says which function gets which arguments; the harness carries the call out)',
]
ASSUMPTIONS = [
    'config values are None / bool / int / str in the merge model (lists / dicts are opaque texts there; live objects are not modelled)',
    'floats in the unrepr model are decimals with at most 3 places; signed zeros, inf and nan are excluded (repr does not round-trip in Python either)',
    'sets are outside the statement\'s list of literal kinds (the builder rejects them; proved and checked, not counted as a failure)',
    'the copy sites of the world model (Tool._merged_args, set_conf) are measured by a probe call / one request per run',
]
RULE = ('random dispatcher-free (and some popargs/custom-dispatch) object trees x assignments of a small key set to random '
        'subsets of the scopes {global, app section per path prefix incl. punctuated / string-prefix-sibling / trailing-slash / '
        'index-suffixed names, class _cp_config per node, handler and default-handler _cp_config, tool decorators, handler-tool '
        'page handlers with kwargs} x paths inside/outside the scopes; sections supplied as dict, INI text or file name; '
        'HISTORIES: 6-20 steps against one or two applications on one root (requests in any order, merge, remount, global '
        'update, rebind of dotted-name targets, in-place mutation of list/dict values reached through any holder); find_config on '
        'random section sets; random literal values and random expressions (calls with * / ** / keywords, subscripts, + - *) '
        'through unrepr / INI; generated NamespaceSets, namespace-handler entries, update sequences with environments, INI '
        'documents with DEFAULT / interpolation; non-trivial = at least one generated key is set in some scope on the path (or '
        'the input reaches the modelled function); distinct = distinct (tree, configs, steps so far) / (sections, path, key) / text')

PLAIN_KEYS = ['k1', 'k2', 'ns.k3', 'Ns.K4']
TOOL_KEYS = ['tools.p1.on', 'tools.p1.x', 'tools.p2.on', 'tools.p2.y', 'tools.p2.priority', 'tools.p1.z.w']
RARE_KEYS = ['tools.staticdir.dir']
HOOK_KEY = 'hooks.on_start_resource.c08'                          # a bare hook attached by the hooks namespace
CUSTOM_KEY = 'c08req.flag'                                          # a custom namespace registered on the Request class
NS_KEYS = ['request.c08attr', 'response.headers.X-C08', HOOK_KEY, CUSTOM_KEY]   # consumed by the request / response / hooks / custom namespaces
ALL_TOOL_KEYS = ['tools.%s.%s' % (t, a) for t in ('p1', 'p2') for a in ('on', 'x', 'y', 'priority', 'z.w')]
GEN_KEYS = PLAIN_KEYS + ALL_TOOL_KEYS + RARE_KEYS + NS_KEYS + ['tools.staticdir.section']
PROBE_TOOLS = ['p1', 'p2']
ON_VALUES = [True, True, True, False, 0, 1, '', 'yes', None]

# the probe tools (cherrypy.tools.p1 / p2 / h1) and their journal are shared with the history runner
TOOL_JOURNAL = H.TOOL_JOURNAL
CUSTOM_JOURNAL = []


def ensure_tools():
    H.ensure_tools()
    from cherrypy import _cprequest
    if 'c08req' not in _cprequest.Request.namespaces:
        # a custom namespace, registered the documented way (on the request class): gets its entries per request
        _cprequest.Request.namespaces['c08req'] = lambda k, v: CUSTOM_JOURNAL.append((k, v))


def probe_copy_sites():
    """(Tool._merged_args copies the dict it is given, set_conf() copies cherrypy.config) measured on the live
    code; True when the probe cannot tell (the differential run decides then)."""
    merged = setconf = True
    try:
        cherrypy = T.cp()
    except Exception:
        return merged, setconf
    try:
        class FakeRequest:
            toolmaps = {'tools': {'c08probe': {'on': True, 'b': 2}}}
        tool = cherrypy._cptools.HandlerTool(lambda **kw: True, name='c08probe')
        d = {'a': 1}
        saved = cherrypy.serving.request
        cherrypy.serving.request = FakeRequest()
        try:
            r = tool._merged_args(d)
        finally:
            cherrypy.serving.request = saved
        merged = (r is not d) and d == {'a': 1}
    except Exception:
        pass
    try:
        spec = {'nodes': [{'exp': None, 'call': None, 'falsy': False, 'meth': [['index', {'exp': True}]], 'vals': [],
                           'kids': [], 'disp': None, 'conf': None}]}
        runner = T.Runner(T.Built(spec), 'D', sections={'/': {'c08probe.k': 1}})
        runner.get('/')
        if 'c08probe.k' in cherrypy.config:
            setconf = False
            dict.pop(cherrypy.config, 'c08probe.k', None)
    except Exception:
        pass
    return merged, setconf


def _lean_str(x):
    return '"' + ''.join(c if (32 <= ord(c) < 127 and c not in '"\\') else '\\u{%x}' % ord(c) for c in x) + '"'


def _lean_val(v):
    if v is None:
        return '.none'
    if v is True:
        return '.bool true'
    if v is False:
        return '.bool false'
    if isinstance(v, int):
        return '.int (%d)' % v
    if isinstance(v, str):
        return '.str %s.toList' % _lean_str(v)
    raise common.HarnessError('environment value outside the modelled kinds: %r' % (v,))


def probe_starred():
    """Does a `*x` call argument contribute its items (True) or x itself as one argument (False)?"""
    from cherrypy.lib import reprconf
    try:
        return reprconf.unrepr('list(*[(1, 2)])') == [1, 2]
    except Exception:
        return False


def tables(ctx):
    import cherrypy
    from cherrypy.lib import reprconf
    from cherrypy import _cprequest, _cpconfig
    names = sorted(n[6:] for n in dir(reprconf._Builder) if n.startswith('build_'))
    merged, setconf = probe_copy_sites()
    try:
        app_ns = list(cherrypy.Application(None).namespaces)
    except Exception:
        app_ns = []

    def strs(l):
        return ', '.join(_lean_str(n) for n in l)
    src = '''/-
  GENERATED by harness/c08.py `tables()` from the live modules.  Do not edit by hand.
-/
namespace CpModel.Gen.C08

/-- `[n[6:] for n in dir(_Builder) if n.startswith('build_')]` -/
def builderNodes : List String :=
  [%s]

/-- does `Tool._merged_args(d)` leave `d` alone (`conf = d.copy()`)?  Measured by calling it. -/
def mergedArgsCopies : Bool := %s

/-- does `set_conf()` build `request.config` from a copy of `cherrypy.config`?  Measured by one request. -/
def setConfCopies : Bool := %s

/-- `list(_cprequest.Request.namespaces)`: the namespaces a request serves, in serving order -/
def requestNamespaces : List String := [%s]

/-- `list(cherrypy.config.namespaces)` -/
def configNamespaces : List String := [%s]

/-- `list(cherrypy.Application(None).namespaces)` -/
def appNamespaces : List String := [%s]

/-- `_cprequest.hookpoints` -/
def hookPoints : List String := [%s]

/-- does a `*x` call argument contribute its items?  Measured: `unrepr('list(*[(1, 2)])') == [1, 2]`. -/
def starredSpreads : Bool := %s

end CpModel.Gen.C08
''' % (strs(names), 'true' if merged else 'false', 'true' if setconf else 'false',
       strs(list(_cprequest.Request.namespaces)), strs(list(cherrypy.config.namespaces)), strs(app_ns),
       strs(list(_cprequest.hookpoints)), 'true' if probe_starred() else 'false')
    envs = []
    for name, env in _cpconfig.environments.items():
        envs.append('  (%s.toList, [%s])' % (_lean_str(name), ', '.join('(%s.toList, %s)' % (_lean_str(k), _lean_val(v))
                                                                       for k, v in env.items())))
    env_src = '''import CpModel.Dispatch
/-
  GENERATED by harness/c08.py `tables()` from the live `cherrypy._cpconfig.environments`.  Do not edit by hand.
-/
namespace CpModel.Gen.C08
open CpModel.Dispatch

/-- `Config.environments`: environment name -> the entries it stands for -/
def environments : List (List Char × Conf) := [
%s]

end CpModel.Gen.C08
''' % ',\n'.join(envs)
    out = dict(c02.tables(ctx))
    out['CpModel/Gen/C08Tables.lean'] = src
    out['CpModel/Gen/C08Env.lean'] = env_src
    # what the `flags` op of a driver compiled from exactly these tables prints (see private_driver)
    import re
    c02src = out.get('CpModel/Gen/C02Tables.lean', '')
    m = re.search(r'def dispatchMethodName : List Nat := \[([0-9, ]*)\]', c02src)
    dname = '.'.join(x.strip() for x in m.group(1).split(',')) if m and m.group(1).strip() else '-'
    tt = re.search(r'def translateTable[^\n]*\n([^\n]*)', c02src)
    ntrans = len(re.findall(r'\(\d+, \[', tt.group(1))) if tt else 0
    _LIVE_FLAGS[0] = ' '.join([
        'M=%d' % merged, 'S=%d' % setconf, 'X=%d' % (1 if probe_starred() else 0), 'B=' + ','.join(names),
        'R=' + ','.join(_cprequest.Request.namespaces), 'C=' + ','.join(cherrypy.config.namespaces), 'A=' + ','.join(app_ns),
        'H=' + ','.join(_cprequest.hookpoints),
        'E=' + ','.join('%s:%d' % (n, len(e)) for n, e in _cpconfig.environments.items()),
        'D=' + dname, 'T=%d' % ntrans])
    return out


_LIVE_FLAGS = [None]
_PRIVATE = {'path': None, 'pid': None}


def private_driver(ctx):
    """The compiled driver lives at one shared path: a concurrent check of the same property against ANOTHER tree (a seed
    or mutation evaluation) regenerates the tables and rebuilds it.  So this run works with a private copy of the
    binary, taken once and accepted only if the tables compiled into it (`flags` op) are the ones of the live tree;
    otherwise tables + build are redone (under common's lock) and the copy is taken again."""
    import atexit
    import shutil
    import subprocess
    import tempfile
    if ctx.driver is None or _LIVE_FLAGS[0] is None or not (ctx.lean and ctx.lean.driver_ok):
        return
    if _PRIVATE['path'] is not None and os.path.exists(_PRIVATE['path']):
        ctx.driver.path = _PRIVATE['path']
        return
    shared = ctx.driver.path
    d = tempfile.mkdtemp(prefix='c08drv')
    me = os.getpid()

    def cleanup():
        if os.getpid() == me:
            shutil.rmtree(d, ignore_errors=True)
    atexit.register(cleanup)
    mine = os.path.join(d, 'drv_c08')
    last = None
    for attempt in range(4):
        try:
            shutil.copy2(shared, mine)
            r = subprocess.run([mine], input=b'flags\n', stdout=subprocess.PIPE, stderr=subprocess.PIPE, timeout=120)
            last = r.stdout.decode('utf-8', 'replace').strip()
        except (OSError, subprocess.SubprocessError) as e:
            last = 'copy/run failed: %r' % (e,)
        if last == _LIVE_FLAGS[0]:
            _PRIVATE['path'], _PRIVATE['pid'] = mine, me
            ctx.driver.path = mine
            if attempt:
                ctx.note('driver binary had been rebuilt for another tree by a concurrent check; rebuilt %d time(s)' % attempt)
            return
        ctx.lean = common.lean_prepare(ctx.mod, ctx)          # tables of THIS tree + build, under the lock
        if not (ctx.lean and ctx.lean.driver_ok):
            return
    raise common.HarnessError('the shared driver binary keeps being rebuilt for another tree (concurrent checks of C08 with a '
                              'different CHERRYPY_REPO): compiled %r, live %r' % (last, _LIVE_FLAGS[0]))


# ----------------------------------------------------------------------------------------------
# generator: scopes
# ----------------------------------------------------------------------------------------------
def gen_conf(rng, prov, p=0.3, rare=0.03):
    c = {}
    for k in PLAIN_KEYS:
        if rng.random() < p:
            c[k] = prov
    for k in NS_KEYS:
        if rng.random() < p * 0.6:
            c[k] = NS.HOOK_PATH if k == HOOK_KEY else prov
    for k in TOOL_KEYS:
        if rng.random() < p * 0.8:
            if k.endswith('.on'):
                c[k] = rng.choice(ON_VALUES)
            elif k.endswith('.priority'):
                c[k] = rng.choice([10, 50, 90])
            else:
                c[k] = prov
    if rng.random() < rare:
        c['tools.staticdir.dir'] = prov
    return c


def gen_config_case(rng, i):
    kind = 'M' if i % 7 == 6 else 'D'
    with_disp = (i % 7 == 3)
    spec = c02.gen_tree(rng, kind, with_disp, maxdepth=3)
    nodes = spec['nodes']
    for n, nd in enumerate(nodes):
        if rng.random() < 0.45:
            nd['conf'] = gen_conf(rng, 'C:%d' % n)
        for name, m in nd['meth']:
            if rng.random() < (0.5 if name in ('index', 'default') else 0.35):
                m['conf'] = gen_conf(rng, 'H:%d.%s' % (n, name))
            if rng.random() < 0.08:
                prov = 'T:%d.%s' % (n, name)
                m['tooldeco'] = [rng.choice(PROBE_TOOLS), rng.choice([{}, {'x': prov}, {'y': prov, 'priority': 30}])]
    paths = [c02.gen_path(rng, spec) for _ in range(6)]
    # sections: prefixes of the generated paths, and names that must NOT apply
    names = ['/']
    for p in paths:
        segs = [s for s in p.split('/') if s]
        for j in range(1, len(segs) + 1):
            names.append('/' + '/'.join(segs[:j]))
    names = list(dict.fromkeys(names))
    secnames = [n for n in names if rng.random() < 0.5]
    for n in names:
        r = rng.random()
        if r < 0.10 and n != '/':
            secnames.append(n + 'x')                                   # sibling sharing a string prefix
        elif r < 0.16 and n != '/':
            secnames.append(n[:-1] if len(n) > 2 else n + 'q')          # shorter string prefix
        elif r < 0.22 and n != '/':
            secnames.append(n + '/')                                   # trailing slash: never matches
        elif r < 0.27:
            secnames.append(n.translate(c02._PUNCT) if n != '/' else '/_')   # translated name is not the path
        elif r < 0.31:
            secnames.append((n if n != '/' else '') + '/index')
        elif r < 0.34:
            secnames.append(n.lstrip('/') or 'rel')                    # no leading slash
        elif r < 0.37 and n != '/':
            secnames.append(n.replace('/', '//', 1))
    secnames = [s for s in dict.fromkeys(secnames) if s and '[' not in s and ']' not in s and '\n' not in s]
    sections = {}
    for s in secnames:
        sections[s] = gen_conf(rng, 'S:' + s, p=0.4)
    glob = gen_conf(rng, 'G', p=0.4, rare=0.0)
    ini = rng.random() < 0.3
    gini = rng.random() < 0.2
    reqs = []
    for p in paths:
        m = rng.choice(c02.REQ_METHODS) if kind == 'M' else 'GET'
        reqs.append((p, m))
    return {'tree': spec, 'kind': kind, 'sections': sections, 'glob': glob, 'ini': ini, 'gini': gini, 'reqs': reqs}


def ini_text(sections):
    out = []
    for name, conf in sections.items():
        out.append('[%s]' % name)
        for k, v in conf.items():
            out.append('%s = %s' % (k, repr(v).replace('%', '%%')))
        out.append('')
    return '\n'.join(out)


# ----------------------------------------------------------------------------------------------
# real-code runner for config cases
# ----------------------------------------------------------------------------------------------
def run_config_case(case):
    cherrypy = T.cp()
    ensure_tools()
    built = T.Built(case['tree'], instrument=True)      # (dispatcher calls are recorded: the oracle learns what they consumed)
    saved = dict(cherrypy.config)
    missing = object()
    try:
        if case.get('gini') and case['glob']:
            # the global config arrives as an INI file with a [global] section
            cherrypy.config.update(io.StringIO(ini_text({'global': case['glob']})))
        else:
            cherrypy.config.update(dict(case['glob']))
        if case.get('ini'):
            # the application config arrives as an INI file; the harness-only entries are merged as a dict
            runner = T.Runner(built, case['kind'], sections={})
            runner.app.merge(io.StringIO(ini_text(case['sections'])))
        else:
            runner = T.Runner(built, case['kind'], sections=case['sections'])
        obs = []
        for p, m in case['reqs']:
            TOOL_JOURNAL[:] = []
            NS.HOOK_JOURNAL[:] = []
            CUSTOM_JOURNAL[:] = []
            o = runner.get(p, m)
            o['hook_ran'] = len(NS.HOOK_JOURNAL)
            o['custom_ns'] = list(CUSTOM_JOURNAL)
            req = runner.requests[0] if runner.requests else None
            cfg = getattr(req, 'config', None) if req is not None else None
            o['config'] = None if cfg is None else {k: cfg[k] for k in GEN_KEYS if k in cfg}
            tm = getattr(req, 'toolmaps', {}).get('tools', {}) if req is not None else {}
            o['toolmap'] = {t: dict(tm[t]) for t in PROBE_TOOLS if t in tm}
            o['tools_ran'] = sorted((n, sorted(kw.items())) for n, kw, _live in TOOL_JOURNAL)
            o['global_seen'] = {k: cherrypy.config[k] for k in GEN_KEYS if k in cherrypy.config}
            attr = getattr(req, 'c08attr', missing) if req is not None else missing
            o['request_attr'] = None if attr is missing else ['set', attr]
            o['x_header'] = None
            for hk, hv in o.get('headers', []):
                if hk.lower() == 'x-c08':
                    o['x_header'] = hv
            obs.append(o)
    finally:
        cherrypy.config.clear()
        dict.update(cherrypy.config, saved)
    return built, runner, obs


# ----------------------------------------------------------------------------------------------
# oracle: reference merge written from the property statement
# ----------------------------------------------------------------------------------------------
def default_options(root, path_info):
    """Which default handler (if any) is the chosen handler, per the C02 reference resolver:
    a list of acceptable answers, each None or (level, default callable)."""
    segs = [s for s in path_info.split('/') if s]
    chain = [root]
    for s in segs:
        nxt = getattr(chain[-1], s.translate(c02._PUNCT), None)
        if nxt is None:
            break
        chain.append(nxt)
    if len(chain) == len(segs) + 1:
        idx = getattr(chain[-1], 'index', None)
        if idx is not None:
            chain.append(idx)
    for depth in range(len(chain) - 1, -1, -1):
        o = chain[depth]
        d = getattr(o, 'default', None)
        opts = []
        if d is not None and c02._exposed(d):
            opts.append((depth, d))
        if c02._exposed(o):
            opts.append(None)
        if opts:
            return opts
    return [None]


def ref_effective(built, case, obs, req):
    """Acceptable effective configs (restricted to generated keys) for a dispatcher-free tree:
    global, then level by level the _cp_config of the object found there and the section named by that
    path prefix; the chosen default handler's _cp_config right after its owner's level."""
    path_info = obs['path_info']
    segs = [s for s in path_info.split('/') if s]
    sections = case['sections']
    results = []
    for with_index_section in (True, False):
      for dopt in default_options(built.root, path_info):
        eff = dict(case['glob'])
        default_level = None if dopt is None else dopt[0]

        def upd(conf):
            if conf:
                eff.update(conf)
        obj = built.root
        upd(getattr(obj, '_cp_config', None))
        upd(sections.get('/'))
        if default_level == 0:
            upd(getattr(dopt[1], '_cp_config', None))
        cur = ''
        for i, s in enumerate(segs + ['index']):
            obj = getattr(obj, s.translate(c02._PUNCT), None)
            cur += '/' + s
            implicit_index = (i == len(segs))
            upd(getattr(obj, '_cp_config', None) if obj is not None else None)
            if not implicit_index or with_index_section:
                upd(sections.get(cur))
            if default_level == i + 1:
                upd(getattr(dopt[1], '_cp_config', None))
        if case['kind'] == 'M' and obs['ran']:
            f = T.obj_for_pid(built, obs['ran'][0][0])
            upd(getattr(f, '_cp_config', None))
        results.append({k: v for k, v in eff.items() if k in GEN_KEYS and not k.startswith('tools.staticdir.s')})
    return results


def seg_prefix(name, segs):
    """Is section `name` a path prefix (segment-wise) of /seg1/…/segn ?"""
    if name == '/':
        return True
    if not name.startswith('/'):
        return False
    parts = name[1:].split('/')
    return parts == segs[:len(parts)]


def oracle_config(built, case, o, req):
    bad = []
    if o.get('hang') or o['path_info'] is None or o['config'] is None:
        return bad
    if o['status'] == 500 and not o['ran'] and o['config'] is None:
        return bad
    has_disp = any(nd.get('disp') is not None for nd in case['tree']['nodes'])
    cfg = {k: v for k, v in o['config'].items() if k != 'tools.staticdir.section'}
    segs = [s for s in o['path_info'].split('/') if s] + ['index']
    # scoped: a section that is not a path prefix of the request never shows up
    adds = any((nd.get('disp') or {}).get('add') for nd in case['tree']['nodes'])
    if not adds:
        for k, v in cfg.items():
            if isinstance(v, str) and v.startswith('S:') and not seg_prefix(v[2:], segs):
                bad.append(('key %r of request %r has the value of section %r, which is not on the request path'
                            % (k, o['path_info'], v[2:]), 'section_leak'))
    if has_disp:
        # trees with `_cp_dispatch`: the same level-by-level merge, the recorded dispatcher calls telling which path
        # prefixes each hop covered (every one of their sections applies)
        verb = None
        if case['kind'] == 'M' and o['ran']:
            f = T.obj_for_pid(built, o['ran'][0][0])
            verb = getattr(f, '_cp_config', None)
        keys = [k for k in GEN_KEYS if not k.startswith('tools.staticdir.s')]
        galts = H.ref_effective_general(built.root, case['kind'], o['path_info'], o.get('disp_log'), o['ran'], case['glob'],
                                        case['sections'], lambda ob: getattr(ob, '_cp_config', None) if ob is not None else None,
                                        verb, keys)
        if galts is not None:
            strip = [c for c, ch in galts]
            if cfg not in strip:
                diff = {k: (cfg.get(k), strip[0].get(k)) for k in set(cfg) | set(strip[0]) if cfg.get(k) != strip[0].get(k)}
                bad.append(('effective config of %r differs from the level-by-level merge (sections of every path prefix a '
                            'dispatcher hop covers included): {key: (got, want)} = %s' % (o['path_info'], diff), 'merge_mismatch'))
    else:
        alts = ref_effective(built, case, o, req)
        strip = alts
        if cfg not in strip:
            diff = {k: (cfg.get(k), strip[0].get(k)) for k in set(cfg) | set(strip[0]) if cfg.get(k) != strip[0].get(k)}
            bad.append(('effective config of %r differs from the level-by-level merge: {key: (got, want)} = %s'
                        % (o['path_info'], diff), 'merge_mismatch'))
    # the request / response namespaces consume the effective config
    if o['status'] == 200:
        want_attr = ['set', o['config']['request.c08attr']] if 'request.c08attr' in o['config'] else None
        if o['request_attr'] != want_attr:
            bad.append(('request.c08attr is %r although the effective config says %r'
                        % (o['request_attr'], want_attr), 'request_namespace'))
        want_h = o['config'].get('response.headers.X-C08')
        got_h = o['x_header']
        if got_h is not None:
            try:
                got_h = got_h.encode('latin-1').decode('utf-8')
            except (UnicodeEncodeError, UnicodeDecodeError):
                pass
        if want_h != got_h and want_h != o['x_header']:
            bad.append(('response header X-C08 is %r although the effective config says %r'
                        % (o['x_header'], want_h), 'response_namespace'))
    # a bare hook from the hooks namespace runs exactly when the effective config holds the entry
    if o['status'] != 500 or o['ran']:
        want_hook = 1 if HOOK_KEY in o['config'] else 0
        if o.get('hook_ran', want_hook) != want_hook:
            bad.append(('the bare hook ran %d time(s) although the effective config %s the entry %s'
                        % (o['hook_ran'], 'holds' if want_hook else 'does not hold', HOOK_KEY), 'hooks_namespace'))
        want_custom = [('flag', o['config'][CUSTOM_KEY])] if CUSTOM_KEY in o['config'] else []
        if o.get('custom_ns', want_custom) != want_custom:
            bad.append(('the custom namespace handler got %s, the effective config holds %s' % (o['custom_ns'], want_custom),
                        'custom_namespace'))
    # tools: run exactly when the effective config turns them on, with the merged arguments
    if o['status'] != 500 or o['ran']:
        want = []
        for t in PROBE_TOOLS:
            pre = 'tools.%s.' % t
            if o['config'].get(pre + 'on', False):
                kw = {k[len(pre):]: v for k, v in o['config'].items()
                      if k.startswith(pre) and k[len(pre):] not in ('on', 'priority')}
                want.append((t, sorted(kw.items())))
        if sorted(want) != o['tools_ran']:
            bad.append(('tools that ran %s differ from the tools the effective config turns on %s (config %s)'
                        % (o['tools_ran'], sorted(want), o['config']), 'tool_on_off'))
    return bad


def shrink_config_case(case, sig):
    import copy

    def variants(c):
        p, m = c['reqs'][0]
        for q in c02.path_variants(p):
            yield dict(c, reqs=[(q, m)])
        for name in list(c['sections']):
            new = copy.deepcopy(c['sections'])
            del new[name]
            yield dict(c, sections=new)
        for name, conf in c['sections'].items():
            for k in conf:
                new = copy.deepcopy(c['sections'])
                del new[name][k]
                yield dict(c, sections=new)
        for k in c['glob']:
            yield dict(c, glob={x: v for x, v in c['glob'].items() if x != k})
        for t in c02.tree_variants(c['tree']):
            yield dict(c, tree=t)
        if c.get('ini'):
            yield dict(c, ini=False)

    def messages(c):
        built, runner, obs = run_config_case(c)
        return [w for w, s2 in oracle_config(built, c, obs[0], None) if s2 == sig]

    def fails(c):
        return bool(messages(c))
    small = H.shrink_generic(dict(case, reqs=case['reqs'][:1]), variants, fails)
    try:
        g = dict(small, tree=c02.gc_tree(small['tree']))
        if fails(g):
            small = g
    except Exception:
        pass
    return small, (messages(small) or [None])[0]


# ----------------------------------------------------------------------------------------------
# model side for config cases
# ----------------------------------------------------------------------------------------------
def enc_sections(sections):
    if not sections:
        return '-'
    return ';'.join('%s|%s' % (T.enc_text(n), T.enc_conf(c) if c else 'E') for n, c in sections.items())


def dec_val(s):
    if s == 'N':
        return None
    if s == 'T':
        return True
    if s == 'F':
        return False
    if s[0] == 'i':
        return int(s[1:])
    return T.dec_text(s[1:])


def dec_conf(s):
    if s in ('E', '-'):
        return {}
    out = {}
    for kv in s.split(','):
        k, v = kv.split('~')
        out[T.dec_text(k)] = dec_val(v)
    return out


def dec_tools(s):
    if s == '-':
        return {}
    out = {}
    for item in s.split(';'):
        t, c = item.split(':')
        out[T.dec_text(t)] = dec_conf(c)
    return out


def model_config_obs(line):
    if line.startswith('E:'):
        return {'error': line}
    parts = dict(p.split('=', 1) for p in line.split(' '))
    k = dec_conf(parts['K'])
    tm = dec_tools(parts['TM'])
    run = dec_tools(parts['RUN'])
    return {'config': {x: v for x, v in k.items() if x in GEN_KEYS},
            'toolmap': {t: tm[t] for t in PROBE_TOOLS if t in tm},
            'tools_ran': sorted((t, sorted(run[t].items())) for t in PROBE_TOOLS if t in run)}


def check_config_cases(ctx, cases, compare_model=True):
    pending = []
    for case in cases:
        if len(ctx.oracle_failures) >= 150:
            ctx.note('config cases stopped after %d oracle failures' % len(ctx.oracle_failures))
            break
        try:
            built, runner, obs = run_config_case(case)
        except common.HarnessError:
            raise
        except Exception as e:
            if not H.raised_in_code_under_test(e):
                raise
            ctx.case(case, nontrivial=True)
            ctx.oracle_fail(dict(case, reqs=case['reqs'][:1]), 'building the tree, updating the global config or mounting the '
                            'application raised %s: %s' % (type(e).__name__, e), 'config_load_raised')
            continue
        reqs = case['reqs']
        for node, name, conf, f in built.config_by_decorator:
            if getattr(f, '_cp_config', None) != conf:
                ctx.oracle_fail(dict(case, reqs=reqs[:1]),
                                'the handler decorators (cherrypy.config(**kw) / cherrypy.tools.<t>(**kw)) should leave _cp_config = %r but left %r on handler %d.%s'
                                % (conf, getattr(f, '_cp_config', None), node, name), 'config_decorator')
        seen = [o['path_info'] or p for o, (p, m) in zip(obs, reqs)]
        maxsegs = max([len([s for s in p.split('/') if s]) for p in seen] + [0])
        added = [a for nd in case['tree']['nodes'] if nd.get('disp') for a in nd['disp'].get('add', [])]
        view = T.View(built, T.alphabet_for(seen, [m for p, m in reqs], extra=added), maxsegs + 4)
        root, na, nodes = view.fields()
        secs = enc_sections(case['sections'])
        glob = T.enc_conf(case['glob']) if case['glob'] else 'E'
        for (p, m), o in zip(reqs, obs):
            single = dict(case, reqs=[(p, m)])
            on_path = 0
            if o['config']:
                on_path = len(o['config'])
            ctx.case(single, nontrivial=on_path > 0,
                     key=json.dumps([case['tree'], case['sections'], case['glob'], p, m], sort_keys=True))
            ctx.count('conf:kind:' + case['kind'])
            ctx.count('conf:sections:%d' % min(len(case['sections']), 8))
            ctx.count('conf:ini' if case.get('ini') else 'conf:dict')
            if case.get('gini') and case['glob']:
                ctx.count('conf:global_as_ini')
            ctx.count('conf:status:%d' % o['status'])
            ctx.count('conf:keys_effective:%d' % min(on_path, 6))
            ctx.count('conf:tools_ran:%d' % len(o['tools_ran']))
            for what, sig in oracle_config(built, case, o, None):
                H.report_failure(ctx, single, what, sig, shrink_config_case)
            pi = o['path_info'] if o['path_info'] is not None else p
            line = ' '.join(['conf', case['kind'], T.enc_text(m.upper()), root, na, nodes, secs, glob, T.enc_text(pi)])
            pending.append((single, o, line))
    if not compare_model:
        return
    out = ctx.model([x[2] for x in pending])
    if out is None:
        return
    for (single, o, line), mline in zip(pending, out):
        ctx.compared()
        if 'unknownDispatch' in mline:
            ctx.count('conf:model_unknown_dispatcher')      # a dispatcher form outside the model: not comparable
            continue
        if 'outOfFuel' in mline:
            raise common.HarnessError('model artefact %s' % mline)
        mo = model_config_obs(mline)
        if 'error' in mo:
            if not (o['status'] == 500 and not o['ran']):
                ctx.disagree(single, {k: o[k] for k in ('status', 'ran', 'config')}, mo, 'model expects a dispatcher error')
            continue
        if o.get('hang') or o['config'] is None:
            ctx.disagree(single, {k: o.get(k) for k in ('status', 'ran', 'config', 'hang')}, mo, 'no request.config on the real side')
            continue
        diffs = []
        if mo['config'] != o['config']:
            diffs.append('config')
        if mo['toolmap'] != o['toolmap']:
            diffs.append('toolmap')
        if (o['status'] != 500 or o['ran']) and mo['tools_ran'] != o['tools_ran']:
            diffs.append('tools_ran')
        if diffs:
            ctx.disagree(single, {k: o[k] for k in ('config', 'toolmap', 'tools_ran', 'status', 'path_info')}, mo,
                         'request config observables differ in %s' % diffs)


# ----------------------------------------------------------------------------------------------
# find_config
# ----------------------------------------------------------------------------------------------
FC_SEGS = ['a', 'b', 'ab', 'a.b', 'c']


def gen_fc_case(rng):
    segs = [rng.choice(FC_SEGS) for _ in range(rng.choice([0, 1, 2, 2, 3, 4]))]
    path = '/' + '/'.join(segs)
    r = rng.random()
    if r < 0.15 and segs:
        path += '/'
    elif r < 0.22:
        path = path.replace('/', '//', 1)
    elif r < 0.27:
        path = path.lstrip('/')
    elif r < 0.3:
        path = ''
    names = ['/']
    for j in range(1, len(segs) + 1):
        names.append('/' + '/'.join(segs[:j]))
    extra = []
    for n in names:
        r = rng.random()
        if r < 0.15:
            extra.append(n + 'x')
        elif r < 0.25:
            extra.append(n + '/')
        elif r < 0.32 and len(n) > 1:
            extra.append(n[:-1])
        elif r < 0.38:
            extra.append(n.lstrip('/') or 'a')
        elif r < 0.42:
            extra.append('/' + rng.choice(FC_SEGS))
    sections = {}
    for n in dict.fromkeys([x for x in names if rng.random() < 0.6] + extra):
        if n:
            c = {}
            for k in ('k1', 'k2'):
                if rng.random() < 0.5:
                    c[k] = 'S:' + n
            sections[n] = c
    key = rng.choice(['k1', 'k1', 'k2', 'k9'])
    default = rng.choice([None, 'dflt'])
    return {'fc': {'sections': sections, 'path': path, 'key': key, 'default': default}}


def ref_find_config(sections, path, key, default):
    """Value of the longest section that is a prefix of the path (cut at slashes) and holds the key."""
    trail = path or '/'
    cands = [trail] + [trail[:i] for i in range(len(trail) - 1, 0, -1) if trail[i] == '/']
    if trail.startswith('/') and '/' not in cands:
        cands.append('/')
    for c in cands:
        if key in sections.get(c, {}):
            return sections[c][key]
    return default


def check_fc_cases(ctx, cases, compare_model=True):
    cherrypy = T.cp()
    lines = []
    got = []
    for case in cases:
        fc = case['fc']
        try:
            app = cherrypy.Application(None, '', {k: dict(v) for k, v in fc['sections'].items()})
            v = app.find_config(fc['path'], fc['key'], fc['default'])
        except Exception as e:
            if not H.raised_in_code_under_test(e):
                raise
            v = 'raised:' + type(e).__name__
        got.append(v)
        nontriv = any(fc['key'] in c for c in fc['sections'].values())
        ctx.case(case, nontrivial=nontriv, key=json.dumps(fc, sort_keys=True))
        ctx.count('fc:' + ('hit' if v != fc['default'] else 'default'))
        want = ref_find_config(fc['sections'], fc['path'], fc['key'], fc['default'])
        if v != want:
            ctx.oracle_fail(case, 'find_config(%r, %r) = %r, the longest prefix section holding the key gives %r (sections %s)'
                            % (fc['path'], fc['key'], v, want, sorted(fc['sections'])), 'find_config')
        lines.append(' '.join(['fc', enc_sections(fc['sections']), T.enc_text(fc['path']), T.enc_text(fc['key']),
                               '-' if fc['default'] is None else T.enc_val(fc['default'])]))
    if not compare_model:
        return
    out = ctx.model(lines)
    if out is None:
        return
    for case, v, mline in zip(cases, got, out):
        ctx.compared()
        mv = None if mline == 'V=-' else dec_val(mline[2:])
        if mv != v:
            ctx.disagree(case, v, mline, 'find_config differs')


# ----------------------------------------------------------------------------------------------
# unrepr / INI literals
# ----------------------------------------------------------------------------------------------
DOTTED = ['unittest.main', 'os.path', 'os.path.join', 'int', 'str.upper', 'cherrypy.lib.static', 'string.punctuation', 'os',
          'nosuchmodule_xyz', 'os.nosuch_attr', 'cherrypy.nosuch', 'Ellipsis', 'string']
HAND_TEXTS = ['1-2j', '(1-2j)', '-(1+2j)', '{1, 2}', 'set()', '+1', '~1', '1*2', '2*3.5', 'not True', '[1, {2: (3,)}]',
              '1 if True else 2', 'lambda: 1', '(1,)[0]', "'a' 'b'", '[1] + [2]', "{'a': {1, 2}}", '1/2', '1+2', '1.5-0.5',
              '-True', '--1', '- 1.25', '(-1.5+2.5j)', '(-1.5-2.5j)', '-2.5j', "dict(a=1)", '[x for x in (1,)]', '{}', '()',
              '[]', "b'ab'", 'None', 'True', '1e3', '0x10', "'%(x)s'", '"q" "%"']


# expressions that are not reprs of literals but that the builder evaluates: when unrepr accepts them the value
# must be the one Python computes (rejecting them is not a failure: the statement is about literal values)
EVAL_TEXTS = ['dict(a=1)', '(1,)[0]', "{'a': 1}['a']", 'int("5")', 'list((1, 2))', 'complex(1, -2)', '1+2', '1.5-0.5',
              '2*3.5', '[1] + [2]', "'a' 'b'", '-(1+2j)', '1-2j', '0x10', '1e3', 'os.path.join("a", "b")',
              'str.upper("x")', 'dict([(1, 2)], b=3)', 'dict(**{"k": 1})', 'max(*[1, 5, 2])', '[1, 2][-1]', '3-1-1',
              '2*3+1', '"%s" "x"', '-(-1)', '(1+2j)-(3+1j)', 'int', 'tuple([1])', "dict(a=1, **{'a': 2, 'b': 3})"]


def gen_value(rng, depth=0):
    r = rng.random()
    if depth >= 3 or r < 0.55:
        k = rng.choice(['none', 'bool', 'int', 'negint', 'float', 'negfloat', 'complex', 'complex', 'imag', 'str', 'bytes',
                        'bigint'])
        if k == 'none':
            return None
        if k == 'bool':
            return rng.choice([True, False])
        if k == 'int':
            return rng.choice([0, 1, 7, 255, 1000])
        if k == 'negint':
            return -rng.choice([1, 2, 42, 1000])
        if k == 'bigint':
            return rng.choice([1, -1]) * rng.randrange(10 ** 12, 10 ** 14)
        if k == 'float':
            return rng.choice([0.5, 1.0, 2.25, 1000.125, 0.001, 3.0])
        if k == 'negfloat':
            return -rng.choice([0.5, 1.0, 2.25, 7.125])
        if k == 'complex':
            re = rng.choice([1, -1, 2.5, -2.5, 3.0, -1000.125, 7])
            im = rng.choice([1, -1, 2.5, -2.5, 0.0, 4.0, -3])
            return complex(re, im)
        if k == 'imag':
            return complex(0, rng.choice([1, -1, 2.5, -0.5, 3]))
        if k == 'str':
            return rng.choice(['', 'a', 'two words', '%', '50%% off', "it's", 'x\ny', 'café', '[/sec]', ' lead',
                               '#c', ';c', 'k = v', '%(a)s', '\\', '"'])
        if k == 'bytes':
            return rng.choice([b'', b'ab', b'\x00\xff', b'%'])
    if r < 0.7:
        return [gen_value(rng, depth + 1) for _ in range(rng.choice([0, 1, 2, 3]))]
    if r < 0.82:
        return tuple(gen_value(rng, depth + 1) for _ in range(rng.choice([0, 1, 2, 3])))
    d = {}
    for _ in range(rng.choice([0, 1, 2, 3])):
        k = rng.choice([1, -2, 'k', 'a b', None, True, 2.5, (1, 2), -1.5, b'k', (1 + 2j)])
        d[k] = gen_value(rng, depth + 1)
    return d


def thousandths(x):
    m = round(x * 1000)
    if abs(x * 1000 - m) > 1e-6 or x != x or x in (float('inf'), float('-inf')):
        raise ValueError('float outside the modelled decimals: %r' % (x,))
    return m


def canon_val(v):
    """Value syntax of lean/CpModel/UnreprIO.lean (raises ValueError outside the modelled kinds)."""
    if v is None:
        return 'N'
    if v is True:
        return 'T'
    if v is False:
        return 'F'
    if isinstance(v, int):
        return 'i%d' % v
    if isinstance(v, float):
        if v == 0 and str(v).startswith('-'):
            raise ValueError('signed zero')
        return 'f%d' % thousandths(v)
    if isinstance(v, complex):
        if (v.real == 0 and str(v.real).startswith('-')) or (v.imag == 0 and str(v.imag).startswith('-')):
            raise ValueError('signed zero')
        return 'x%d:%d' % (thousandths(v.real), thousandths(v.imag))
    if isinstance(v, str):
        return 's' + T.enc_text(v)
    if isinstance(v, bytes):
        return 'b' + T.enc_text(v.decode('latin-1'))
    if isinstance(v, list):
        return 'L(' + ','.join(canon_val(x) for x in v) + ')'
    if isinstance(v, tuple):
        return 'U(' + ','.join(canon_val(x) for x in v) + ')'
    if isinstance(v, dict):
        return 'D(' + ','.join(canon_val(k) + ',' + canon_val(x) for k, x in v.items()) + ')'
    raise ValueError('value outside the modelled kinds: %r' % (v,))


UOPS = {'USub': '-', 'UAdd': '+', 'Not': '!', 'Invert': '~'}
BOPS = {'Add': '+', 'Sub': '-', 'Mult': '*', 'Div': '/'}


def canon_ast(n):
    """AST syntax of UnreprIO.lean for what CPython's parser produced."""
    cls = n.__class__.__name__
    if cls == 'Constant':
        v = n.value
        if v is None:
            return 'cN'
        if v is True:
            return 'cT'
        if v is False:
            return 'cF'
        if isinstance(v, int):
            return 'ci%d' % v
        if isinstance(v, float):
            return 'cf%d' % thousandths(v)
        if isinstance(v, complex):
            return 'cj%d' % thousandths(v.imag)
        if isinstance(v, str):
            return 'cs' + T.enc_text(v)
        if isinstance(v, bytes):
            return 'cb' + T.enc_text(v.decode('latin-1'))
        return 'X' + T.enc_text('Constant_' + type(v).__name__)
    if cls == 'List':
        return 'L(' + ','.join(canon_ast(x) for x in n.elts) + ')'
    if cls == 'Tuple':
        return 'U(' + ','.join(canon_ast(x) for x in n.elts) + ')'
    if cls == 'Set':
        return 'S(' + ','.join(canon_ast(x) for x in n.elts) + ')'
    if cls == 'Dict':
        if any(k is None for k in n.keys):
            return 'X' + T.enc_text('DictUnpack')
        return 'D(' + ','.join(canon_ast(k) + ',' + canon_ast(v) for k, v in zip(n.keys, n.values)) + ')'
    if cls == 'UnaryOp' and n.op.__class__.__name__ in UOPS:
        return 'u%s(%s)' % (UOPS[n.op.__class__.__name__], canon_ast(n.operand))
    if cls == 'BinOp' and n.op.__class__.__name__ in BOPS:
        return 'o%s(%s,%s)' % (BOPS[n.op.__class__.__name__], canon_ast(n.left), canon_ast(n.right))
    if cls == 'Name':
        return 'n' + T.enc_text(n.id)
    if cls == 'Attribute':
        return 'a%s(%s)' % (T.enc_text(n.attr), canon_ast(n.value))
    if cls == 'Call':
        parts = [canon_ast(n.func)]
        for a in n.args:
            parts.append('R(%s)' % canon_ast(a.value) if a.__class__.__name__ == 'Starred' else canon_ast(a))
        for kw in n.keywords:
            parts.append('W(%s)' % canon_ast(kw.value) if kw.arg is None
                         else 'K%s(%s)' % (T.enc_text(kw.arg), canon_ast(kw.value)))
        return 'C(' + ','.join(parts) + ')'
    if cls == 'Subscript':
        return 'B(%s,%s)' % (canon_ast(n.value), canon_ast(n.slice))
    return 'X' + T.enc_text(cls)


def resolve_env(text):
    """Which dotted paths of the names in `text` resolve (import / builtins / getattr): Python semantics."""
    import builtins
    import sys
    env = []
    try:
        tree = ast.parse(text, mode='eval').body
    except SyntaxError:
        return env
    for node in ast.walk(tree):
        chain = []
        n = node
        while isinstance(n, ast.Attribute):
            chain.append(n.attr)
            n = n.value
        if not isinstance(n, ast.Name):
            continue
        chain.append(n.id)
        chain.reverse()
        if chain[0] in ('None', 'True', 'False'):
            continue
        try:
            __import__(chain[0])
            obj = sys.modules[chain[0]]
        except ImportError:
            if hasattr(builtins, chain[0]):
                obj = getattr(builtins, chain[0])
            else:
                continue
        env.append(chain[:1])
        for j in range(1, len(chain)):
            if not hasattr(obj, chain[j]):
                break
            obj = getattr(obj, chain[j])
            env.append(chain[:j + 1])
    uniq = []
    for e in env:
        if e not in uniq:
            uniq.append(e)
    return uniq


def deep_same(a, b):
    if type(a) is not type(b):
        return False
    if isinstance(a, (list, tuple)):
        return len(a) == len(b) and all(deep_same(x, y) for x, y in zip(a, b))
    if isinstance(a, dict):
        return len(a) == len(b) and all(deep_same(k1, k2) and deep_same(a[k1], b[k2])
                                        for k1, k2 in zip(a, b))
    if isinstance(a, (float, complex)):
        return repr(a) == repr(b)
    return a == b


def resolve_dotted(text):
    import importlib
    parts = text.split('.')
    obj = None
    import builtins
    try:
        obj = importlib.import_module(parts[0])
    except ImportError:
        obj = getattr(builtins, parts[0])
    for p in parts[1:]:
        obj = getattr(obj, p)
    return obj


def classify_exc(e):
    """The class of an exception, by its TYPE only (never by the wording of its message)."""
    if isinstance(e, AttributeError):
        return 'attributeError'
    if isinstance(e, TypeError):
        return 'typeError'
    return 'other:' + type(e).__name__


def coarse_model_err(kind):
    """The model's error kinds on the same scale: `unrecognised:<Class>` (no build_<Class> method) and
    `unresolvedName` are TypeErrors of the builder."""
    if kind.startswith('unrecognised:') or kind in ('unresolvedName', 'typeError'):
        return 'typeError'
    return kind


def _mutate_all(v, seen=None):
    """One more item in every list / dict inside v (what an application may do to a value it was given)."""
    n = 0
    if isinstance(v, list):
        for x in list(v):
            n += _mutate_all(x)
        v.append('c08-extra')
        n += 1
    elif isinstance(v, dict):
        for x in list(v.values()):
            n += _mutate_all(x)
        v['c08-extra'] = 1
        n += 1
    elif isinstance(v, tuple):
        for x in v:
            n += _mutate_all(x)
    return n


def shared_object_probe(reprconf, text):
    """Values are fresh per evaluation: the same text evaluated twice (by unrepr, in two sections of one INI
    file, by two loads of the file) gives independent objects - changing one in place leaves the others alone."""
    try:
        a = reprconf.unrepr(text)
        b = reprconf.unrepr(text)
    except Exception:
        return None
    if not H.containers_in(a) and not isinstance(a, tuple):
        return None
    before = repr(b)
    if not _mutate_all(a):
        return None
    if repr(b) != before:
        return ('unrepr(%r) twice gives one shared object: changing the first result in place changed the second from %s to %r'
                % (text, before, b))
    try:
        c = reprconf.unrepr(text)
    except Exception:
        return None
    if repr(c) != before:
        return 'unrepr(%r) = %r after an earlier result was changed in place (first evaluation gave %s)' % (text, c, before)
    if text.strip() != text or '\n' in text:
        return None
    ini = '[/s]\nkey = %s\n[/t]\nkey = %s\nother = %s\n' % ((text.replace('%', '%%'),) * 3)
    try:
        d1 = reprconf.Parser().dict_from_file(io.StringIO(ini))
        d2 = reprconf.Parser.load(io.StringIO(ini))
    except Exception:
        return None
    _mutate_all(d1['/s']['key'])
    for where, v in (('[/t] key of the same file', d1['/t']['key']), ('[/t] other of the same file', d1['/t']['other']),
                     ('[/s] key of a second load', d2['/s']['key'])):
        if repr(v) != before:
            return ('INI value %s: changing [/s] key in place changed the %s to %r' % (text, where, v))
    return None


def empty_value_probe(ctx):
    """An option without a value (`key =`) is the empty string, as `unrepr('')` is."""
    from cherrypy.lib import reprconf
    case = {'lit': {'text': '', 'kind': 'empty'}}
    ctx.case(case, nontrivial=True, key='lit:<empty>')
    try:
        got = (reprconf.unrepr(''), reprconf.Parser.load(io.StringIO('[/s]\nk =\n'))['/s']['k'])
    except Exception as e:
        got = type(e).__name__
    if got != ('', ''):
        ctx.oracle_fail(case, "an empty INI value gives %r, expected ''" % (got,), 'unrepr_empty')


def rebind_probe(ctx):
    """Dotted names are evaluated on every load: after the attribute is rebound the same text gives the new object."""
    import sys
    import types
    from cherrypy.lib import reprconf
    empty_value_probe(ctx)
    mod = types.ModuleType('c08_rebind_probe')
    sys.modules['c08_rebind_probe'] = mod
    try:
        for text, mk in (('c08_rebind_probe.V', lambda v: v), ('[c08_rebind_probe.V]', lambda v: [v]),
                         ('dict(a=c08_rebind_probe.V)', lambda v: {'a': v}), ('c08_rebind_probe.f(1)', lambda v: (v, 1))):
            case = {'lit': {'text': text, 'kind': 'rebind'}}
            ctx.case(case, nontrivial=True, key='rebind:' + text)
            for v in (10, 'second', 20):
                mod.V = v
                mod.f = (lambda v: lambda x: (v, x))(v)
                for how in ('unrepr', 'ini'):
                    try:
                        if how == 'unrepr':
                            got = reprconf.unrepr(text)
                        else:
                            got = reprconf.Parser.load(io.StringIO('[/s]\nk = %s\n' % text))['/s']['k']
                    except Exception as e:
                        ctx.oracle_fail(case, '%s of %r raised %s' % (how, text, type(e).__name__), 'unrepr_rejects:rebind')
                        continue
                    if got != mk(v):
                        ctx.oracle_fail(case, '%s of %r gives %r after the attribute was rebound to %r (the equivalent dict value is %r)'
                                        % (how, text, got, v, mk(v)), 'unrepr_stale_name')
    finally:
        sys.modules.pop('c08_rebind_probe', None)


PROBE_MOD = 'c08probe'


def install_probe_module():
    """A module INI values can call into: `f` / `g` answer with exactly the arguments they were given."""
    import sys
    import types
    mod = types.ModuleType(PROBE_MOD)

    def f(*a, **kw):
        return ('f', a, kw)

    def g(*a, **kw):
        return ['g', list(a), sorted(kw)]
    mod.f, mod.g = f, g
    mod.V = 7
    mod.L = (1, 2)
    mod.D = {'a': 1}
    mod.sub = types.SimpleNamespace(W='w', f=f)
    prev = sys.modules.get(PROBE_MOD)
    sys.modules[PROBE_MOD] = mod
    return prev


def remove_probe_module(prev):
    import sys
    if prev is None:
        sys.modules.pop(PROBE_MOD, None)
    else:
        sys.modules[PROBE_MOD] = prev


class ModelApply(Exception):
    """evaluating a symbolic application of the model raised"""


def py_of_model(s):
    """The Python object a model value (UnreprIO syntax) denotes: dotted paths are resolved, symbolic
    applications are carried out with the real function."""
    pos = [0]

    def atom():
        i = pos[0]
        while pos[0] < len(s) and (s[pos[0]].isdigit() or s[pos[0]] in '.-:/'):
            pos[0] += 1
        return s[i:pos[0]]

    def items():
        out = []
        if s[pos[0]] == ')':
            pos[0] += 1
            return out
        while True:
            out.append(val())
            c = s[pos[0]]
            pos[0] += 1
            if c == ')':
                return out

    def val():
        c = s[pos[0]]
        pos[0] += 1
        if c == 'N':
            return None
        if c == 'T':
            return True
        if c == 'F':
            return False
        if c == 'i':
            return int(atom())
        if c == 'f':
            return int(atom()) / 1000.0
        if c == 'x':
            re, im = atom().split(':')
            return complex(int(re) / 1000.0, int(im) / 1000.0)
        if c == 's':
            return T.dec_text(atom())
        if c == 'b':
            return T.dec_text(atom()).encode('latin-1')
        if c == 'O':
            return resolve_dotted('.'.join(T.dec_text(x) for x in atom().split('/')))
        if c in 'LUDA':
            pos[0] += 1
            xs = items()
            if c == 'L':
                return xs
            if c == 'U':
                return tuple(xs)
            if c == 'D':
                return dict(zip(xs[0::2], xs[1::2]))
            callee, args, kw = xs
            try:
                return callee(*args, **kw)
            except Exception as e:
                raise ModelApply(e)
        raise ValueError('bad model value %r at %d' % (s, pos[0]))
    v = val()
    if pos[0] != len(s):
        raise ValueError('trailing text in model value %r' % s)
    return v


def same_value(a, b):
    return a is b or deep_same(a, b)


def _unsign_zero(v):
    """-0.0 -> 0.0 (the model's decimals carry no sign of zero)"""
    if isinstance(v, float):
        return v + 0.0 if v != 0 else 0.0
    if isinstance(v, complex):
        return complex(_unsign_zero(v.real), _unsign_zero(v.imag))
    if isinstance(v, list):
        return [_unsign_zero(x) for x in v]
    if isinstance(v, tuple):
        return tuple(_unsign_zero(x) for x in v)
    if isinstance(v, dict):
        return {k: _unsign_zero(x) for k, x in v.items()}
    return v


def same_value_model(real, model):
    return same_value(real, model) or same_value(_unsign_zero(real), _unsign_zero(model))


def has_dup_keys(tree):
    for n in ast.walk(tree):
        if isinstance(n, ast.Dict):
            keys = []
            for k in n.keys:
                if k is None:
                    return True
                try:
                    kv = ast.literal_eval(k)
                except Exception:
                    continue
                if any(kv == x for x in keys):
                    return True
                keys.append(kv)
    return False


def supported_by_builder(tree, reprconf):
    """every node class of the expression has a `build_<Class>` method (call plumbing aside)"""
    for n in ast.walk(getattr(tree, 'body', tree)):
        cls = n.__class__.__name__
        if cls in ('Load', 'keyword', 'Starred'):
            continue
        if cls == 'Dict' and any(k is None for k in n.keys):
            return False
        if not hasattr(reprconf._Builder, 'build_' + cls):
            return False
    return True


def expr_oracle(ctx, case, text, got, reprconf):
    """An expression the builder has methods for evaluates to what Python evaluates it to."""
    import os as _os
    import string as _string
    import sys
    try:
        tree = ast.parse(text, mode='eval')
    except SyntaxError:
        return
    glob = {'os': _os, 'string': _string, PROBE_MOD: sys.modules.get(PROBE_MOD)}
    try:
        want = eval(text, glob)
    except Exception:
        return                      # Python rejects it: nothing is promised
    starred = any(isinstance(n, ast.Starred) for n in ast.walk(tree))
    if got[0] == 'ok':
        if not same_value(got[1], want):
            ctx.oracle_fail(case, 'unrepr(%r) = %r, Python evaluates the same expression to %r' % (text, got[1], want),
                            'unrepr_starred_args' if starred else 'unrepr_wrong_value')
    elif supported_by_builder(tree, reprconf):
        ctx.oracle_fail(case, 'unrepr(%r) raises (%s), Python evaluates the same expression to %r' % (text, got[1], want),
                        'unrepr_starred_args' if starred else 'unrepr_rejects_supported')


def check_literal_cases(ctx, cases, compare_model=True):
    """cases: {'lit': {'text': str, 'kind': 'value'|'dotted'|'hand'|'eval'|'expr'|'rebind'}}"""
    from cherrypy.lib import reprconf
    lines = []
    meta = []
    import warnings
    prev_probe = install_probe_module()
    try:
        with warnings.catch_warnings():
            warnings.simplefilter('ignore', SyntaxWarning)       # "'int' object is not callable; perhaps you missed a comma?"
            _check_literal_cases(ctx, cases, compare_model, reprconf, lines, meta)
    finally:
        remove_probe_module(prev_probe)


def _check_literal_cases(ctx, cases, compare_model, reprconf, lines, meta):
    if len(cases) > 1:
        rebind_probe(ctx)
        check_name_origin(ctx, compare_model)
    for case in cases:
        text, kind = case['lit']['text'], case['lit']['kind']
        if kind == 'rebind':
            rebind_probe(ctx)
            continue
        if kind == 'name':
            check_name_origin(ctx, compare_model)
            continue
        ctx.case(case, nontrivial=True, key='lit:' + text)
        ctx.count('lit:' + kind)
        try:
            got = ('ok', reprconf.unrepr(text))
        except Exception as e:
            got = ('err', classify_exc(e))
        if got[0] == 'ok' and kind != 'dotted' and PROBE_MOD not in text:      # (the module's own objects are shared by design)
            bad = shared_object_probe(reprconf, text)
            if bad:
                ctx.oracle_fail(case, bad, 'unrepr_shared_object')
        if kind in ('eval', 'expr'):
            expr_oracle(ctx, case, text, got, reprconf)
        # --- oracle: the INI value evaluates to the same Python object as the equivalent dict value ---
        if kind in ('value', 'dotted'):
            try:
                want = eval(text, {'__builtins__': {}}) if kind == 'value' else resolve_dotted(text)
                have_want = True
            except Exception:
                have_want = False
            if have_want:
                if got[0] != 'ok':
                    sig = 'unrepr_rejects:' + got[1]
                    ctx.oracle_fail(case, 'unrepr(%r) raises (%s) although it is the repr of the literal value %r'
                                    % (text, got[1], want), sig)
                elif (kind == 'value' and not deep_same(got[1], want)) or (kind == 'dotted' and got[1] is not want):
                    ctx.oracle_fail(case, 'unrepr(%r) = %r, the equivalent dict value is %r' % (text, got[1], want),
                                    'unrepr_wrong_value')
                # the same text through an INI file
                ini = '[/s]\nkey = %s\n' % text.replace('%', '%%')
                try:
                    d = reprconf.Parser().dict_from_file(io.StringIO(ini))
                    iv = ('ok', d['/s']['key'])
                except Exception as e:
                    iv = ('err', type(e).__name__)
                if got[0] == 'ok' and (iv[0] != 'ok' or not (deep_same(iv[1], got[1]) if kind == 'value' else iv[1] is got[1])):
                    if text.strip() == text and '\n' not in text:
                        ctx.oracle_fail(case, 'INI value %r parsed to %r, unrepr of the same text gives %r'
                                        % (text, iv, got[1]), 'ini_differs')
        # --- model ---
        try:
            tree = ast.parse('__tempvalue__ = ' + text).body[0].value
            a = canon_ast(tree)
        except (SyntaxError, ValueError):
            continue
        if has_dup_keys(tree):
            ctx.count('lit:dict_display_with_repeated_keys')
            continue
        env = ';'.join('/'.join(T.enc_text(x) for x in p) for p in resolve_env(text)) or '-'
        lines.append('build %s %s' % (a, env))
        meta.append((case, got, kind, a))
        if kind == 'value' and got[0] == 'ok':
            try:
                lines.append('toast ' + canon_val(got[1]))
                meta.append((case, ('ast', a), 'toast', a))
            except ValueError:
                pass
    if not compare_model:
        return
    out = ctx.model(lines)
    if out is None:
        return
    for (case, got, kind, a), mline in zip(meta, out):
        if kind == 'toast':
            ctx.compared()
            if mline != a:
                ctx.disagree(case, a, mline, 'toAst(value) differs from ast.parse(repr(value))')
            continue
        if mline == 'err notModelled':
            ctx.count('lit:model_notModelled')
            continue
        if mline == 'bad-op':
            raise common.HarnessError('the driver could not parse the AST %s of %r' % (a, case['lit']['text']))
        ctx.compared()
        if mline.startswith('ok '):
            try:
                mv = ('ok', py_of_model(mline[3:]))
            except ModelApply as e:
                mv = ('err', classify_exc(e.args[0]))
            except Exception as e:
                raise common.HarnessError('model value %s of %r does not denote a Python object: %r' % (mline, case['lit']['text'], e))
        else:
            mv = ('err', coarse_model_err(mline[4:]))
            if mline[4:].startswith('unrecognised:') and hasattr(reprconf._Builder, 'build_' + mline[4:].split(':', 1)[1]):
                # (structural cross-check instead of reading the message: the class the model says is missing)
                ctx.disagree(case, 'the builder has build_' + mline[4:].split(':', 1)[1], mline, 'model table differs from the live builder')
                continue
        if got[0] != mv[0]:
            ctx.disagree(case, repr(got), mline, 'unrepr outcome differs (accepted / raised)')
        elif got[0] == 'ok':
            if not same_value_model(got[1], mv[1]):
                ctx.disagree(case, repr(got[1]), mline, 'unrepr result differs')
        elif got[1] != mv[1]:
            ctx.disagree(case, got[1], mline, 'unrepr error differs')


def check_name_origin(ctx, compare_model=True):
    """`build_Name`: the three keywords, then an importable module of that name, then a builtin.  A stand-in module
    named like a builtin shows the order."""
    import builtins
    import importlib.util
    import sys
    import types
    from cherrypy.lib import reprconf
    fake = {'abs': types.ModuleType('abs'), 'c08shadow': types.ModuleType('c08shadow')}
    saved = {n: sys.modules.get(n) for n in fake}
    sys.modules.update(fake)
    lines, meta = [], []
    try:
        for name in ['abs', 'c08shadow', 'len', 'os', 'string', 'None', 'True', 'False', 'nosuch_zz', 'builtins', 'int', 'Ellipsis']:
            case = {'lit': {'text': name, 'kind': 'name'}}
            ctx.case(case, nontrivial=True, key='name:' + name)
            try:
                v = reprconf._Builder().build(ast.parse(name, mode='eval').body)
                if name in ('None', 'True', 'False'):
                    got = 'K' if v is eval(name) else '?'
                elif isinstance(v, types.ModuleType):
                    got = 'M'
                elif v is getattr(builtins, name, object()):
                    got = 'B'
                else:
                    got = '?'
            except TypeError:
                got = '-'
            except Exception as e:
                got = 'other:' + type(e).__name__
            try:
                imp = name in sys.modules or importlib.util.find_spec(name) is not None
            except (ImportError, ValueError):
                imp = False
            lines.append('nameorigin %s %d %d' % (T.enc_text(name), 1 if imp else 0, 1 if hasattr(builtins, name) else 0))
            meta.append((case, got))
    finally:
        for n, m in saved.items():
            if m is None:
                sys.modules.pop(n, None)
            else:
                sys.modules[n] = m
    if not compare_model:
        return
    out = ctx.model(lines)
    if out is None:
        return
    for (case, got), mline in zip(meta, out):
        ctx.compared()
        if got != mline:
            ctx.disagree(case, got, mline, 'where build_Name finds the name differs')


# random expressions over the node classes the builder evaluates (and some it does not)
EXPR_ATOMS = ['1', '2', '-2', '0', '2.5', "'ab'", "'k'", "b'xy'", 'None', 'True', '[1, 2]', "(1, 'a')", "{'k': 1, 'j': [2]}",
              '()', '[]', '{}', PROBE_MOD + '.V', PROBE_MOD + '.L', PROBE_MOD + '.D', 'os.sep', 'len', 'nosuch', 'string.digits',
              PROBE_MOD + '.sub.W', "{1: 'x', 2: 'y'}", '3j']
# (callees that answer for any arguments: a symbolic application of the model is carried out afterwards, so a
# callee that raises half-way through an expression would hide what the builder does with the rest)
EXPR_CALLEES = [PROBE_MOD + '.f', PROBE_MOD + '.f', PROBE_MOD + '.g', PROBE_MOD + '.sub.f', 'dict', 'dict', 'list', 'tuple',
                PROBE_MOD + '.nosuch', '3', "'s'"]
EXPR_INDEX = ['0', '1', '-1', '5', '-3', 'True', "'k'", "'zz'", 'None', '1:2', '0.5', '2', "'j'"]


def gen_expr(rng, depth=0):
    r = rng.random()
    if depth >= 3 or r < 0.28:
        return rng.choice(EXPR_ATOMS)
    if r < 0.55:
        parts = []
        for _ in range(rng.choice([0, 1, 1, 2, 3])):
            if rng.random() < 0.18:
                parts.append('*' + rng.choice(['[1, 2]', "('a', 'b')", '[]', gen_expr(rng, depth + 1)]))
            else:
                parts.append(gen_expr(rng, depth + 1))
        for _ in range(rng.choice([0, 0, 1, 1, 2])):
            q = rng.random()
            if q < 0.6:
                parts.append('%s=%s' % (rng.choice(['a', 'b', 'k']), gen_expr(rng, depth + 1)))
            elif q < 0.9:
                parts.append('**' + rng.choice(["{'a': 1}", "{'a': 2, 'b': 3}", '{}', "{1: 2}", PROBE_MOD + '.D',
                                                'dict(k=5)', '[1]', '7']))
            else:
                parts.append('**' + gen_expr(rng, depth + 1))
        return '%s(%s)' % (rng.choice(EXPR_CALLEES), ', '.join(parts))
    if r < 0.7:
        return '%s[%s]' % (gen_expr(rng, depth + 1), rng.choice(EXPR_INDEX))
    if r < 0.85:
        return '(%s %s %s)' % (gen_expr(rng, depth + 1), rng.choice(['+', '+', '-', '*', '*', '/', '%']), gen_expr(rng, depth + 1))
    if r < 0.9:
        return '-(%s)' % gen_expr(rng, depth + 1)
    if r < 0.95:
        return '[%s]' % ', '.join(gen_expr(rng, depth + 1) for _ in range(rng.choice([1, 2])))
    return "{'k': %s}" % gen_expr(rng, depth + 1)


def gen_literal_cases(rng, n):
    cases = []
    for t in HAND_TEXTS:
        cases.append({'lit': {'text': t, 'kind': 'hand'}})
    for t in DOTTED:
        cases.append({'lit': {'text': t, 'kind': 'dotted'}})
    for t in EVAL_TEXTS:
        cases.append({'lit': {'text': t, 'kind': 'eval'}})
    for _ in range(n):
        v = gen_value(rng)
        cases.append({'lit': {'text': repr(v), 'kind': 'value'}})
    for _ in range(n // 2):
        cases.append({'lit': {'text': gen_expr(rng), 'kind': 'expr'}})
    return cases


# ----------------------------------------------------------------------------------------------
def corpus_cases():
    d = os.path.join(common.CORPUS, PROPERTY)
    out = []
    if os.path.isdir(d):
        for f in sorted(os.listdir(d)):
            if f.endswith('.json'):
                out.append(json.load(open(os.path.join(d, f))))
    return out


def check_any(ctx, cases, compare_model=True):
    hist = [c for c in cases if 'hist' in c]
    if hist:
        H.check_hist_cases(ctx, hist, compare_model)
    conf = [c for c in cases if 'tree' in c]
    for c in conf:
        c['reqs'] = [tuple(r) for r in c['reqs']]
    fc = [c for c in cases if 'fc' in c]
    lit = [c for c in cases if 'lit' in c]
    ns = [c for c in cases if 'ns' in c]
    if ns:
        NS.check_ns_cases(ctx, ns, compare_model)
    eff = [c for c in cases if 'nseff' in c]
    if eff:
        NS.check_eff_cases(ctx, eff, compare_model)
    upd = [c for c in cases if 'upd' in c]
    if upd:
        U.check_upd_cases(ctx, upd, compare_model)
    pkg = [c for c in cases if 'pkg' in c]
    if pkg:
        PKG.check_pkg_cases(ctx, pkg)
    ini = [c for c in cases if 'ini' in c and 'tree' not in c]
    if ini:
        INI.check_ini_cases(ctx, ini, compare_model)
    if conf:
        check_config_cases(ctx, conf, compare_model)
    if fc:
        check_fc_cases(ctx, fc, compare_model)
    if lit:
        check_literal_cases(ctx, lit, compare_model)


def _export(sub):
    cov = COV.stop()
    return {'cov_hits': cov.hits() if cov is not None else [], 'evaluations': sub.evaluations, 'nontrivial': list(sub._nontrivial), 'hist': sub.hist,
            'oracle_failures': sub.oracle_failures, 'disagreements': sub.disagreements,
            'compared': sub.disagreements_checked, 'lines': sub.driver.lines if sub.driver else 0,
            'samples': sub.samples[:2]}


_WORKER_LEAN = [None]


def _worker(args):
    seed, n = args
    import random
    sub = common.Ctx(__import__('harness.c08', fromlist=['x']), 'thorough', seed)
    sub.rng = random.Random(seed)
    sub.lean = _WORKER_LEAN[0]
    if _PRIVATE['path'] and sub.driver is not None:
        sub.driver.path = _PRIVATE['path']
    safe_init(sub)
    COV.start()
    check_config_cases(sub, [gen_config_case(sub.rng, i) for i in range(n)])
    H.check_hist_cases(sub, [H.gen_hist_case(sub.rng, i) for i in range(n // 4)])
    NS.check_ns_cases(sub, [NS.gen_ns_case(sub.rng) for _ in range(n * 2)])
    NS.check_eff_cases(sub, [NS.gen_eff_case(sub.rng) for _ in range(n)])
    U.check_upd_cases(sub, [U.gen_upd_case(sub.rng) for _ in range(n // 2)])
    INI.check_ini_cases(sub, [INI.gen_ini_case(sub.rng) for _ in range(n)])
    PKG.check_pkg_cases(sub, [PKG.gen_pkg_case(sub.rng) for _ in range(n // 20)])
    check_fc_cases(sub, [gen_fc_case(sub.rng) for _ in range(n * 4)])
    check_literal_cases(sub, gen_literal_cases(sub.rng, n * 3))
    return _export(sub)


ENUM_SCOPES = ['G', 'C:0', 'S:/', 'C:1', 'S:/a', 'H:1.default', 'C:2', 'S:/a/b', 'H:2.index', 'S:/ab', 'S:/a/x',
               'H:1.index']
ENUM_PATHS = ['/', '/a', '/a/', '/a/b', '/a/b/', '/a/x', '/ab', '/a/b/x/y', '/a/x/y']


def enum_scope_case(bits):
    """Exhaustive small scope: chain root -a-> n1 -b-> n2; every subset of 12 scopes sets k1 (to the scope's
    name) and tools.p1.on (alternating truth values)."""
    def conf(i):
        name = ENUM_SCOPES[i]
        return {'k1': name, 'tools.p1.on': (i % 2 == 0), 'tools.p1.x': name}

    def nd(**k):
        d = {'exp': None, 'call': None, 'falsy': False, 'meth': [], 'vals': [], 'kids': [], 'disp': None, 'conf': None}
        d.update(k)
        return d
    on = [bool(bits >> i & 1) for i in range(len(ENUM_SCOPES))]
    c = {ENUM_SCOPES[i]: conf(i) for i in range(len(ENUM_SCOPES)) if on[i]}

    def meth(name, key):
        m = {'exp': True}
        if key in c:
            m['conf'] = c[key]
        return [name, m]
    nodes = [nd(meth=[meth('index', '-')], kids=[['a', 1]], conf=c.get('C:0')),
             nd(meth=[meth('index', 'H:1.index'), meth('default', 'H:1.default')], kids=[['b', 2]], conf=c.get('C:1')),
             nd(meth=[meth('index', 'H:2.index')], conf=c.get('C:2'))]
    sections = {k[2:]: v for k, v in c.items() if k.startswith('S:')}
    return {'tree': {'nodes': nodes}, 'kind': 'D', 'sections': sections, 'glob': c.get('G', {}), 'ini': bits % 3 == 0,
            'reqs': [(p, 'GET') for p in ENUM_PATHS]}


def _worker_enum(args):
    lo, hi = args
    sub = common.Ctx(__import__('harness.c08', fromlist=['x']), 'thorough', 0)
    sub.lean = _WORKER_LEAN[0]
    if _PRIVATE['path'] and sub.driver is not None:
        sub.driver.path = _PRIVATE['path']
    COV.start()
    check_config_cases(sub, [enum_scope_case(b) for b in range(lo, hi)])
    return _export(sub)


def safe_init(ctx):
    """The process-wide set-up (`cherrypy.config.update({'environment': 'test_suite', 'log.screen': False})`) is itself a
    valid global config update going through the code under test: if it raises, that is an observation, and the run
    goes on with the entries written into the global config directly."""
    if T._INIT[0]:
        return
    try:
        T.cp()
        return
    except common.HarnessError:
        raise
    except Exception as e:
        if not H.raised_in_code_under_test(e):
            raise
        import cherrypy
        conf = {'environment': 'test_suite', 'log.screen': False}
        ctx.oracle_fail({'upd': {'steps': [{'conf': conf, 'form': 'dict', 'other': {}}]}},
                        'cherrypy.config.update(%r) raised %s: %s' % (conf, type(e).__name__, e), 'config_load_raised')
        full = dict(cherrypy._cpconfig.environments.get('test_suite', {}))
        full.update(conf)
        dict.update(cherrypy.config, full)
        try:
            cherrypy.log.screen = False
        except Exception:
            pass
        T._INIT[0] = True


def run(ctx):
    safe_init(ctx)
    private_driver(ctx)
    cov = COV.start()
    try:
        _run(ctx, cov)
    finally:
        COV.stop()
        cov.report(ctx)


def _run(ctx, cov):
    for e in ctx.known:
        if e.get('witness'):
            check_any(ctx, [dict(e['witness'])])
    for c in corpus_cases():
        check_any(ctx, [c])
        ctx.count('corpus')
    if ctx.quick():
        check_config_cases(ctx, [gen_config_case(ctx.rng, i) for i in range(800)])
        H.check_hist_cases(ctx, [H.gen_hist_case(ctx.rng, i) for i in range(300)])
        NS.check_ns_cases(ctx, [NS.gen_ns_case(ctx.rng) for _ in range(2000)])
        NS.check_eff_cases(ctx, [NS.gen_eff_case(ctx.rng) for _ in range(1200)])
        U.check_upd_cases(ctx, [U.gen_upd_case(ctx.rng) for _ in range(600)])
        INI.check_ini_cases(ctx, [INI.gen_ini_case(ctx.rng) for _ in range(1200)])
        PKG.check_pkg_cases(ctx, [PKG.gen_pkg_case(ctx.rng) for _ in range(60)])
        check_fc_cases(ctx, [gen_fc_case(ctx.rng) for _ in range(3000)])
        check_literal_cases(ctx, gen_literal_cases(ctx.rng, 2500))
        return
    _WORKER_LEAN[0] = ctx.lean
    jobs = [(ctx.rng.randrange(1 << 30), 1000) for _ in range(48)]
    for res in common.parallel_map(_worker, jobs):
        cov.add_hits(res.pop('cov_hits', []))
        c02._merge(ctx, res)
    total = 1 << len(ENUM_SCOPES)
    step = total // 32
    for res in common.parallel_map(_worker_enum, [(lo, lo + step) for lo in range(0, total, step)]):
        cov.add_hits(res.pop('cov_hits', []))
        c02._merge(ctx, res)
    ctx.extra['exhaustive'] = True
    ctx.extra['exhaustive_scope_assignments'] = total


def search(ctx, around=None):
    safe_init(ctx)
    private_driver(ctx)
    if around is not None and 'tree' in around:
        case = dict(around)
        spec = case['tree']
        case['reqs'] = [tuple(r) for r in case['reqs']] + [(c02.gen_path(ctx.rng, spec), case['reqs'][0][1]) for _ in range(40)]
        check_config_cases(ctx, [case], compare_model=False)
        if ctx.oracle_failures:
            return
    check_config_cases(ctx, [gen_config_case(ctx.rng, 7 * i) for i in range(800)], compare_model=False)
    H.check_hist_cases(ctx, [H.gen_hist_case(ctx.rng, i) for i in range(600)], compare_model=False)
    NS.check_ns_cases(ctx, [NS.gen_ns_case(ctx.rng) for _ in range(3000)], compare_model=False)
    NS.check_eff_cases(ctx, [NS.gen_eff_case(ctx.rng) for _ in range(2000)], compare_model=False)
    U.check_upd_cases(ctx, [U.gen_upd_case(ctx.rng) for _ in range(1500)], compare_model=False)
    INI.check_ini_cases(ctx, [INI.gen_ini_case(ctx.rng) for _ in range(2000)], compare_model=False)
    PKG.check_pkg_cases(ctx, [PKG.gen_pkg_case(ctx.rng) for _ in range(150)])
    check_fc_cases(ctx, [gen_fc_case(ctx.rng) for _ in range(5000)], compare_model=False)
    check_literal_cases(ctx, gen_literal_cases(ctx.rng, 5000), compare_model=False)


def replay(ctx, case):
    safe_init(ctx)
    private_driver(ctx)
    if 'hist' in case:
        H.replay(ctx, case)
        return
    if 'tree' in case:
        case = dict(case)
        case['reqs'] = [tuple(r) for r in case['reqs']]
        built, runner, obs = run_config_case(case)
        for (p, m), o in zip(case['reqs'], obs):
            print('request:', m, p, '(dispatcher %s, sections as %s)' % (case['kind'], 'INI' if case.get('ini') else 'dict'))
            print('impl   :', json.dumps({k: o[k] for k in ('status', 'ran', 'config', 'toolmap', 'tools_ran')}, default=repr))
            print('oracle :', oracle_config(built, case, o, None) or 'holds')
    elif 'fc' in case:
        print('find_config case:', json.dumps(case['fc']))
    elif 'lit' in case:
        print('literal:', case['lit'])
    else:
        print('case:', json.dumps(case, default=repr))
    check_any(ctx, [case])
