"""C01 (and C10): the FIRST requests of an application arriving on two threads at once.

`CPWSGIApp.__call__` assembles the WSGI pipeline (ExceptionTrapper, InternalRedirector, configured middleware)
lazily at the first call and memoizes it.  "No exception escapes to the server" and "an InternalRedirect is
followed" must hold for a request that arrives while another thread is still inside that assembly: the statement
quantifies over every request handed to a mounted application, and a request must behave as if it were the only
one.  A case parks thread 1 inside the constructor of a configured `wsgi.pipeline` middleware (deterministically,
with events - no sleeps) and sends the request under test on a second thread; then thread 1 is let go.

Oracle only (written from the statement; no model line): nothing escapes the callable / the iteration / close(),
start_response got a legal status, and the overlapped request is answered exactly as the same request is answered
by a fresh application that nobody else is calling (status and body).
"""
import io
import sys
import threading

import cherrypy

KINDS = ['ok', 'redirect', 'redirect_loop', 'stream_fail', 'raise', 'stream_close_fail']
POSITIONS = ['only', 'before_other', 'after_other']
WAIT = 20.0


class _Boom(Exception):
    pass


class _ClosingIter(object):
    def __init__(self):
        self.i = 0

    def __iter__(self):
        return self

    def __next__(self):
        self.i += 1
        if self.i > 2:
            raise StopIteration
        return b'chunk'

    def close(self):
        raise _Boom('close failed')


class Root(object):
    @cherrypy.expose
    def ok(self):
        return b'fine'

    @cherrypy.expose
    def target(self):
        return b'target reached'

    @cherrypy.expose
    def redirect(self):
        raise cherrypy.InternalRedirect('/target')

    @cherrypy.expose
    def redirect_loop(self):
        raise cherrypy.InternalRedirect('/redirect_loop')

    @cherrypy.expose
    def stream_fail(self):
        cherrypy.response.stream = True

        def gen():
            yield b'first'
            raise _Boom('body failed mid-stream')
        return gen()

    @cherrypy.expose
    def stream_close_fail(self):
        cherrypy.response.stream = True
        return _ClosingIter()

    @cherrypy.expose
    def do_raise(self):
        raise _Boom('handler failed')


PATH = {'ok': '/ok', 'redirect': '/redirect', 'redirect_loop': '/redirect_loop', 'stream_fail': '/stream_fail',
        'raise': '/do_raise', 'stream_close_fail': '/stream_close_fail'}


def cases():
    return [{'race': 1, 'kind': k, 'pos': p, 'parked': q}
            for k in KINDS for p in POSITIONS for q in ('ok', 'redirect')]


def _environ(path):
    return {'REQUEST_METHOD': 'GET', 'SCRIPT_NAME': '', 'PATH_INFO': path, 'QUERY_STRING': '',
            'SERVER_NAME': 'localhost', 'SERVER_PORT': '80', 'SERVER_PROTOCOL': 'HTTP/1.1', 'HTTP_HOST': 'localhost',
            'wsgi.version': (1, 0), 'wsgi.url_scheme': 'http', 'wsgi.input': io.BytesIO(b''),
            'wsgi.errors': io.StringIO(), 'wsgi.multithread': True, 'wsgi.multiprocess': False,
            'wsgi.run_once': False}


def _call(app, path):
    """one request through the WSGI callable, iterated to its end and closed: (starts, body, escaped)"""
    starts, chunks, escaped = [], [], None

    def start_response(status, headers, exc_info=None):
        starts.append((status, exc_info is not None))
        return lambda data: None
    it = None
    try:
        it = app(_environ(path), start_response)
        for c in it:
            chunks.append(c)
    except Exception as e:      # noqa: BLE001 - what the statement forbids; an observation
        escaped = 'call/next: %s: %s' % (type(e).__name__, e)
    finally:
        if it is not None and hasattr(it, 'close'):
            try:
                it.close()
            except Exception as e:      # noqa: BLE001
                escaped = escaped or 'close: %s: %s' % (type(e).__name__, e)
    try:
        cherrypy.serving.clear()
    except Exception:       # noqa: BLE001
        pass
    body = b''.join(c for c in chunks if isinstance(c, bytes))
    return {'starts': starts, 'body': body, 'escaped': escaped}


def _app(gate_first, pos):
    """a fresh Application whose wsgi.pipeline has a middleware that parks its FIRST construction"""
    state = {'entered': threading.Event(), 'release': threading.Event(), 'first': gate_first, 'built': 0,
             'passed': {}}       # thread ident -> set of user layers (class names) its request went through

    class Gate(object):
        def __init__(self, nextapp, **kw):
            self.nextapp = nextapp
            state['built'] += 1
            if state['first']:
                state['first'] = False
                state['entered'].set()
                state['release'].wait(WAIT)

        def __call__(self, environ, start_response):
            state['passed'].setdefault(threading.get_ident(), set()).add('gate')
            return self.nextapp(environ, start_response)

    class Other(object):
        def __init__(self, nextapp, **kw):
            self.nextapp = nextapp

        def __call__(self, environ, start_response):
            state['passed'].setdefault(threading.get_ident(), set()).add('other')
            return self.nextapp(environ, start_response)

    pipe = {'only': [('gate', Gate)], 'before_other': [('gate', Gate), ('other', Other)],
            'after_other': [('other', Other), ('gate', Gate)]}[pos]
    app = cherrypy.Application(Root(), '', {'/': {'request.show_tracebacks': False,
                                                  'tools.log_tracebacks.on': False,
                                                  'tools.trailing_slash.on': False}})
    app.wsgiapp.pipeline = list(app.wsgiapp.pipeline) + pipe
    return app, state


def run_case(case):
    cherrypy.config.update({'environment': 'test_suite', 'log.screen': False, 'request.show_tracebacks': False})
    cherrypy.log.error_log.propagate = False
    cherrypy.log.access_log.propagate = False
    old_hook = sys.unraisablehook
    sys.unraisablehook = lambda u: None
    try:
        # reference: the same request on a fresh application nobody else is calling
        ref_app, _ = _app(False, case['pos'])
        ref = _call(ref_app, PATH[case['kind']])
        app, st = _app(True, case['pos'])
        parked = {}

        def t1():
            parked.update(_call(app, PATH[case['parked']]))
        th = threading.Thread(target=t1, daemon=True)
        th.start()
        if not st['entered'].wait(WAIT):
            st['release'].set()
            th.join(WAIT)
            return {'setup': 'the first request never reached the middleware constructor', 'ref': ref}
        # the request under test runs on a thread of its own: an implementation that serialises the assembly (a lock
        # around it) makes it wait for the parked thread - then the first request is let go and both must still be
        # answered correctly; only a request that never comes back is a failure
        got, me = {}, {}

        def t2():
            me['ident'] = threading.get_ident()
            got.update(_call(app, PATH[case['kind']]))
        th2 = threading.Thread(target=t2, daemon=True)
        th2.start()
        th2.join(3.0)
        serialised = th2.is_alive()
        st['release'].set()
        th.join(WAIT)
        th2.join(WAIT)
        pref_app, _ = _app(False, case['pos'])
        pref = _call(pref_app, PATH[case['parked']])
        # what the model of the lazy assembly (lean/CpModel/PipelineLazy.lean) talks about: layers of the memoized
        # chain, threads that assembled a chain of their own, configured layers each request went through
        depth, node = 0, app.wsgiapp.head
        while node is not None and hasattr(node, 'nextapp') and depth < 50:
            depth, node = depth + 1, node.nextapp
        if node != app.wsgiapp.tail:
            depth = '?'      # (the layers keep their successor under another name: the chain cannot be walked)
        me = me.get('ident')
        tie = {'n': len(app.wsgiapp.pipeline), 'user': len(app.wsgiapp.pipeline) - len(type(app.wsgiapp).pipeline),
               'j': {'only': 0, 'before_other': 1, 'after_other': 0}[case['pos']],
               'head_depth': depth if app.wsgiapp.head is not None else None, 'built': st['built'],
               'passed_got': len(st['passed'].get(me, ())), 'passed_parked': len(st['passed'].get(th.ident, ()))}
        return {'ref': ref, 'got': got, 'parked': parked, 'parked_ref': pref, 'hung': th.is_alive() or th2.is_alive(),
                'tie': None if serialised else tie, 'serialised': serialised}
    finally:
        sys.unraisablehook = old_hook


def _legal(status):
    return isinstance(status, str) and len(status) >= 4 and status[:3].isdigit() and status[3] == ' ' \
        and 100 <= int(status[:3]) <= 599


def _show(o):
    return {'starts': o.get('starts'), 'body': (o.get('body') or b'')[:60], 'escaped': o.get('escaped')}


def oracle(case, obs):
    bad = []
    if obs.get('setup'):
        return bad      # (a tree whose pipeline is not built lazily any more: nothing to overlap)
    for who, o, r in (('the request that arrived during the first request\'s pipeline assembly', obs['got'], obs['ref']),
                      ('the first request', obs['parked'], obs['parked_ref'])):
        if not o:
            bad.append(('%s never came back' % who, 'race:never_returned'))
            continue
        if o['escaped']:
            bad.append(('%s (%s): an exception escaped to the server: %s (alone: %s)'
                        % (who, case['kind'], o['escaped'], _show(r)), 'race:exception_escaped'))
            continue
        if not o['starts'] or not all(_legal(s) for s, _ in o['starts']):
            bad.append(('%s: start_response calls %r' % (who, o['starts']), 'race:bad_status'))
            continue
        if (o['starts'][-1][0][:3], o['body']) != (r['starts'][-1][0][:3] if r['starts'] else None, r['body']) \
                and not r['escaped']:
            bad.append(('%s was answered %r, the same request on an application nobody else is calling gets %r'
                        % (who, _show(o), _show(r)), 'race:answer_differs'))
    return bad


def model_line(obs):
    """the schedule of this run for the model: thread 0 reads self.head and wraps j layers (parked inside the next
    constructor), thread 1 runs to its end, then thread 0 does"""
    t = obs['tie']
    n = t['n']
    return 'L %d 2 %s' % (n, ' '.join(['0'] * (1 + t['j']) + ['1'] * (n + 3) + ['0'] * (n + 3)))


def canon_real(obs):
    """(`head=?`: not observable on this tree - the caller does not compare that field)"""
    t = obs['tie']
    builtin = t['n'] - t['user']
    return 'head=%s pcs=c%d,c%d builders=%d' % ('N' if t['head_depth'] is None else t['head_depth'],
                                               t['passed_parked'] + builtin, t['passed_got'] + builtin, t['built'])
