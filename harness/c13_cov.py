"""C13: which lines of the anchored functions does the correspondence run execute?

A small, representative pass over every kind of case (lock-table schedules incl. regenerate / delete /
clear / two sweepers, memcached with the fake client, file schedules incl. lock-timeout expiry and
unsuccessful polls, request-level plans of every shape, whole WSGI requests on scheduled threads) runs
under `sys.settrace` / `threading.settrace`, restricted to the code objects of the anchored functions.
The lines never executed go to `ctx.extra['anchored_lines_not_executed']` with a reason where one is
known.
"""
from __future__ import annotations

import linecache
import sys
import threading


def anchored_codes():
    from cherrypy.lib import sessions, locking
    from cherrypy import _cptools
    out = {}

    def add(owner, name, qual):
        f = owner.__dict__.get(name) if isinstance(owner, type) else getattr(owner, name, None)
        f = getattr(f, '__func__', f)
        code = getattr(f, '__code__', None)
        if code is not None:
            out[code] = qual

    S = sessions
    for n in ('__init__', 'regenerate', '_regenerate', 'save', 'load', 'delete', 'clean_up'):
        add(S.Session, n, 'Session.' + n)
    for n in ('clean_up', '_discard_lock', '_exists', '_load', '_save', '_delete', 'acquire_lock', 'release_lock'):
        add(S.RamSession, n, 'RamSession.' + n)
    for n in ('__init__', '_get_file_path', '_exists', '_load', '_save', '_delete', 'acquire_lock', 'release_lock',
              'clean_up'):
        add(S.FileSession, n, 'FileSession.' + n)
    if hasattr(S, 'MemcachedSession'):
        for n in ('setup', '_exists', '_load', '_save', '_delete', 'acquire_lock', 'release_lock'):
            add(S.MemcachedSession, n, 'MemcachedSession.' + n)
    for n in ('save', 'close'):
        add(S, n, 'sessions.' + n)
    for cls in (locking.NeverExpires, locking.Timer, locking.LockChecker):
        for n, f in cls.__dict__.items():
            if callable(getattr(f, '__func__', f)) and hasattr(getattr(f, '__func__', f), '__code__'):
                add(cls, n, 'locking.%s.%s' % (cls.__name__, n))
    for n in ('_lock_session', '_setup', 'regenerate'):
        add(_cptools.SessionTool, n, 'SessionTool.' + n)
    return out


def executable_lines(code):
    lines = set()
    for _, _, l in code.co_lines():
        if l is not None and l > code.co_firstlineno:
            src = linecache.getline(code.co_filename, l).strip()
            if src and not src.startswith(('"""', "'''", '#')):
                lines.add(l)
    # a docstring spanning several lines is reported through its first line only; drop it
    doc_first = code.co_firstlineno + 1
    src = linecache.getline(code.co_filename, doc_first).strip()
    if src.startswith(('"""', "'''")):
        lines.discard(doc_first)
    return lines


REASONS = [
    ('cherrypy.log(', 'debug logging (tools.sessions.debug is off in the generated cases)'),
    ('if self.debug', 'debug logging (tools.sessions.debug is off in the generated cases)'),
    ('if sess.debug', 'debug logging (tools.sessions.debug is off in the generated cases)'),
    ("'TOOLS.SESSIONS')", 'debug logging (tools.sessions.debug is off in the generated cases)'),
    ('Monitor', 'the cleanup Monitor is never started (clean_freq = 0): the sweeper is driven by the scheduler'),
    ('t.subscribe()', 'the cleanup Monitor is never started (clean_freq = 0)'),
    ('t.start()', 'the cleanup Monitor is never started (clean_freq = 0)'),
    ('cls.clean_thread = t', 'the cleanup Monitor is never started (clean_freq = 0)'),
    ('self.id = None', 'generate_id() producing an id that is already stored: os.urandom(20) collisions are not generated'),
    ('pass', 'Session.clean_up of the base class (memcached has no sweeper): nothing to execute'),
    ("raise TypeError('not a session pickle')", 'a session file holding a pickle of another shape: property C14'),
    ('raise ValueError', 'configuration error path (lock_timeout of a wrong type): not a locking path'),
    ('raise AssertionError', 'memcached server refusing a set(): the fake client always stores'),
    ('raise cherrypy.HTTPError(400', 'session id outside the storage directory: property C11'),
]


def probe_monitors():
    """Session.load() starts the cleanup Monitor per storage CLASS (`cls.clean_thread`), while
    `RamSession.cache` / `RamSession.locks` are shared by all subclasses: two storage classes derived
    from RamSession give two concurrent sweepers over the same tables (the situation of C13-F21).
    Returns the number of Monitors started by loading one session of each of two subclasses."""
    import cherrypy
    from cherrypy.lib import sessions

    class StoreA(sessions.RamSession):
        pass

    class StoreB(sessions.RamSession):
        pass
    saved = (sessions.RamSession.cache, sessions.RamSession.locks)
    sessions.RamSession.cache, sessions.RamSession.locks = {}, {}
    started = []
    try:
        for cls in (StoreA, StoreB):
            s = cls(id=None, timeout=1, clean_freq=5, debug=True)
            s.acquire_lock()
            s['n'] = 1                      # load(): `if self.clean_freq and not cls.clean_thread:` ...
            s.save()
            t = cls.__dict__.get('clean_thread')
            if t is not None:
                started.append(t)
        shared = all(getattr(t.callback, '__self__', None).locks is sessions.RamSession.locks for t in started)
        return len(started) if shared else 0
    finally:
        for t in started:
            try:
                t.stop()
                t.unsubscribe()
            except Exception:
                pass
        sessions.RamSession.cache, sessions.RamSession.locks = saved


class Tracer:
    def __init__(self):
        self.codes = anchored_codes()
        self.hit = {c: set() for c in self.codes}

    def _global(self, frame, event, arg):
        if event == 'call' and frame.f_code in self.hit:
            return self._local
        return None

    def _local(self, frame, event, arg):
        if event == 'line':
            self.hit[frame.f_code].add(frame.f_lineno)
        return self._local

    def __enter__(self):
        self._old = sys.gettrace()
        threading.settrace(self._global)
        sys.settrace(self._global)
        return self

    def __exit__(self, *a):
        sys.settrace(self._old)
        threading.settrace(None)
        return False

    def report(self):
        missing = []
        total = 0
        for code, qual in sorted(self.codes.items(), key=lambda kv: (kv[0].co_filename, kv[0].co_firstlineno)):
            lines = executable_lines(code)
            total += len(lines)
            for l in sorted(lines - self.hit[code]):
                src = linecache.getline(code.co_filename, l).strip()
                why = next((r for pat, r in REASONS if pat in src), None)
                if why is None and missing and missing[-1]['function'] == qual and missing[-1]['line'] == l - 1:
                    why = missing[-1]['why']            # continuation line of the statement above
                missing.append({'function': qual, 'file': code.co_filename.split('/cherrypy/')[-1], 'line': l,
                                'source': src[:100], 'why': why})
        return total, missing
