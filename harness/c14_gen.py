"""C14 - generators of histories."""
import itertools

from .c14_run import VALS, ESCAPING, GARBAGE_CONTRACT, GARBAGE_OTHER, NAMES, DECOYS, PATHS, DOMAINS, SEPS, run_history

HOPS = ['r', 'w', 'k', 'c', 'g', 'd', 'x', 'A', 'L', 'G']
HOP_W = [30, 28, 6, 3, 9, 9, 5, 14, 3, 1]
MUTATING = ('w', 'k', 'c', 'A.sd', 'A.up', 'A.pop', 'A.del')


def gen_acc(rng):
    m = rng.choice(['get', 'gi', 'in', 'sd', 'up', 'pop', 'del'])
    k = rng.randint(1, 3)
    if m == 'sd':
        return 'A.sd.%d.%d' % (k, rng.randrange(len(VALS)))
    if m == 'up':
        n = rng.choice([1, 1, 2, 3])
        return 'A.up.' + '.'.join('%d.%d' % (rng.randint(1, 3), rng.randrange(len(VALS))) for _ in range(n))
    return 'A.%s.%d' % (m, k)


def gen_hops(rng, backend, maxn=4):
    n = rng.choice([0, 1, 1, 2, 2, 3, maxn])
    out = []
    for _ in range(n):
        h = rng.choices(HOPS, weights=HOP_W)[0]
        if h == 'w':
            out.append('w.%d.%d' % (rng.randint(1, 3), rng.randrange(len(VALS))))
        elif h == 'k':
            out.append('k.%d' % rng.randint(1, 3))
        elif h == 'A':
            out.append(gen_acc(rng))
        elif h == 'r':
            out.append(rng.choice(['r', 'r', 'r', 'r1', 'r2']))
        else:
            out.append(h)
    if out and rng.random() < 0.5 and out[0][0] != 'r':
        out.insert(0, 'r')
    q = rng.random()
    if q < 0.06:
        out.insert(rng.randrange(len(out) + 1), 'S')
    elif q < 0.10:
        out.append('I')
    q = rng.random()
    if q < 0.05:
        out.append('H')                      # the handler ends in a redirect: the save hook still runs
    elif q < 0.10:
        # the handler raises: the save hook does not run.  With RamSession the request works on the cached
        # dict itself, so a failed request's writes stay visible there (noted in docs, outside the model):
        # no mutation before the raise on that backend
        if backend != 'ram' or not any(h.startswith(MUTATING) for h in out):
            out.append('E')
    return out


def gen_cc(rng):
    if rng.random() < 0.5:
        return None
    cc = {'name': rng.choice([0, 0, 1, 2, 3]),
          'path': rng.choice([None, None, 1, 3]),
          'ph': rng.choice([None, None, 2]),
          'phc': rng.random() < 0.3,
          'domain': rng.choice([None, None, 0, 1]),
          'secure': int(rng.random() < 0.3),
          'httponly': int(rng.random() < 0.4),
          'persistent': int(rng.random() < 0.7)}
    return cc


def gen_spec(rng, client, have, nunk, cc_name):
    """-> (spec, nunk)"""
    q = rng.random()
    if client not in have:
        if q < 0.8:
            return 'none', nunk
        return 'unk:%d' % nunk, nunk
    others = sorted(have)
    if q < 0.60:
        spec = 'jar:%d' % client
    elif q < 0.66:
        spec = 'none'
    elif q < 0.73:
        spec = 'old:%d:%d' % (rng.choice(others), rng.randrange(4))
    elif q < 0.79:
        nunk += 1
        spec = 'unk:%d' % nunk
    elif q < 0.84:
        spec = 'jar:%d' % rng.choice(others)       # another client's id
    elif q < 0.90:
        if rng.random() < 0.7:
            spec = rng.choice(['lock:%d', 'upper:%d', 'sub:%d', 'trail:%d', 'dot:%d', 'prefix:%d']) % rng.choice(others)
        else:
            spec = rng.choice(['esc:%d' % rng.randrange(len(ESCAPING)), 'empty'])
    elif q < 0.93:
        spec = 'q~' + rng.choice(['jar:%d' % client, 'unk:%d' % nunk, 'old:%d:0' % client])
    else:
        # several pairs in one header: decoys, the default name next to a configured one, duplicates
        nunk += 1
        simple = ['jar:%d' % client, 'jar:%d' % rng.choice(others), 'unk:%d' % nunk, 'old:%d:0' % client,
                  'q~jar:%d' % client, 'upper:%d' % client, 'empty']
        items = []
        for _ in range(rng.choice([2, 2, 3, 4])):
            r = rng.random()
            if r < 0.55:
                who = 'c'
            elif r < 0.75 and cc_name != 0:
                who = 'n0'                    # the default name, while another one is configured
            else:
                who = 'd%d' % rng.choice(sorted(DECOYS))
            items.append('%s~%s' % (who, rng.choice(simple)))
        if cc_name != 0 and rng.random() < 0.6:
            # the default cookie name carries a live id while another name is configured
            items.insert(rng.randrange(len(items) + 1), 'n0~jar:%d' % rng.choice(others))
        spec = 'multi:%d:%s' % (rng.randrange(len(SEPS)), '|'.join(items))
    return spec, nunk


def gen_case(rng, backend=None, max_ops=40):
    backend = backend or rng.choices(['ram', 'file', 'mem'], weights=[38, 40, 22])[0]
    T = rng.choice([1, 2, 3])
    ncl = rng.randint(1, 4)
    budget = rng.choice([6, 12, 20, 30, max_ops])
    cc = gen_cc(rng)
    cc_name = (cc or {}).get('name', 0)
    ops = []
    used = 0
    now = 0
    exp = {}
    have = set()
    nunk = 0
    while used < budget:
        r = rng.random()
        if r < 0.56 or not have:
            client = rng.randrange(ncl)
            spec, nunk = gen_spec(rng, client, have, nunk, cc_name)
            hops = gen_hops(rng, backend)
            if used + 1 + len(hops) > max_ops:
                hops = hops[:max(0, max_ops - used - 1)]
            ops.append(['req', client, spec, hops])
            used += 1 + len(hops)
            have.add(client)
            if any(h[0] in 'rwkcA' for h in hops):
                exp[client] = now + T
        elif r < 0.60:
            # two overlapping requests: the same unknown id / no cookie / an id of its own each
            ca, cb = rng.randrange(ncl), rng.randrange(ncl)
            nunk += 1
            q = rng.random()
            if q < 0.5:
                sa = sb = 'unk:%d' % nunk
            elif q < 0.7:
                sa, sb = 'none', 'unk:%d' % nunk
            elif q < 0.85 and ca in have:
                sa, sb = 'jar:%d' % ca, rng.choice(['none', 'unk:%d' % nunk, 'old:%d:0' % ca])
            else:
                sa, sb = 'none', 'none'
            pre = [h for h in gen_hops(rng, backend, 2) if h not in ('S', 'H', 'E', 'I')]
            post = [h for h in gen_hops(rng, backend, 2) if h != 'S']
            if backend == 'ram' and 'E' in post and any(h.startswith(MUTATING) for h in pre + post):
                post = [h for h in post if h != 'E']
            hb = [h for h in gen_hops(rng, backend, 3) if h != 'S']
            ops.append(['par', ca, sa, pre, post, cb, sb, hb])
            used += 2 + len(pre) + len(post) + len(hb)
            have.add(ca)
            have.add(cb)
        elif r < 0.63 and backend != 'mem' and have:
            # the sweep runs while a request is inside its handler
            ca = rng.choice(sorted(have))
            sa = rng.choice(['jar:%d' % ca, 'jar:%d' % ca, 'old:%d:0' % ca, 'none'])
            pre = [h for h in gen_hops(rng, backend, 2) if h not in ('S', 'H', 'E', 'I', 'L')]
            post = [h for h in gen_hops(rng, backend, 2) if h not in ('S', 'L')]
            if backend == 'ram' and 'E' in post and any(h.startswith(MUTATING) for h in pre + post):
                post = [h for h in post if h != 'E']
            ops.append(['swpar', ca, sa, pre, post])
            used += 2 + len(pre) + len(post)
            if any(h[0] in 'rwkcA' for h in pre + post):
                exp[ca] = now + T
        elif r < 0.80:
            targets = [e for e in exp.values() if e >= now]
            if targets and rng.random() < 0.7:
                t = rng.choice(targets) + rng.choice([-1, 0, 0, 1])
                d = max(0, t - now)
            else:
                d = rng.choice([0, 1, 1, 2, T, T + 1])
            ops.append(['adv', d])
            now += d
            used += 1
        elif r < 0.93 or backend != 'file':
            ops.append(['sweep'])
            used += 1
        else:
            client = rng.choice(sorted(have))
            how = rng.choices(['cut', 'zero', 'garbage', 'garbage_other'], weights=[6, 1, 2, 2])[0]
            ops.append(['tear', client, how, rng.randrange(1000)])
            used += 1
            exp.pop(client, None)
    dups = []
    if rng.random() < 0.45 and not any(o[0] in ('par', 'swpar') for o in ops):
        for k in range(12):
            if rng.random() < 0.3:
                dups.append([k, rng.randrange(8)])
    case = {'backend': backend, 'timeout': T, 'idseed': rng.randrange(1 << 30), 'dups': dups, 'ops': ops}
    if cc:
        case['cc'] = cc
    q = rng.random()
    if q < 0.25:
        case['spell'] = 'type'
    elif q < 0.35 and backend == 'ram':
        case['spell'] = 'explicit'
    q = rng.random()
    if q < 0.08:
        case['clean_freq'] = 0
    elif q < 0.2:
        case['clean_freq'] = rng.choice([1, 2, 60])
    if rng.random() < 0.15:
        case['debug'] = True
    q = rng.random()
    if q < 0.1:
        case['locking'] = 'early'
    elif q < 0.15 and not any(o[0] in ('par', 'swpar') for o in ops):
        case['locking'] = 'explicit'
    if backend == 'file' and rng.random() < 0.1:
        case['lock_timeout'] = rng.choice([5, 2.5])
    if rng.random() < 0.08:
        case['noencode'] = True
    if rng.random() < 0.03:
        case['tconf'] = False
        case['timeout'] = 60
    return case


def torn_cases(rng, nfiles):
    """Every truncation offset of real saved files (+ zero-length + contract-class garbage): the torn
    file sits between two expired sessions in listing order, so the sweep has to get past it."""
    out = []
    for fi in range(nfiles):
        T = rng.choice([1, 2, 3])
        writes = ['w.%d.%d' % (rng.randint(1, 3), rng.randrange(len(VALS))) for _ in range(rng.randint(0, 4))]
        pre = [['req', 0, 'none', ['w.1.1']], ['req', 1, 'none', ['r'] + writes], ['req', 2, 'none', ['w.2.2']]]
        dry = run_history({'backend': 'file', 'timeout': T, 'idseed': fi, 'ops': pre + [['tear', 1, 'zero', 0]]})
        n = dry['events'][-1].get('len', 0)
        tails = [[['adv', T + 1], ['sweep'], ['req', 1, 'jar:1', ['r']], ['req', 1, 'jar:1', ['r', 'w.3.3']],
                  ['req', 1, 'jar:1', ['r']]],
                 [['req', 1, 'jar:1', ['r']], ['adv', T], ['sweep'], ['req', 0, 'jar:0', ['r']]]]
        for off in range(n):
            out.append({'backend': 'file', 'timeout': T, 'idseed': fi, 'ops':
                        pre + [['tear', 1, 'cut', off]] + tails[off % 2], 'torn': [fi, off, n]})
        for g in range(len(GARBAGE_CONTRACT)):
            out.append({'backend': 'file', 'timeout': T, 'idseed': fi, 'ops':
                        pre + [['tear', 1, 'garbage', g]] + tails[g % 2], 'torn': [fi, 'garbage', g]})
        for g in range(len(GARBAGE_OTHER)):
            out.append({'backend': 'file', 'timeout': T, 'idseed': fi, 'ops':
                        pre + [['tear', 1, 'garbage_other', g]] + tails[g % 2], 'torn': [fi, 'garbage_other', g]})
    return out


SMALL_ALPHABET = [
    ['req', 0, 'jar:0', ['r']],
    ['req', 0, 'jar:0', ['w.1.1']],
    ['req', 0, 'jar:0', ['r', 'd']],
    ['req', 0, 'jar:0', ['r', 'g']],
    ['req', 0, 'jar:0', []],
    ['req', 1, 'jar:0', ['r', 'w.2.2']],      # a second client presenting the first one's id
    ['req', 0, 'unk:1', ['r']],
    ['req', 0, 'old:0:0', ['r']],             # the first id the client ever received
    ['adv', 1],
    ['sweep'],
]


def enum_small(depth, backends=('ram', 'file', 'mem')):
    """Systematic small scope: every sequence of exactly `depth` operations over a 10/11-symbol alphabet
    (timeout 1 tick, so expiry-1 / expiry / expiry+1 are all reached), every backend."""
    for backend in backends:
        alpha = SMALL_ALPHABET + ([['tear', 0, 'cut', 7]] if backend == 'file' else [])
        for seq in itertools.product(range(len(alpha)), repeat=depth):
            yield {'backend': backend, 'timeout': 1, 'idseed': 0, 'ops': [alpha[k] for k in seq],
                   'small': list(seq)}


def overlap_cases(rng, n):
    """Targeted: two overlapping requests presenting the same unknown / expired / no id, with regenerate and
    writes on either side, after a little history."""
    out = []
    for i in range(n):
        backend = ['ram', 'file', 'mem'][i % 3]
        T = rng.choice([1, 2])
        pre_hist = [['req', 0, 'none', ['w.1.%d' % rng.randrange(len(VALS))]]]
        if rng.random() < 0.5:
            pre_hist.append(['adv', rng.choice([T, T + 1])])
        sa = rng.choice(['unk:1', 'unk:1', 'none', 'jar:0', 'old:0:0'])
        sb = sa if rng.random() < 0.6 else rng.choice(['unk:1', 'none', 'unk:2'])
        pre = rng.choice([[], ['r'], ['w.2.2'], ['r', 'g'], ['A.sd.1.3']])
        post = rng.choice([[], ['r'], ['w.3.3'], ['g'], ['g', 'w.1.1'], ['d'], ['r', 'H']])
        hb = rng.choice([[], ['r'], ['r', 'w.2.5'], ['g'], ['w.1.1', 'g', 'r'], ['d']])
        tail = [['req', 2, 'jar:1', ['r']], ['req', 3, 'jar:0', ['r']], ['sweep']]
        out.append({'backend': backend, 'timeout': T, 'idseed': i, 'ops':
                    pre_hist + [['par', 0, sa, pre, post, 1, sb, hb]] + tail, 'overlap': i})
    return out


def monitor_scenarios(rng, n):
    out = [[], [(0, 0)], [(0, 5)], [(0, 0), (0, 5), (0, 1)], [(1, 2), (0, 0), (1, 5), (2, 1), (0, 3), (2, 9)]]
    for _ in range(n):
        out.append([(rng.randrange(3), rng.choice([0, 0, 1, 5, 7])) for _ in range(rng.randint(1, 8))])
    return out


def sweep_overlap_cases(rng, n):
    """Targeted: the sweep runs while a request is inside its handler.  The request presents a session that
    is live, at its boundary tick, or expired but not yet swept, and then reads / writes / regenerates /
    deletes; other sessions (live and expired) surround it in the listing."""
    out = []
    for i in range(n):
        backend = ['file', 'file', 'ram'][i % 3]
        T = rng.choice([1, 2])
        hist = [['req', c, 'none', ['w.%d.%d' % (c + 1, rng.randrange(len(VALS)))]] for c in range(3)]
        hist.append(['adv', rng.choice([T - 1, T, T + 1, T + 1])])
        if rng.random() < 0.4:
            hist.append(['req', 2, 'jar:2', ['r']])          # one of the others is renewed
        who = rng.choice([0, 1, 1])
        spec = rng.choice(['jar:%d' % who, 'jar:%d' % who, 'jar:%d' % who, 'none', 'unk:1'])
        pre = rng.choice([[], [], ['r'], ['r1'], ['A.get.2'], ['g'], ['w.3.3']])
        post = rng.choice([['w.3.1'], ['w.2.2', 'r'], ['r'], [], ['A.sd.1.4'], ['g', 'w.1.1'], ['d'], ['c', 'w.3.3'],
                           ['w.1.1', 'H']])
        tail = [['req', 3, 'jar:%d' % who, ['r']], ['sweep'], ['req', 3, 'jar:%d' % who, ['r']]]
        out.append({'backend': backend, 'timeout': T, 'idseed': i, 'ops':
                    hist + [['swpar', who, spec, pre, post]] + tail, 'sweep_overlap': i})
    return out
