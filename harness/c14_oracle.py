"""C14 - the oracle: the property STATEMENT evaluated on what the real code did (independent of the model).

Reference `id -> {'alts': [dict, ...] acceptable contents, 'lo': t, 'hi': t}`: data must be returned while
now < lo, must not be returned once now > hi (at lo..hi either: "until its timeout elapses" does not say which
side the boundary tick is on, and a read-only request may or may not renew it).

Readings taken (the less demanding one each time): several session cookies in one header - any of the
presented ids that the store holds may be adopted, the issued id must differ from all of them; a handler that
raises may or may not have its writes kept; an overlap of two requests is judged as the two requests, the
inner one first.
"""
from .c14_run import HEX40, VALS

ANY = object()      # an observation the statement says nothing about


def _apply(a, f):
    """One handler statement on the candidate contents `a` (mutated in place).
    -> (observation or None, changed?)"""
    t = f[0]
    if t in ('r', 'r1', 'r2'):
        return dict(a), False
    if t == 'w':
        k, v = int(f[1]), int(f[2]) % len(VALS)
        a[k] = v
        return None, True                       # a write always counts: the data was (re)saved now
    if t == 'k':
        k = int(f[1])
        ch = k in a
        a.pop(k, None)
        return None, ch
    if t == 'c':
        ch = bool(a)
        a.clear()
        return None, ch
    if t == 'A':
        m = f[1]
        k = int(f[2])
        if m in ('get', 'gi'):
            return ({k: a[k]} if k in a else {}), False
        if m == 'in':
            return ({k: 1} if k in a else {}), False
        if m == 'sd':
            ch = k not in a
            if ch:
                a[k] = int(f[3]) % len(VALS)
            return {k: a[k]}, ch
        if m == 'up':
            for i in range(2, len(f), 2):
                a[int(f[i])] = int(f[i + 1]) % len(VALS)
            return {}, True
        if m == 'pop':
            if k in a:
                return {k: a.pop(k)}, True
            return ANY, False       # what pop(k) does for an absent key is not session data
        if m == 'del':
            if k in a:
                del a[k]
                return {k: 1}, True
            return {}, False
    return None, False


def oracle(case, events, T):
    """Returns [(what, signature)]."""
    bad = []
    ref = {}
    torn = {}
    unjudged = set()

    def request(n, ev, exclude=()):
        now = ev['now']
        pres, sid, st = ev['presented'], ev['sid'], ev['status']
        before = ev['before']
        c = ev['cookie']
        garbage_other = any(torn.get(p) == 'oth' and p in before for p in pres)
        if ev.get('diverged'):
            bad.append(('op %d: the request kept drawing ids (regeneration loop does not end)' % n,
                        'regenerate_loop_diverged'))
            return
        if st.startswith('EXC'):
            bad.append(('op %d: the application raised %s: %s' % (n, st, ev['err'][-200:]), 'request_raised'))
            return
        if st == '500' and not ev.get('raised'):
            sig = 'F14d:garbage_file_other_exception_class' if garbage_other else \
                ('torn_file_error' if any(p in torn for p in pres) else 'request_500')
            bad.append(('op %d: request answered 500: %s' % (n, ev['err'][-300:]), sig))
            return
        if st == '400':
            if not ev['escapes']:
                bad.append(('op %d: request answered 400 for cookie %r' % (n, pres), 'request_400'))
            elif ev['after'] != before or sid is not None:
                bad.append(('op %d: rejected request changed the store / set a cookie' % n, 'rejected_changed'))
            return
        if st not in ('ok', '500'):
            bad.append(('op %d: status %s' % (n, st), 'status'))
            return
        # (1) no fixation / fresh ids
        if sid is None:
            bad.append(('op %d: no session cookie in the response' % n, 'no_cookie'))
            return
        if sid in pres:
            if sid not in before:
                bad.append(('op %d: presented id %r adopted although the store holds nothing for it'
                            % (n, sid), 'fixation'))
        else:
            if not HEX40.match(sid):
                bad.append(('op %d: issued id %r is not 40 hex digits' % (n, sid), 'id_shape'))
            if sid in before:
                bad.append(('op %d: issued id %r equals a live id' % (n, sid), 'fresh_id_is_live'))
        # (2) contents seen by the handler
        regen = any(h in ('g', 'G') for h in ev['hops'])
        cands = [p for p in dict.fromkeys(pres) if p in ref or p in before]
        ambiguous = False
        distinct = list(dict.fromkeys(pres))
        if len(distinct) > 1:
            # several different ids presented: whichever of them the code went by is fine
            if sid in cands:
                c = sid
            elif sid in pres:
                c = None                       # (reported above as fixation)
            elif not regen and len(cands) < len(distinct):
                c = None                       # it went by one the store does not hold: a fresh session
            elif cands:
                ambiguous = True
            else:
                c = None
        elif cands:
            c = cands[0]
        else:
            c = None
        if ambiguous or (set(pres) | {sid}) & unjudged:
            # which stored session this request worked on cannot be told from outside: its contents are
            # not judged from here on (adoption and freshness of ids still are)
            unjudged.update(cands)
            unjudged.update(pres)
            unjudged.add(sid)
            return
        if c is not None and c in ref:
            start_id = c
        elif c is not None and c in before and (sid == c or regen):
            start_id = c
        else:
            start_id = None
        if start_id is not None and start_id in ref:
            e = ref[start_id]
            if now < e['lo']:
                alts = [(dict(a), False) for a in e['alts']]
            elif now > e['hi']:
                alts = [({}, False)]
            else:
                alts = [(dict(a), False) for a in e['alts']] + [({}, False)]
        else:
            alts = [({}, False)]
        old_entry = ref.get(start_id) if start_id is not None else None
        cur = start_id
        changed = accessed = False
        ri = 0
        failed_here = False
        raised = False
        for h in ev['hops']:
            f = h.split('.')
            t = f[0]
            if t in ('r', 'r1', 'r2', 'w', 'k', 'c', 'A'):
                new_alts = []
                any_obs = False
                ch_any = False
                for a, tainted in alts:
                    a2 = dict(a)
                    obs, ch = _apply(a2, f)
                    ch_any = ch_any or ch
                    if obs is not None:
                        any_obs = True
                    new_alts.append((a2, tainted, obs))
                accessed = True
                if any_obs:
                    if ri >= len(ev['reads']):
                        break
                    seen = ev['reads'][ri]
                    ri += 1
                    match = [(a2, tn) for a2, tn, obs in new_alts if obs is ANY or obs == seen]
                    if not match:
                        exp = [obs for _, _, obs in new_alts if obs is not ANY]
                        what = 'op %d: handler statement %s observed %r, the statement allows %r (t=%d)' % (
                            n, h, seen, exp, now)
                        if start_id in torn:
                            sig = 'torn_file_data'
                        elif not seen and any(o for o in exp):
                            sig = 'live_data_lost'
                        else:
                            sig = 'dead_data_returned'
                        bad.append((what, sig))
                        failed_here = True
                        break
                    clean = [m for m in match if not m[1]]
                    alts = clean if clean else match
                else:
                    alts = [(a2, tn) for a2, tn, _ in new_alts]
                if t == 'w' or ch_any:
                    changed = True
            elif t in ('g', 'G'):
                if cur is not None:
                    ref.pop(cur, None)
                    torn.pop(cur, None)
                cur = None
                if not any(not a for a, tn in alts):
                    alts = alts + [({}, False)]
            elif t == 'd':
                if cur is not None:
                    ref.pop(cur, None)
                    torn.pop(cur, None)
                elif not regen:
                    ref.pop(sid, None)
                alts = [({}, False)] + [(a, True) for a, tn in alts if a]
                changed = False
            elif t == 'E':
                raised = True
                break
        if failed_here:
            ref.pop(sid, None)
            return
        ded = []
        for a, tn in alts:
            if not any(a == b and tn == u for b, u in ded):
                ded.append((a, tn))
        clean = [a for a, tn in ded if not tn]
        continuing = start_id is not None and sid == start_id and sid in ref
        if raised:
            # the save hook did not run: what is stored is what was stored, or (RAM: the cached dict is the
            # request's dict) what the handler had made of it; the expiry may or may not have moved
            if continuing:
                e = ref[sid]
                for a in clean:
                    if a not in e['alts']:
                        e['alts'].append(a)
                e['hi'] = max(e['hi'], now + T)
            else:
                ref.pop(sid, None)
        elif changed:
            ref[sid] = {'alts': clean or [{}], 'lo': now + T, 'hi': now + T}
            torn.pop(sid, None)
        elif accessed and continuing:
            ref[sid]['alts'] = clean or [{}]
            ref[sid]['hi'] = max(ref[sid]['hi'], now + T)
        elif accessed:
            ref[sid] = {'alts': clean + ([{}] if {} not in clean else []), 'lo': now + T, 'hi': now + T}
            torn.pop(sid, None)
        del old_entry
        for other in ref:
            if other != sid and other not in pres and other not in exclude \
                    and other in before and other not in ev['after']:
                bad.append(('op %d: request removed the stored session of another id' % n, 'foreign_removed'))

    for n, ev in enumerate(events):
        now = ev['now']
        if ev['op'] == 'hang':
            bad.append(('the code under test did not come back: %s' % ev.get('what', ''), 'hang'))
            break
        if ev['op'] == 'adv':
            continue
        if ev['op'] == 'tear':
            if ev['sid'] is not None:
                ref.pop(ev['sid'], None)
                torn[ev['sid']] = ev['cls']
            continue
        if ev['op'] == 'swpar':
            # a sweep next to a request: the request as it stands, then the sweep - a session the request
            # saved a moment ago is live, so the sweep must not have taken it
            request(n, ev['A'])
            ev = ev['S']
        if ev['op'] == 'sweep':
            other = sorted(c for s, c in torn.items() if c == 'oth' and s in ev['before'])
            if ev['out'] != 'done':
                sig = 'F14d:garbage_file_other_exception_class' if other else 'sweep_raised:' + ev['exc']
                bad.append(('op %d: the sweep was stopped by %s' % (n, ev['exc']), sig))
                continue
            if not ev['ran']:
                continue
            for sid, e in ref.items():
                nonempty = all(a for a in e['alts'])
                if sid in unjudged:
                    continue
                if now < e['lo'] and nonempty and sid in ev['before'] and sid not in ev['after']:
                    bad.append(('op %d: sweep at t=%d removed live session (expires %d)' % (n, now, e['lo']),
                                'sweep_removed_live'))
            for sid in ev['after']:
                if sid in ref and sid not in unjudged and now > ref[sid]['hi']:
                    bad.append(('op %d: sweep at t=%d left expired session (expired at %d)'
                                % (n, now, ref[sid]['hi']), 'sweep_left_expired'))
            for sid in list(ref):
                if sid not in ev['after'] and now >= ref[sid]['lo']:
                    del ref[sid]
            for sid in ev['after']:
                if sid not in ev['before']:
                    bad.append(('op %d: sweep created an entry' % n, 'sweep_created'))
            continue
        if ev['op'] == 'par':
            a, b = ev['A'], ev['B']
            if ev.get('blocked'):
                bad.append(('op %d: a request presenting an id the store does not hold waited for another '
                            'request\'s session' % n, 'overlap_blocked'))
            ida = {a['sid']} | set(a['presented'])
            idb = {b['sid']} | set(b['presented'])
            request(n, b, exclude=ida)
            request(n, a, exclude=idb)
            if a['sid'] is not None and a['sid'] == b['sid'] and a['status'] in ('ok', '500') \
                    and b['status'] in ('ok', '500') and a['sid'] not in a['before']:
                bad.append(('op %d: two overlapping requests were both issued the id %r' % (n, a['sid']),
                            'overlap_same_id'))
            continue
        request(n, ev)
    return bad
