"""Deterministic scheduler for REAL threads running the REAL session code (property C13).

Nothing in /repo is edited.  The code under test looks up its synchronisation primitives and its
shared tables through names the harness can rebind:

  * `cherrypy.lib.sessions.threading`  -> `Shim` whose `RLock()` returns an `InstrRLock`
  * `RamSession.cache`, `RamSession.locks` -> `InstrDict` (a `dict` subclass)

Every operation on one of these shared objects performed by a *managed* thread first hands the
baton back to the controller (`Sched.yield_point`).  A managed thread therefore runs only between
two consecutive shared operations, and only when the controller says so: a *step* of thread `t`
executes exactly one shared operation of `t` (the one it was parked in front of) plus the
thread-local code up to — not including — its next shared operation.  Because everything between
two shared operations is thread-local, this granularity is as fine as opcode granularity for the
state the property talks about (each single dict / lock operation is atomic under the GIL).

A schedule is a list of thread names.  Scheduling a thread whose pending operation is a blocking
`acquire` of a lock owned by another thread is a *stutter* (nothing runs), exactly like the
disabled step of the Lean model; a state in which unfinished threads exist and none is enabled is
reported as a deadlock.  No sleeps, no timing: hand-over uses semaphores, every wait has a large
timeout that raises `HarnessError` (never a violation).
"""
from __future__ import annotations

import threading as _threading

from . import common

HANDOVER_TIMEOUT = 20.0


class Deadlock(Exception):
    pass


class _TState:
    __slots__ = ('name', 'thread', 'go', 'status', 'pending', 'exc', 'result', 'fn', 'steps')

    def __init__(self, name, fn):
        self.name = name
        self.fn = fn
        self.go = _threading.Semaphore(0)
        self.status = 'new'       # new | parked | done
        self.pending = None       # the shared operation the thread is parked in front of
        self.exc = None
        self.result = None
        self.thread = None
        self.steps = 0


class Sched:
    """Baton-passing controller.  Create, `spawn` threads, then `step(name)` repeatedly."""

    def __init__(self, interesting=None):
        self.threads = {}
        self.by_ident = {}
        self.back = _threading.Semaphore(0)
        self.interesting = interesting or (lambda op: True)
        self.trace = []           # (thread, op) in execution order
        self.closed = False

    # ---- called by the controller ----------------------------------------------------------
    def spawn(self, name, fn):
        st = _TState(name, fn)
        self.threads[name] = st

        def body():
            self.by_ident[_threading.get_ident()] = st
            self._park(st, ('start',))
            try:
                st.result = fn()
            except BaseException as e:     # noqa: the harness reports it, never swallows it
                st.exc = e
            st.status = 'done'
            st.pending = None
            self.by_ident.pop(_threading.get_ident(), None)
            self.back.release()

        th = _threading.Thread(target=body, name='c13-' + name, daemon=True)
        st.thread = th
        th.start()
        if not self.back.acquire(timeout=HANDOVER_TIMEOUT):
            raise common.HarnessError('thread %s did not reach its first yield point' % name)
        return st

    def pending(self, name):
        return self.threads[name].pending

    def done(self, name):
        return self.threads[name].status == 'done'

    def enabled(self, name):
        st = self.threads[name]
        if st.status == 'done':
            return False
        op = st.pending
        if op and op[0] == 'lock.acquire' and op[3]:          # blocking acquire
            lock = op[1]
            return lock.owner is None or lock.owner == name
        return True

    def step(self, name, force=False):
        """Run thread `name` for one step.  Returns the operation executed, or None for a stutter
        (thread finished, or blocked on a lock held by somebody else).  `force` runs a blocked acquire
        anyway (only meaningful for lock shims that then fail with a timeout)."""
        st = self.threads[name]
        if st.status == 'done' or (not force and not self.enabled(name)):
            return None
        op = st.pending
        st.steps += 1
        self.trace.append((name, _op_label(op)))
        st.go.release()
        if not self.back.acquire(timeout=HANDOVER_TIMEOUT):
            raise common.HarnessError('thread %s did not come back after op %r (real blocking call '
                                      'outside the instrumented primitives?)' % (name, _op_label(op)))
        return op

    def all_done(self):
        return all(t.status == 'done' for t in self.threads.values())

    def deadlocked(self):
        return (not self.all_done()) and not any(self.enabled(n) for n in self.threads)

    def run_to_end(self, order=None, limit=2000):
        """Finish every thread (round robin over enabled ones)."""
        names = list(order or self.threads)
        n = 0
        while not self.all_done():
            if self.deadlocked():
                raise Deadlock([(k, _op_label(t.pending)) for k, t in self.threads.items()
                                if t.status != 'done'])
            for nm in names:
                if self.enabled(nm):
                    self.step(nm)
                    n += 1
            if n > limit:
                raise common.HarnessError('threads did not finish within %d steps' % limit)

    def close(self):
        """Abandon unfinished threads (they are daemons parked on a semaphore; wake them with a
        poison pill so they unwind)."""
        self.closed = True
        for st in self.threads.values():
            if st.status != 'done':
                st.go.release()
        for st in self.threads.values():
            if st.thread is not None:
                st.thread.join(timeout=2.0)

    # ---- called by managed threads -----------------------------------------------------------
    def current(self):
        return self.by_ident.get(_threading.get_ident())

    def _park(self, st, op):
        st.pending = op
        st.status = 'parked'
        self.back.release()
        if not st.go.acquire(timeout=HANDOVER_TIMEOUT * 30):
            raise _Abandoned()
        if self.closed:
            raise _Abandoned()

    def yield_point(self, op):
        st = self.current()
        if st is None or not self.interesting(op):
            return None
        self._park(st, op)
        return st


class _Abandoned(BaseException):
    """Raised inside a managed thread when the controller closed the run."""


def _op_label(op):
    if op is None:
        return None
    if op[0].startswith('lock.'):
        return (op[0], op[1].lid) + tuple(op[2:])
    return tuple(op)


# ------------------------------------------------------------------------------------------------
# instrumented primitives
# ------------------------------------------------------------------------------------------------
class InstrRLock:
    """Re-entrant lock with the semantics of `threading.RLock`, observable and schedulable.

    `owner` is the managed thread's name (or `('os', ident)` for an unmanaged thread)."""

    _counter = [0]

    def __init__(self, sched, key_hint=None):
        self.sched = sched
        InstrRLock._counter[0] += 1
        self.lid = InstrRLock._counter[0]
        self.owner = None
        self.count = 0
        self.key_hint = key_hint

    def _me(self):
        st = self.sched.current()
        return st.name if st is not None else ('os', _threading.get_ident())

    def acquire(self, blocking=True, timeout=-1):
        self.sched.yield_point(('lock.acquire', self, None, bool(blocking)))
        me = self._me()
        if self.owner is None or self.owner == me:
            self.owner = me
            self.count += 1
            return True
        if not blocking:
            return False
        # the controller only schedules a blocking acquire when it can succeed
        raise common.HarnessError('blocking acquire of lock %d scheduled while owned by %r'
                                  % (self.lid, self.owner))

    def release(self):
        self.sched.yield_point(('lock.release', self, None))
        me = self._me()
        if self.owner != me:
            raise RuntimeError('cannot release un-acquired lock')
        self.count -= 1
        if self.count == 0:
            self.owner = None

    __enter__ = acquire

    def __exit__(self, *a):
        self.release()

    def __repr__(self):
        return '<InstrRLock %d owner=%r count=%d>' % (self.lid, self.owner, self.count)


class Shim:
    """Stand-in for the `threading` module as seen by cherrypy.lib.sessions."""

    def __init__(self, sched, real=_threading):
        self._sched = sched
        self._real = real

    def RLock(self):
        return InstrRLock(self._sched)

    def __getattr__(self, name):
        return getattr(self._real, name)


class InstrDict(dict):
    """`dict` whose operations are yield points for managed threads."""

    def __init__(self, sched, name, *a, **k):
        dict.__init__(self, *a, **k)
        self._sched = sched
        self._name = name

    def _y(self, op, key=None):
        self._sched.yield_point((self._name + '.' + op, key))

    def setdefault(self, key, default=None):
        self._y('setdefault', key)
        return dict.setdefault(self, key, default)

    def pop(self, key, *default):
        self._y('pop', key)
        return dict.pop(self, key, *default)

    def get(self, key, default=None):
        self._y('get', key)
        return dict.get(self, key, default)

    def copy(self):
        self._y('copy')
        return dict(dict.items(self))      # dict.copy() of a subclass would re-enter __getitem__

    def __getitem__(self, key):
        self._y('getitem', key)
        return dict.__getitem__(self, key)

    def __setitem__(self, key, value):
        self._y('setitem', key)
        return dict.__setitem__(self, key, value)

    def __delitem__(self, key):
        self._y('delitem', key)
        return dict.__delitem__(self, key)

    def __contains__(self, key):
        self._y('contains', key)
        return dict.__contains__(self, key)

    def __iter__(self):
        self._y('iter')
        return dict.__iter__(self)

    # whole-table reads / writes a rewritten caller may use instead of the ones above
    def keys(self):
        self._y('iter')
        return dict(dict.items(self)).keys()

    def items(self):
        self._y('iter')
        return dict(dict.items(self)).items()

    def values(self):
        self._y('iter')
        return dict(dict.items(self)).values()

    # `__len__` is deliberately not a yield point: `list(d)` asks for it as a length hint right after
    # `__iter__`, and a plain dict answers both atomically.

    def update(self, *a, **k):
        new = dict(*a, **k)
        for key, value in new.items():          # one shared write per key
            self[key] = value

    def popitem(self):
        self._y('popitem')
        return dict.popitem(self)

    def clear(self):
        self._y('clear')
        return dict.clear(self)

    def raw(self):
        return dict(dict.items(self))
