"""C08 histories: the effective config of EVERY request against long-lived applications.

One *history case* is a tree spec (C02's generator plus `_cp_config` on classes / handlers, tool decorators and
`tools.<t>.handler(**kw)` page handlers), one or two applications mounted side by side on the SAME root
object (so classes, handlers, decorators and handler-tool kwargs are shared), and a list of steps:

    ['req', app, path, method]          one request through the WSGI entry point of that application
    ['merge', app, sections, form]      app.merge(dict | INI file object | INI file name)
    ['merge_flat', app, conf]           app.merge of a dict without section headers: refused (ValueError), no effect
    ['remount', app]                    a new Application on the same root from the app's original config
                                        (dict values / INI text evaluated again *now*)
    ['gupdate', conf, form]             cherrypy.config.update(dict | {'global': dict} | INI [global] | file name)
    ['gset', key, text]                 cherrypy.config[key] = value
    ['rebind', attr, text]              c08_settings.<attr> = value   (the module dotted-name values refer to)
    ['mutate', target, sub, n]          in-place change of a list/dict config value obtained from one place
                                        (a section of one app, cherrypy.config, a class/handler `_cp_config`,
                                        handler-tool kwargs, or `request.config` of the last request)

Every config value in a history is kept as *source text* (a Python expression); the dict form evaluates it
with Python's `eval` (a fresh object per entry), the INI form writes the same text into the file.

Reference (`Ref`): the statement's world - the global entries, per application the sections, per class /
handler the `_cp_config` entries, per handler-tool page handler its kwargs; every entry owns its value
(fresh per parse); requests never change the world.  For every request the oracle evaluates the statement
on (world at that moment, path) ALONE; the model line is produced from the same moment.
"""
import copy
import io
import json
import os
import shutil
import sys
import tempfile
import types

from . import common
from . import c02
from . import c02_tree as T

SETTINGS_MOD = 'c08_settings'
SETTINGS_INIT = {'A': "'sa0'", 'B': '10'}
PLAIN_KEYS = ['k1', 'k2', 'ns.k3', 'Ns.K4']
TOOLS = ['p1', 'p2', 'h1']
HANDLER_TOOLS = ['h1']
TOOL_ARGS = ['on', 'x', 'y', 'priority', 'z.w']
GEN_KEYS = PLAIN_KEYS + ['tools.%s.%s' % (t, a) for t in TOOLS for a in TOOL_ARGS] + ['tools.h1.serve']
ON_TEXTS = ['True', 'True', 'True', 'False', '0', '1', "''", "'yes'", 'None']
COMPOUND = ["['v']", "{'d': 1}", "['v', ['n']]", "{'d': ['n']}", '[1, 2]']
DOTTED = [SETTINGS_MOD + '.A', SETTINGS_MOD + '.B', '[%s.A]' % SETTINGS_MOD, 'dict(a=%s.B)' % SETTINGS_MOD,
          "{'s': %s.A}" % SETTINGS_MOD]
MOUNTS = ['/m1', '/m2']

# custom toolboxes (`Toolbox('c8')`, `Toolbox('c9')`, registered in app.toolboxes) and their tools, made in every way:
#   id, attribute name, toolboxes it is attached to IN THIS ORDER (the last one is the tool's own namespace), how it is made
CUSTOM_TOOLS = [
    ('q1', 'q1', ['c8'], 'unnamed'),            # Tool(point, callable): named by the attribute
    ('q2', 'q2', ['c8'], 'named'),              # Tool(point, callable, name='q2')
    ('c8p1', 'p1', ['c8'], 'named'),            # explicitly named like a tool of the default toolbox
    ('q3', 'q3', ['c8', 'c9'], 'unnamed'),      # one Tool object attached to two toolboxes
    ('c9p2', 'p2', ['c9'], 'unnamed'),          # named by the attribute, like a tool of the default toolbox
]
BOX_NAMES = ['c8', 'c9']
BOXES = {}
CUSTOM_KEYS = ['%s.%s.%s' % (ns, attr, a) for _id, attr, nss, _how in CUSTOM_TOOLS for ns in nss for a in ('on', 'x', 'y', 'priority')]
GEN_KEYS = GEN_KEYS + CUSTOM_KEYS

TOOL_JOURNAL = []
_TOOLS_READY = [False]


def canon(v):
    """Scalars as they are; anything else (lists, dicts, ...) as a marked repr: the merge never looks inside."""
    if v is None or isinstance(v, (bool, int, str)):
        return v
    return '\x01' + repr(v)


def canon_conf(c):
    return {k: canon(v) for k, v in c.items()}


def ensure_tools():
    cherrypy = T.cp()
    if _TOOLS_READY[0]:
        return
    for name in TOOLS:
        def mk(name):
            def probe_tool(**kw):
                TOOL_JOURNAL.append((name, canon_conf(kw), kw))
                # (`page` marks the call a tools.<t>.handler(**kw) page handler makes; `serve`: answer the request)
                if name in HANDLER_TOOLS and kw.get('serve'):
                    cherrypy.serving.response.body = [('th ' + name).encode()]
                    return True
                return False
            probe_tool.__name__ = 'probe_' + name
            return probe_tool
        if name in HANDLER_TOOLS:
            setattr(cherrypy.tools, name, cherrypy._cptools.HandlerTool(mk(name)))
        else:
            setattr(cherrypy.tools, name, cherrypy.Tool('on_start_resource', mk(name)))
    for ns in BOX_NAMES:
        BOXES[ns] = cherrypy._cptools.Toolbox(ns)
    for tid, attr, nss, how in CUSTOM_TOOLS:
        def mkc(tid):
            def probe_custom(**kw):
                TOOL_JOURNAL.append((tid, canon_conf(kw), kw))
            probe_custom.__name__ = 'probe_' + tid
            return probe_custom
        tool = cherrypy.Tool('on_start_resource', mkc(tid), name=attr) if how == 'named' else \
            cherrypy.Tool('on_start_resource', mkc(tid))
        for ns in nss:
            setattr(BOXES[ns], attr, tool)
    _TOOLS_READY[0] = True


# ----------------------------------------------------------------------------------------------
# generator
# ----------------------------------------------------------------------------------------------
def gen_text(rng, prov, scalars=False):
    r = rng.random()
    if r < 0.55 or (scalars and r < 0.9):
        return repr(prov)
    if scalars:
        return rng.choice([SETTINGS_MOD + '.A', SETTINGS_MOD + '.B', '0', '7'])
    if r < 0.82:
        return rng.choice(COMPOUND)
    if r < 0.94:
        return rng.choice(DOTTED)
    return rng.choice(['0', '7', '-3'])


def gen_conf_h(rng, prov, p=0.3, scalars=False):
    c = {}
    if scalars:
        for k, v in gen_conf_h(rng, prov, p).items():
            c[k] = v if not containers_in(eval(v, {'__builtins__': {}, 'dict': dict, SETTINGS_MOD: types.SimpleNamespace(A=0, B=0)})) \
                else gen_text(rng, prov, True)
        return c
    for k in PLAIN_KEYS:
        if rng.random() < p:
            c[k] = gen_text(rng, prov)
    for t in TOOLS:
        if rng.random() < p * 0.6:
            c['tools.%s.on' % t] = rng.choice(ON_TEXTS)
        for a in ('x', 'y'):
            if rng.random() < p * 0.4:
                c['tools.%s.%s' % (t, a)] = gen_text(rng, prov)
        if rng.random() < p * 0.12:
            c['tools.%s.priority' % t] = rng.choice(['10', '50', '90'])
        if rng.random() < p * 0.1:
            c['tools.%s.z.w' % t] = gen_text(rng, prov)
    if rng.random() < p * 0.06:
        c['tools.h1.serve'] = rng.choice(['1', '0', 'True'])       # the tool answers the request itself when it is on
    for _id, attr, nss, _how in CUSTOM_TOOLS:
        for ns in nss:
            if rng.random() < p * 0.3:
                c['%s.%s.on' % (ns, attr)] = rng.choice(ON_TEXTS)
            for a in ('x', 'y'):
                if rng.random() < p * 0.22:
                    c['%s.%s.%s' % (ns, attr, a)] = gen_text(rng, prov)
            if rng.random() < p * 0.05:
                c['%s.%s.priority' % (ns, attr)] = rng.choice(['10', '90'])
    return c


def _routes(spec):
    """node index -> list of attribute names leading to it from the root (first found)."""
    routes = {0: []}
    todo = [0]
    while todo:
        i = todo.pop(0)
        for name, j in spec['nodes'][i].get('kids', []):
            if j not in routes:
                routes[j] = routes[i] + [name]
                todo.append(j)
    return routes


def gen_hpath(rng, spec):
    ths = [(i, th[0]) for i, nd in enumerate(spec['nodes']) for th in nd.get('th', [])]
    if ths and rng.random() < 0.45:
        routes = _routes(spec)
        cand = [(i, n) for i, n in ths if i in routes]
        if cand:
            i, n = rng.choice(cand)
            segs = routes[i] + [n] + [rng.choice(['v1', 'v2', 'a']) for _ in range(rng.choice([0, 0, 1, 1, 2]))]
            return '/' + '/'.join(segs) + ('/' if rng.random() < 0.1 else '')
    return c02.gen_path(rng, spec)


def gen_sections(rng, names, p=0.4, keep=0.5, scalars=False):
    secnames = [n for n in names if rng.random() < keep]
    for n in names:
        r = rng.random()
        if r < 0.08 and n != '/':
            secnames.append(n + 'x')
        elif r < 0.12 and n != '/':
            secnames.append(n + '/')
        elif r < 0.16:
            secnames.append((n if n != '/' else '') + '/index')
        elif r < 0.19:
            secnames.append(n.lstrip('/') or 'rel')
    secnames = [s for s in dict.fromkeys(secnames) if s and '[' not in s and ']' not in s and '\n' not in s]
    return {s: gen_conf_h(rng, 'S:' + s, p=p, scalars=scalars) for s in secnames}


def containers_in(v, path=()):
    """Paths to the mutable containers inside a value (the value itself first)."""
    out = []
    if isinstance(v, list):
        out.append(list(path))
        for i, x in enumerate(v):
            out += containers_in(x, path + (i,))
    elif isinstance(v, dict):
        out.append(list(path))
        for k, x in v.items():
            out += containers_in(x, path + (k,))
    return out


def gen_hist_case(rng, i):
    kind = 'M' if i % 9 == 8 else 'D'
    with_disp = (i % 9 in (4, 6))
    spec = c02.gen_tree(rng, kind, with_disp, maxdepth=3)
    nodes = spec['nodes']
    for n, nd in enumerate(nodes):
        if rng.random() < 0.4:
            nd['conf'] = gen_conf_h(rng, 'C:%d' % n)
        used = {x[0] for x in nd['meth']} | {x[0] for x in nd['vals']} | {x[0] for x in nd['kids']}
        for name, m in nd['meth']:
            if rng.random() < (0.45 if name in ('index', 'default') else 0.3):
                m['conf'] = gen_conf_h(rng, 'H:%d.%s' % (n, name))
            if rng.random() < 0.1:
                prov = 'T:%d.%s' % (n, name)
                m['tooldeco'] = [rng.choice(['p1', 'p2']),
                                 rng.choice([{}, {'x': gen_text(rng, prov)}, {'y': gen_text(rng, prov), 'priority': '30'}])]
        if kind == 'D' and rng.random() < (0.5 if n == 0 else 0.25):
            name = rng.choice(['th', 'svc'])
            if name not in used:
                prov = 'K:%d.%s' % (n, name)
                kw = {'page': '1'}
                if rng.random() < 0.85:
                    kw['serve'] = '1'
                for a in ('x', 'y'):
                    if rng.random() < 0.6:
                        kw[a] = gen_text(rng, prov)
                th = [name, 'h1', kw, None]
                r = rng.random()
                if r < 0.2:
                    th[3] = ['config', gen_conf_h(rng, 'D:%d.%s' % (n, name))]
                elif r < 0.3:
                    th[3] = ['tool', 'p1', {'x': gen_text(rng, prov)}]
                nd.setdefault('th', []).append(th)
    paths = [gen_hpath(rng, spec) for _ in range(5)]
    names = ['/']
    for p in paths:
        segs = [s for s in p.split('/') if s]
        for j in range(1, len(segs) + 1):
            names.append('/' + '/'.join(segs[:j]))
    names = list(dict.fromkeys(names))
    forms = ['dict', 'dict', 'dict', 'ini', 'ini', 'file']
    two = rng.random() < 0.6
    same = two and rng.random() < 0.4
    form0 = rng.choice(forms)
    # both applications built from one and the same dict object: its values are immutable then (sharing those is harmless)
    apps = [{'conf': gen_sections(rng, names, scalars=same and form0 == 'dict'), 'form': form0}]
    if two:
        if same:
            apps.append({'conf': 'same', 'form': apps[0]['form']})
        else:
            apps.append({'conf': gen_sections(rng, names), 'form': rng.choice(forms)})
    hist = {'tree': spec, 'kind': kind, 'apps': apps, 'steps': []}
    steps = hist['steps']
    if rng.random() < 0.6:
        steps.append(['gupdate', gen_conf_h(rng, 'G', p=0.35), rng.choice(['dict', 'gdict', 'ini', 'file'])])
    ref = Ref(hist)
    for st in steps:
        ref.apply(st)
    verbs = c02.REQ_METHODS if kind == 'M' else ['GET']
    n_steps = rng.randint(6, 14)
    gen_no = [0]

    def a_req():
        return ['req', rng.randrange(len(apps)), rng.choice(paths), rng.choice(verbs)]
    for _ in range(n_steps):
        r = rng.random()
        st = None
        if r < 0.58:
            st = a_req()
        elif r < 0.68:
            gen_no[0] += 1
            secs = gen_sections(rng, names, p=0.35, keep=0.25)
            secs = {n: c for n, c in secs.items() if c}
            if secs:
                st = ['merge', rng.randrange(len(apps)), secs, rng.choice(forms)]
        elif r < 0.695:
            flat = {k: t for k, t in gen_conf_h(rng, 'F', p=0.4).items() if not t.startswith(('{', 'dict('))}
            st = ['merge_flat', rng.randrange(len(apps)), flat or {'k1': "'F'"}]
        elif r < 0.75:
            st = ['gupdate', gen_conf_h(rng, 'G', p=0.25), rng.choice(['dict', 'gdict', 'ini', 'file'])]
            if not st[1]:
                st = None
        elif r < 0.78:
            st = ['gset', rng.choice(PLAIN_KEYS + ['tools.p1.x', 'tools.h1.y']), gen_text(rng, 'G')]
        elif r < 0.83:
            st = ['rebind', rng.choice(['A', 'B']), rng.choice(["'sa1'", "'sa2'", '20', '30', "'sb'"])]
        elif r < 0.89:
            st = ['remount', rng.randrange(len(apps))]
        else:
            targets = ref.mutable_entries()
            if targets and rng.random() < 0.75:
                tgt, subs = rng.choice(targets)
                gen_no[0] += 1
                st = ['mutate', tgt, rng.choice(subs), gen_no[0]]
            else:
                gen_no[0] += 1
                st = ['mutate', ['lastreq', rng.randrange(8)], rng.randrange(4), gen_no[0]]
        if st is None:
            st = a_req()
        steps.append(st)
        ref.apply(st)
        if st[0] != 'req' and rng.random() < 0.8:
            # look at the effect right away, from both applications
            for _ in range(rng.choice([1, 2])):
                q = a_req()
                steps.append(q)
    if kind == 'M':
        # (a tool answering the request itself hides which verb method the method dispatcher had picked)
        _strip_key(hist, 'tools.h1.serve')
    return {'hist': hist}


def _strip_key(x, key):
    if isinstance(x, dict):
        x.pop(key, None)
        for v in x.values():
            _strip_key(v, key)
    elif isinstance(x, list):
        for v in x:
            _strip_key(v, key)


# ----------------------------------------------------------------------------------------------
# the reference world (written from the statement; no CherryPy code involved)
# ----------------------------------------------------------------------------------------------
class Ref:
    def __init__(self, hist):
        self.hist = hist
        self.settings = {}
        for k, t in SETTINGS_INIT.items():
            self.settings[k] = eval(t, {'__builtins__': {}})
        self.glob = {}
        self.cls = {}
        self.meth = {}
        self.thkw = {}
        self.thconf = {}
        for n, nd in enumerate(hist['tree']['nodes']):
            if nd.get('conf') is not None:
                self.cls[n] = self.ev_conf(nd['conf'])
            for name, m in nd.get('meth', []):
                c = None
                if m.get('conf') is not None:
                    c = self.ev_conf(m['conf'])
                if m.get('tooldeco') is not None:
                    c = dict(c or {})
                    self._tooldeco(c, m['tooldeco'][0], m['tooldeco'][1])
                if c is not None:
                    self.meth[(n, name)] = c
            for name, tool, kw, deco in nd.get('th', []):
                self.thkw[(n, name)] = (tool, self.ev_conf(kw))
                if deco is not None:
                    c = {}
                    if deco[0] == 'config':
                        c.update(self.ev_conf(deco[1]))
                    else:
                        self._tooldeco(c, deco[1], deco[2])
                    self.thconf[(n, name)] = c
        self.apps = [None] * len(hist['apps'])
        for a in range(len(hist['apps'])):
            self.remount(a)

    def _tooldeco(self, c, tool, kw):
        c['tools.%s.on' % tool] = True
        for k, t in kw.items():
            c['tools.%s.%s' % (tool, k)] = self.ev(t)

    def ev(self, text):
        return eval(text, {'__builtins__': {}, 'dict': dict, SETTINGS_MOD: types.SimpleNamespace(**self.settings)})

    def ev_conf(self, conf):
        return {k: self.ev(t) for k, t in conf.items()}

    def app_conf(self, a):
        c = self.hist['apps'][a]['conf']
        return self.hist['apps'][0]['conf'] if c == 'same' else c

    def remount(self, a):
        self.apps[a] = {}
        self.merge(a, self.app_conf(a))

    def merge(self, a, sections):
        for name, conf in sections.items():
            self.apps[a].setdefault(name, {}).update(self.ev_conf(conf))

    def entry(self, tgt):
        """(container dict, key) of an entry handle."""
        kind = tgt[0]
        if kind == 'sec':
            return self.apps[tgt[1]].get(tgt[2], {}), tgt[3]
        if kind == 'glob':
            return self.glob, tgt[1]
        if kind == 'cls':
            return self.cls.get(tgt[1], {}), tgt[2]
        if kind == 'meth':
            return self.meth.get((tgt[1], tgt[2]), {}), tgt[3]
        if kind == 'thkw':
            return self.thkw.get((tgt[1], tgt[2]), (None, {}))[1], tgt[3]
        if kind == 'thconf':
            return self.thconf.get((tgt[1], tgt[2]), {}), tgt[3]
        raise common.HarnessError('unknown entry handle %r' % (tgt,))

    def all_entries(self):
        out = []
        for a, secs in enumerate(self.apps):
            for name, conf in secs.items():
                out += [(['sec', a, name, k], conf[k]) for k in conf]
        out += [(['glob', k], v) for k, v in self.glob.items()]
        for n, conf in self.cls.items():
            out += [(['cls', n, k], v) for k, v in conf.items()]
        for (n, name), conf in self.meth.items():
            out += [(['meth', n, name, k], v) for k, v in conf.items()]
        for (n, name), (tool, conf) in self.thkw.items():
            out += [(['thkw', n, name, k], v) for k, v in conf.items()]
        for (n, name), conf in self.thconf.items():
            out += [(['thconf', n, name, k], v) for k, v in conf.items()]
        return out

    def mutable_entries(self):
        out = []
        for tgt, v in self.all_entries():
            subs = containers_in(v)
            if subs:
                out.append((tgt, subs))
        return out

    def apply(self, st):
        k = st[0]
        if k == 'merge':
            self.merge(st[1], st[2])
        elif k == 'remount':
            self.remount(st[1])
        elif k == 'gupdate':
            self.glob.update(self.ev_conf(st[1]))
        elif k == 'gset':
            self.glob[st[1]] = self.ev(st[2])
        elif k == 'rebind':
            self.settings[st[1]] = eval(st[2], {'__builtins__': {}})
        elif k == 'mutate' and st[1][0] != 'lastreq':
            d, key = self.entry(st[1])
            if key in d:
                mutate_value(d[key], st[2], st[3])


def sub_value(v, sub):
    for s in sub:
        if isinstance(v, list) and isinstance(s, int) and s < len(v):
            v = v[s]
        elif isinstance(v, dict) and s in v:
            v = v[s]
        else:
            return None
    return v


def mutate_value(v, sub, n):
    """The in-place change an application might make to its own entry: one more item."""
    v = sub_value(v, sub)
    if isinstance(v, list):
        v.append('M%d' % n)
        return True
    if isinstance(v, dict):
        v['M%d' % n] = n
        return True
    return False


# ----------------------------------------------------------------------------------------------
# real-code runner
# ----------------------------------------------------------------------------------------------
def ini_text(sections):
    out = []
    for name, conf in sections.items():
        out.append('[%s]' % name)
        for k, t in conf.items():
            out.append('%s = %s' % (k, t.replace('%', '%%')))
        out.append('')
    return '\n'.join(out)


def enc_conf_h(c):
    if c is None:
        return '-'
    if not c:
        return 'E'
    return ','.join('%s~%s' % (T.enc_text(k), T.enc_val(canon(v))) for k, v in c.items())


def enc_sections_h(sections):
    if not sections:
        return '-'
    return ';'.join('%s|%s' % (T.enc_text(n), enc_conf_h(c) if c else 'E') for n, c in sections.items())


class ViewH(T.View):
    """C02's attribute view with compound `_cp_config` values encoded as opaque texts."""

    def fields(self):
        out = []
        for nd in self.nodes:
            flags = ('t' if nd['truthy'] else '') + ('c' if nd['callable'] else '') + ('e' if nd['exposed'] else '')
            conf = nd['conf']
            try:
                cenc = enc_conf_h(conf)
            except (common.HarnessError, AttributeError, TypeError):
                cenc = '-'
            out.append('|'.join([flags or '-', self.enc_attrs(nd['attrs']),
                                 ','.join(T.enc_text(u) for u in nd['upper']) or '-', nd['disp'], cenc]))
        return '0', self.enc_attrs(self.none_attrs), ';'.join(out)


class World:
    """The real side: tree, applications, settings module; `step()` performs one step."""

    def __init__(self, hist):
        cherrypy = T.cp()
        ensure_tools()
        self.cherrypy = cherrypy
        self.hist = hist
        self.kind = hist['kind']
        self.mod = types.ModuleType(SETTINGS_MOD)
        for k, t in SETTINGS_INIT.items():
            setattr(self.mod, k, eval(t, {'__builtins__': {}}))
        self.saved_mod = sys.modules.get(SETTINGS_MOD)
        sys.modules[SETTINGS_MOD] = self.mod
        self.saved_config = dict(cherrypy.config)
        self.saved_files = set(cherrypy.engine.autoreload.files)
        self.tmpdir = None
        self.nfiles = 0
        self.seen_path = []
        self.requests = []
        self.last_req = None
        self.view = None
        self.view_names = set()
        self.load_errors = []
        # the tree: config texts evaluated into fresh objects
        self.live = copy.deepcopy(hist['tree'])
        self.thkw_live = {}
        self.thfun = {}
        for n, nd in enumerate(self.live['nodes']):
            if nd.get('conf') is not None:
                nd['conf'] = self.ev_conf(nd['conf'])
            for name, m in nd.get('meth', []):
                if m.get('conf') is not None:
                    m['conf'] = self.ev_conf(m['conf'])
                if m.get('tooldeco') is not None:
                    m['tooldeco'] = [m['tooldeco'][0], self.ev_conf(m['tooldeco'][1])]
        self.built = T.Built(self.live, instrument=True)
        for n, nd in enumerate(self.live['nodes']):
            for name, tool, kw, deco in nd.get('th', []):
                kwv = self.ev_conf(kw)
                self.thkw_live[(n, name)] = kwv
                f = getattr(cherrypy.tools, tool).handler(**kwv)
                if deco is not None:
                    if deco[0] == 'config':
                        cherrypy.config(**self.ev_conf(deco[1]))(f)
                    else:
                        getattr(cherrypy.tools, deco[1])(**self.ev_conf(deco[2]))(f)
                f._c08_th = (n, name)
                setattr(self.built.classes[n], name, f)
                self.thfun[(n, name)] = f
        self.tree = cherrypy._cptree.Tree()
        self.apps = [None] * len(hist['apps'])
        self.shared_dict = None
        self.constructing = True
        for a in range(len(hist['apps'])):
            self.mount(a)
        self.constructing = False

    # -- evaluation of config texts on the real side (plain Python, a fresh object per entry) --------
    def ev(self, text):
        return eval(text, {'__builtins__': {}, 'dict': dict, SETTINGS_MOD: self.mod})

    def ev_conf(self, conf):
        return {k: self.ev(t) for k, t in conf.items()}

    def supply(self, sections, form):
        """The config in the requested form: dict, INI file object or INI file name."""
        if form == 'dict':
            return {n: self.ev_conf(c) for n, c in sections.items()}
        text = ini_text(sections)
        if form == 'ini':
            return io.StringIO(text)
        if self.tmpdir is None:
            self.tmpdir = tempfile.mkdtemp(prefix='c08h')
        self.nfiles += 1
        fn = os.path.join(self.tmpdir, 'conf%d.ini' % self.nfiles)
        with open(fn, 'w', encoding='utf-8') as f:
            f.write(text)
        return fn

    def _install(self, app):
        cherrypy = self.cherrypy
        inner = cherrypy.dispatch.MethodDispatcher() if self.kind == 'M' else cherrypy.dispatch.Dispatcher()
        seen, reqs = self.seen_path, self.requests

        def recording_dispatch(path_info):
            seen.append(path_info)
            reqs.append(cherrypy.serving.request)
            return inner(path_info)
        app.merge({'/': {'request.dispatch': recording_dispatch, 'tools.trailing_slash.on': False}})
        boxes = dict(app.toolboxes)          # (the class attribute is shared by all applications: a copy per app)
        # a toolbox is served in registration order and a tool reads the toolmap of ITS OWN toolbox when it is set up:
        # the toolbox a shared tool belongs to (c9) is registered before the other one it is reachable from (c8)
        for ns in reversed(BOX_NAMES):
            boxes[ns] = BOXES[ns]
        app.toolboxes = boxes
        app.log.screen = False
        app.log.error_file = ''
        app.log.access_file = ''

    def mount(self, a):
        ac = self.hist['apps'][a]
        conf = ac['conf']
        try:
            if conf == 'same':
                base = self.hist['apps'][0]
                if base['form'] == 'dict' and self.shared_dict is not None and self.constructing:
                    supplied = self.shared_dict          # the very same dict object for both applications
                else:
                    supplied = self.supply(base['conf'], base['form'])
            else:
                supplied = self.supply(conf, ac['form'])
                if a == 0 and ac['form'] == 'dict' and self.constructing and \
                        not any(containers_in(v) for c in supplied.values() for v in c.values()):
                    self.shared_dict = supplied          # (only when every value is immutable: sharing those is harmless)
            app = self.tree.mount(self.built.root, MOUNTS[a], supplied)
            self._install(app)
            self.apps[a] = app
        except Exception as e:
            self.load_errors.append(('mounting application %d raised %s: %s' % (a, type(e).__name__, e), 'config_load_raised'))
            if self.apps[a] is None:
                app = self.cherrypy.Application(self.built.root, MOUNTS[a])
                self._install(app)
                self.apps[a] = app

    def close(self):
        cherrypy = self.cherrypy
        cherrypy.config.clear()
        dict.update(cherrypy.config, self.saved_config)
        files = cherrypy.engine.autoreload.files
        for f in list(files):
            if f not in self.saved_files:
                files.discard(f)
        if self.saved_mod is None:
            sys.modules.pop(SETTINGS_MOD, None)
        else:
            sys.modules[SETTINGS_MOD] = self.saved_mod
        if self.tmpdir is not None:
            shutil.rmtree(self.tmpdir, ignore_errors=True)

    # -- real entries ----------------------------------------------------------------------------
    def entry(self, tgt):
        kind = tgt[0]
        if kind == 'sec':
            return self.apps[tgt[1]].config.get(tgt[2], {}), tgt[3]
        if kind == 'glob':
            return self.cherrypy.config, tgt[1]
        if kind == 'cls':
            return self.built.classes[tgt[1]].__dict__.get('_cp_config', {}), tgt[2]
        if kind == 'meth':
            f = self.built.classes[tgt[1]].__dict__.get(tgt[2])
            return getattr(f, '_cp_config', {}), tgt[3]
        if kind == 'thkw':
            return self.thkw_live.get((tgt[1], tgt[2]), {}), tgt[3]
        if kind == 'thconf':
            return getattr(self.thfun.get((tgt[1], tgt[2])), '_cp_config', {}), tgt[3]
        raise common.HarnessError('unknown entry handle %r' % (tgt,))

    def all_entries(self):
        out = []
        for a, app in enumerate(self.apps):
            for name, conf in app.config.items():
                if isinstance(conf, dict):
                    out += [(['sec', a, name, k], conf[k]) for k in conf if k in GEN_KEYS]
        out += [(['glob', k], v) for k, v in self.cherrypy.config.items() if k in GEN_KEYS]
        for n, cls in enumerate(self.built.classes):
            conf = cls.__dict__.get('_cp_config')
            if isinstance(conf, dict):
                out += [(['cls', n, k], v) for k, v in conf.items()]
            for name, f in cls.__dict__.items():
                c = getattr(f, '_cp_config', None) if isinstance(f, types.FunctionType) else None
                if isinstance(c, dict):
                    kind = 'thconf' if hasattr(f, '_c08_th') else 'meth'
                    out += [([kind, n, name, k], v) for k, v in c.items()]
        for (n, name), kw in self.thkw_live.items():
            out += [(['thkw', n, name, k], v) for k, v in kw.items()]
        return out

    # -- one request -------------------------------------------------------------------------------
    def request(self, a, path, method):
        import signal
        self.built.journal[:] = []
        self.built.disp_log[:] = []
        self.seen_path[:] = []
        self.requests[:] = []
        TOOL_JOURNAL[:] = []
        environ = {
            'REQUEST_METHOD': method, 'SCRIPT_NAME': MOUNTS[a], 'PATH_INFO': path, 'QUERY_STRING': '',
            'SERVER_NAME': 'localhost', 'SERVER_PORT': '80', 'SERVER_PROTOCOL': 'HTTP/1.1',
            'CONTENT_LENGTH': '0', 'wsgi.version': (1, 0), 'wsgi.url_scheme': 'http',
            'wsgi.input': io.BytesIO(b''), 'wsgi.errors': io.StringIO(), 'wsgi.multithread': False,
            'wsgi.multiprocess': False, 'wsgi.run_once': False, 'wsgi.url_encoding': 'utf-8',
            'REMOTE_ADDR': '127.0.0.1', 'HTTP_HOST': 'localhost',
        }
        got = {}

        def start_response(status, headers, exc_info=None):
            got['status'] = status
            got['headers'] = headers
        old = signal.signal(signal.SIGVTALRM, T._alarm)
        signal.setitimer(signal.ITIMER_VIRTUAL, 4.0)
        o = {'hang': False, 'raised': None}
        try:
            try:
                res = self.apps[a](environ, start_response)
                try:
                    b''.join(res)
                finally:
                    if hasattr(res, 'close'):
                        res.close()
            finally:
                signal.setitimer(signal.ITIMER_VIRTUAL, 0)
                signal.signal(signal.SIGVTALRM, old)
        except T.NoAnswer:
            import gc
            gc.collect()
            o['hang'] = True
        except Exception as e:        # the WSGI entry point never lets an exception out on the unchanged tree
            o['raised'] = type(e).__name__
        try:
            o['status'] = int(got['status'].split()[0]) if 'status' in got else 0
        except (ValueError, AttributeError, IndexError):
            o['status'] = -1
        o['ran'] = [[p, x] for p, x, kw in self.built.journal]
        o['path_info'] = self.seen_path[0] if self.seen_path else None
        req = self.requests[0] if self.requests else None
        self.last_req = req
        cfg = getattr(req, 'config', None) if req is not None else None
        try:
            o['config'] = None if cfg is None else {k: canon(cfg[k]) for k in GEN_KEYS if k in cfg}
            tm = (getattr(req, 'toolmaps', None) or {}).get('tools', {}) if req is not None else {}
            o['toolmap'] = {t: canon_conf(tm[t]) for t in TOOLS if t in tm}
        except Exception as e:
            o['config'] = None
            o['toolmap'] = {}
            o['raised'] = 'observing request.config: ' + type(e).__name__
        custom_ids = [c[0] for c in CUSTOM_TOOLS]
        o['tools_ran'] = sorted(([n, 'page' if 'page' in kw else 'hook', sorted(kw.items(), key=repr)]
                                 for n, kw, live in TOOL_JOURNAL if n not in custom_ids), key=repr)
        o['custom_ran'] = sorted(([n, sorted(kw.items(), key=repr)] for n, kw, live in TOOL_JOURNAL if n in custom_ids), key=repr)
        o['disp_log'] = list(self.built.disp_log)
        return o

    # -- the model line of the request just made ------------------------------------------------------
    def line(self, a, path, method, o, ref):
        pi = o['path_info'] if o['path_info'] is not None else path
        names = set(T.alphabet_for([pi], [method]))
        if self.view is None or not names <= self.view_names:
            if self.view is None:
                self.view_paths = [st[2] for st in self.hist['steps'] if st[0] == 'req']
            self.view_paths.append(pi)
            added = [x for nd in self.hist['tree']['nodes'] if nd.get('disp') for x in nd['disp'].get('add', [])]
            methods = [st[3] for st in self.hist['steps'] if st[0] == 'req']
            alpha = T.alphabet_for(self.view_paths, methods, extra=added)
            maxsegs = max([len([s for s in p.split('/') if s]) for p in self.view_paths] + [0])
            self.view = ViewH(self.built, alpha, maxsegs + 4)
            self.view_names = set(alpha)
        root, na, nodes = self.view.fields()
        th = []
        for (n, name), kw in self.thkw_live.items():
            try:
                vid = self.view.ids.get(T.View.key(getattr(self.built.objs[n], name)))
            except Exception:
                vid = None
            if vid is not None:
                th.append('%d:%s:%s' % (vid, T.enc_text(self.hist_tool(n, name)), enc_conf_h(kw)))
        # the configuration the model is evaluated on is the reference world at this moment
        secs = enc_sections_h(ref.apps[a])
        glob = enc_conf_h(ref.glob) if ref.glob else 'E'
        boxes = ';'.join('%s:%s:%s' % (T.enc_text(ns), T.enc_text(attr), T.enc_text(nss[-1]))
                         for _id, attr, nss, _how in CUSTOM_TOOLS for ns in nss)
        return ' '.join(['confh', self.kind, T.enc_text(method.upper()), root, na, nodes, secs, glob, T.enc_text(pi),
                         ';'.join(th) or '-', boxes or '-'])

    def hist_tool(self, n, name):
        for th in self.hist['tree']['nodes'][n].get('th', []):
            if th[0] == name:
                return th[1]
        return '?'

    # -- non-request steps -----------------------------------------------------------------------------
    def step(self, st, ref):
        """Performs a config step; returns a list of (what, signature) violations seen while doing it."""
        cherrypy = self.cherrypy
        k = st[0]
        bad = []
        try:
            if k == 'merge':
                self.apps[st[1]].merge(self.supply(st[2], st[3]))
            elif k == 'merge_flat':
                # an application config needs section headers: a flat dict is refused, nothing is applied
                try:
                    self.apps[st[1]].merge(self.ev_conf(st[2]))
                    bad.append(('app.merge of the flat dict %s (no section headers) was accepted' % (st[2],), 'flat_merge_accepted'))
                except ValueError:
                    pass
            elif k == 'remount':
                self.mount(st[1])
                bad += self.load_errors
                self.load_errors = []
            elif k == 'gupdate':
                form = st[2]
                if form == 'dict':
                    cherrypy.config.update(self.ev_conf(st[1]))
                elif form == 'gdict':
                    cherrypy.config.update({'global': self.ev_conf(st[1])})
                else:
                    cherrypy.config.update(self.supply({'global': st[1]}, form))
            elif k == 'gset':
                cherrypy.config[st[1]] = self.ev(st[2])
            elif k == 'rebind':
                setattr(self.mod, st[1], eval(st[2], {'__builtins__': {}}))
            elif k == 'mutate':
                bad += self.mutate(st, ref)
        except Exception as e:
            bad.append(('step %r raised %s: %s' % (st[:2], type(e).__name__, e), 'config_load_raised'))
        return bad

    def mutate(self, st, ref):
        tgt, sub, n = st[1], st[2], st[3]
        if tgt[0] != 'lastreq':
            d, key = self.entry(tgt)
            if isinstance(d, dict) and key in d:
                mutate_value(d[key], sub, n)
            return []
        # through `request.config` of the last request: the entry the object belongs to is found by identity
        cfg = getattr(self.last_req, 'config', None)
        if not isinstance(cfg, dict):
            return []
        keys = sorted(k for k in GEN_KEYS if k in cfg and containers_in(cfg[k]))
        if not keys:
            return []
        key = keys[tgt[1] % len(keys)]
        subs = containers_in(cfg[key])
        sub = subs[sub % len(subs)]
        obj = cfg[key]
        owners = [t for t, v in self.all_entries() if v is obj]
        mutate_value(obj, sub, n)
        # the reference: the mutation belongs to the entry (or entries, when the application itself shares a
        # class-level dict) that own the object; a per-request copy owns nothing
        rowners = []
        for t in owners:
            d, k2 = ref.entry(t)
            if k2 in d and not any(d[k2] is r for r in rowners):
                rowners.append(d[k2])
                mutate_value(d[k2], sub, n)
        return []


def default_options(root, path_info):
    """Which default handler (if any) is the chosen handler, per the C02 reference resolver."""
    segs = [s for s in path_info.split('/') if s]
    chain = [root]
    for s in segs:
        nxt = getattr(chain[-1], s.translate(c02._PUNCT), None)
        if nxt is None:
            break
        chain.append(nxt)
    if len(chain) == len(segs) + 1:
        idx = getattr(chain[-1], 'index', None)
        if idx is not None:
            chain.append(idx)
    for depth in range(len(chain) - 1, -1, -1):
        o = chain[depth]
        d = getattr(o, 'default', None)
        opts = []
        if d is not None and c02._exposed(d):
            opts.append((depth, d))
        if c02._exposed(o):
            opts.append((None, o))
        if opts:
            return opts
    return [(None, None)]


def ref_conf_of(ref, obj):
    """The reference `_cp_config` entries of a live object (None when it has none)."""
    if obj is None:
        return None
    th = getattr(obj, '_c08_th', None)
    if isinstance(th, tuple):
        return ref.thconf.get(th)
    pid = getattr(obj, '_pid', None)
    if isinstance(obj, (types.MethodType, types.FunctionType)) and isinstance(pid, str):
        if pid.endswith('()'):
            return None
        node, _, name = pid.partition('.')
        return ref.meth.get((int(node), name))
    if getattr(obj, '_gen_node', False) is True:
        gid = getattr(obj, '_gen_id', None)
        return ref.cls.get(gid)
    c = getattr(obj, '_cp_config', None)
    return c if isinstance(c, dict) else None


def ref_effective_general(root, kind, path_info, log, ran, glob, sections, conf_of, verb_conf, keys):
    """Acceptable (effective config restricted to `keys`, chosen handler) pairs, written from the statement:
    global, then level by level down the request path the `_cp_config` of the object found at that level and the
    section of every path prefix that level covers (one per attribute step; all the prefixes a `_cp_dispatch`
    consumed in one go - C02's recording wrappers say which), the chosen default handler's `_cp_config` right after
    its owner's level.  None when the recorded dispatcher calls do not fit a plain reading of the path (a dispatcher
    raised, added or rewrote segments)."""
    segs = [s for s in path_info.split('/') if s]
    total = len(segs)
    chain, wf, note = c02.ref_trail(root, segs, list(log or []))
    if note is not None or not wf:
        return None
    has_idx = len(chain) >= 2 and chain[-1][1] == total and chain[-2][1] == total
    steps = chain[:-1] if has_idx else chain

    def prefix(n):
        return '/' + '/'.join(segs[:n])
    results = []
    for with_index_section in (True, False):
        # who is chosen: deepest entry with an exposed default or exposed itself
        options = []
        for depth in range(len(chain) - 1, -1, -1):
            o = chain[depth][0]
            if o is None:
                continue
            d = getattr(o, 'default', None)
            if d is not None and c02._exposed(d):
                options.append((depth, d))
            if c02._exposed(o):
                options.append((None, o))
            if options:
                break
        if not options:
            options = [(None, None)]
        for dlevel, chosen in options:
            eff = dict(glob)

            def upd(conf):
                if conf:
                    eff.update(conf)
            done = 0
            for j, (obj, upto) in enumerate(steps):
                upd(conf_of(obj))
                if j == 0:
                    upd(sections.get('/'))
                for n in range(done + 1, upto + 1):
                    upd(sections.get(prefix(n)))
                done = max(done, upto)
                if dlevel == j:
                    upd(conf_of(chosen))
            for n in range(done + 1, total + 1):        # nothing found any more: the sections still apply
                upd(sections.get(prefix(n)))
            if has_idx:
                upd(conf_of(chain[-1][0]))
            if with_index_section:
                upd(sections.get((prefix(total) if total else '') + '/index'))
            if has_idx and dlevel == len(chain) - 1:
                upd(conf_of(chosen))
            upd(verb_conf)
            results.append(({k: canon(v) for k, v in eff.items() if k in keys}, chosen))
    return results


def ref_effective(ref, a, world, o):
    verb = None
    if world.kind == 'M' and o['ran']:
        pid = o['ran'][0][0]
        node, _, name = pid.partition('.')
        if name and not pid.endswith('()'):
            verb = ref.meth.get((int(node), name))
    return ref_effective_general(world.built.root, world.kind, o['path_info'], o.get('disp_log'), o['ran'], ref.glob,
                                 ref.apps[a], lambda obj: ref_conf_of(ref, obj), verb, GEN_KEYS)


def seg_prefix(name, segs):
    if name == '/':
        return True
    if not name.startswith('/'):
        return False
    parts = name[1:].split('/')
    return parts == segs[:len(parts)]


def oracle_request(ref, a, world, o):
    """The statement, evaluated on this request alone against the reference world of this moment."""
    bad = []
    if o['hang']:
        return [('the request never finished', 'request_hang')]
    if o['raised']:
        bad.append(('the WSGI entry point raised %s' % o['raised'], 'request_raised'))
    if o['path_info'] is None or o['config'] is None:
        return bad
    hist = world.hist
    has_disp = any(nd.get('disp') is not None for nd in hist['tree']['nodes'])
    adds = any((nd.get('disp') or {}).get('add') for nd in hist['tree']['nodes'])
    cfg = o['config']
    segs = [s for s in o['path_info'].split('/') if s] + ['index']
    if not adds:
        for k, v in cfg.items():
            if isinstance(v, str) and v.startswith('S:') and not seg_prefix(v[2:], segs):
                bad.append(('key %r of request %r has the value of section %r, which is not on the request path'
                            % (k, o['path_info'], v[2:]), 'section_leak'))
    chosen_opts = None
    alts = ref_effective(ref, a, world, o)
    if alts is not None:
        ok = [ch for c, ch in alts if c == cfg]
        if not ok:
            want = alts[0][0]
            diff = {k: (cfg.get(k), want.get(k)) for k in set(cfg) | set(want) if cfg.get(k) != want.get(k)}
            bad.append(('effective config of %r (application %d) differs from the merge of the configuration in force: '
                        '{key: (got, want)} = %s' % (o['path_info'], a, diff), 'merge_mismatch'))
        chosen_opts = ok or [ch for c, ch in alts]
    # tools: set up exactly when the effective config turns them on, with the merged arguments
    want_hooks = []
    for t in TOOLS:
        pre = 'tools.%s.' % t
        if cfg.get(pre + 'on', False):
            kw = {k[len(pre):]: v for k, v in cfg.items() if k.startswith(pre) and k[len(pre):] not in ('on', 'priority')}
            want_hooks.append([t, 'hook', sorted(kw.items(), key=repr)])
    got_hooks = [x for x in o['tools_ran'] if x[1] == 'hook']
    got_pages = [x for x in o['tools_ran'] if x[1] == 'page']
    want_hooks.sort(key=repr)
    if want_hooks != got_hooks:
        bad.append(('tools set up with their arguments %s differ from what the effective config turns on %s (config %s)'
                    % (got_hooks, want_hooks, cfg), 'tool_on_off'))
    # custom toolboxes: a tool reachable as <ns>.<name> is set up when the effective <ns>.<name>.on is truthy, with
    # the effective entries of ITS OWN namespace (the toolbox it was attached to last) - never a like-named tool's
    want_custom = []
    for tid, attr, nss, how in CUSTOM_TOOLS:
        home = nss[-1]
        pre = '%s.%s.' % (home, attr)
        kw = {k[len(pre):]: v for k, v in cfg.items() if k.startswith(pre) and k[len(pre):] not in ('on', 'priority')}
        for ns in nss:
            if cfg.get('%s.%s.on' % (ns, attr), False):
                want_custom.append([tid, sorted(kw.items(), key=repr)])
    want_custom.sort(key=repr)
    if want_custom != o.get('custom_ran', want_custom):
        bad.append(('tools of the custom toolboxes ran as %s; the effective config turns on %s (config %s)'
                    % (o['custom_ran'], want_custom, {k: v for k, v in cfg.items() if k in CUSTOM_KEYS or k.startswith('tools.p')}),
                    'custom_toolbox'))
    # a handler-tool page handler gets its own kwargs overlaid with the effective tools.<t>.* entries
    hook_serves = bool(cfg.get('tools.h1.on', False)) and bool(cfg.get('tools.h1.serve', False))
    if chosen_opts is not None and hook_serves:
        # the tool, turned on by config, answered the request before the handler: no page handler runs
        if got_pages:
            bad.append(('the page handler ran (%s) although the tool turned on by the config had answered the request' % got_pages,
                        'handler_tool_args'))
    elif chosen_opts is not None:
        wants = []
        for ch in chosen_opts:
            th = getattr(ch, '_c08_th', None)
            if not isinstance(th, tuple) or th not in ref.thkw:
                wants.append([])
                continue
            tool, kw0 = ref.thkw[th]
            pre = 'tools.%s.' % tool
            for drop_priority in (False, True):
                kw = canon_conf(kw0)
                kw.update({k[len(pre):]: v for k, v in cfg.items() if k.startswith(pre)})
                kw.pop('on', None)
                if drop_priority:
                    kw.pop('priority', None)
                wants.append([[tool, 'page', sorted(kw.items(), key=repr)]])
        if got_pages not in wants:
            uniq = []
            for w in wants:
                if w and w not in uniq:
                    uniq.append(w)
            bad.append(('the page-handler tool was called with %s; its own kwargs overlaid with the effective config '
                        'give %s (config %s)' % (got_pages, uniq or 'no call', cfg), 'handler_tool_args'))
    return bad


# ----------------------------------------------------------------------------------------------
# one history
# ----------------------------------------------------------------------------------------------
def aliasing_scan(world):
    """Pairs of different entries that hold the very same mutable container (by identity, nested included)."""
    seen = {}
    pairs = []
    for tgt, v in world.all_entries():
        for sub in containers_in(v):
            obj = sub_value(v, sub)
            prev = seen.get(id(obj))
            if prev is not None and prev[0] != tgt and prev[2] is obj:
                pairs.append((prev[0], prev[1], tgt, sub))
            elif prev is None:
                seen[id(obj)] = (tgt, sub, obj)
    return pairs


def shared_by_design(world, t1, t2):
    """The same class / function / kwargs dict reached twice is one entry, not two."""
    if t1[0] in ('cls', 'meth', 'thconf') and t2[0] in ('cls', 'meth', 'thconf'):
        d1, _ = world.entry(t1)
        d2, _ = world.entry(t2)
        return d1 is d2
    return False


def aliasing_probe(world, ref, i, what, probes):
    """Values are fresh per parse: after a load no mutable object may be shared by two entries.  A shared
    object found by identity is confirmed by the observable (change one in place, look at the other)."""
    bad = []
    if probes[0] >= 3:
        return bad
    for t1, s1, t2, s2 in aliasing_scan(world)[:2]:
        if shared_by_design(world, t1, t2):
            continue
        d1, k1 = world.entry(t1)
        d2, k2 = world.entry(t2)
        before = repr(d2[k2])
        probes[0] += 1
        mutate_value(d1[k1], s1, 900 + probes[0])
        after = repr(d2[k2])
        rd, rk = ref.entry(t1)
        if rk in rd:
            mutate_value(rd[rk], s1, 900 + probes[0])
        if before != after:
            bad.append(('after step %d (%s) the entries %s and %s hold one shared object: changing the first in place '
                        'changed the second from %s to %s' % (i, what, t1, t2, before[:200], after[:200]), 'value_aliasing'))
    return bad


def run_hist(case, upto=None):
    """Runs the history; returns a list of records
    {'i': step index, 'step': st, 'obs': o | None, 'bad': [(what, sig)], 'line': model line | None, 'epoch': n}."""
    hist = case['hist']
    steps = hist['steps'] if upto is None else hist['steps'][:upto]
    recs = []
    world = World(hist)
    try:
        ref = Ref(hist)
        epoch = 0
        first = list(world.load_errors)
        world.load_errors = []
        probes = [0]
        first += aliasing_probe(world, ref, -1, 'mounting the applications', probes)
        for i, st in enumerate(steps):
            st = list(st)
            rec = {'i': i, 'step': st, 'obs': None, 'bad': [], 'line': None, 'epoch': epoch}
            if i == 0:
                rec['bad'] += first
            if st[0] == 'req':
                a = st[1] % len(world.apps)
                o = world.request(a, st[2], st[3])
                rec['obs'] = o
                rec['app'] = a
                rec['bad'] += oracle_request(ref, a, world, o)
                if not o['hang']:
                    try:
                        rec['line'] = world.line(a, st[2], st[3], o, ref)
                    except common.HarnessError:
                        rec['line'] = None
            else:
                epoch += 1
                ref.apply(st)
                rec['bad'] += world.step(st, ref)
                if st[0] in ('merge', 'remount', 'gupdate'):
                    rec['bad'] += aliasing_probe(world, ref, i, st[0], probes)
            recs.append(rec)
    finally:
        world.close()
    return recs


def same_request_obs(o):
    return {k: o.get(k) for k in ('status', 'ran', 'config', 'toolmap', 'tools_ran', 'custom_ran', 'path_info')}


def violations(recs):
    """(step index, what, sig) in history order, the history-independence clause included."""
    out = []
    seen = {}
    for r in recs:
        for what, sig in r['bad']:
            out.append((r['i'], what, sig))
        if r['obs'] is not None and not r['obs']['hang']:
            key = (r['app'], r['step'][2], r['step'][3], r['epoch'])
            if key in seen:
                prev = seen[key]
                if same_request_obs(prev['obs']) != same_request_obs(r['obs']):
                    a, b = same_request_obs(prev['obs']), same_request_obs(r['obs'])
                    diff = {k: (a[k], b[k]) for k in a if a[k] != b[k]}
                    out.append((r['i'], 'request %s %r (application %d) answered differently at step %d and step %d although only '
                                'requests were made in between: %s' % (r['step'][3], r['step'][2], r['app'], prev['i'], r['i'], diff),
                                'history_dependent'))
            else:
                seen[key] = r
    out.sort(key=lambda x: x[0])
    return out


def shrink_generic(case, variants, fails, budget=500):
    improved = True
    while improved and budget > 0:
        improved = False
        for v in variants(case):
            budget -= 1
            if budget <= 0:
                break
            try:
                bad = fails(v)
            except Exception:
                bad = False
            if bad:
                case = v
                improved = True
                break
    return case


def report_failure(ctx, case, what, sig, shrinker):
    """ctx.oracle_fail with the first failure of each signature shrunk (the others are reported as found)."""
    done = getattr(ctx, '_shrunk_sigs', None)
    if done is None:
        done = ctx._shrunk_sigs = set()
    if sig not in done and ctx.match_known(sig) is None and len(done) < 4:
        done.add(sig)
        try:
            small, what_small = shrinker(case, sig)
            if small != case and what_small:
                what = what_small + '  [shrunk]'
                case = dict(small, shrunk_from=case)
        except Exception as e:     # shrinking is a convenience, never a reason to fail
            ctx.note('shrinking failed: %r' % (e,))
    ctx.oracle_fail(case, what, sig)


def cut(case, i):
    h = dict(case['hist'])
    h['steps'] = [list(s) for s in h['steps'][:i + 1]]
    return {'hist': h}


def shrink_hist(case, sig):
    def variants(c):
        h = c['hist']
        n = len(h['steps'])
        for j in range(n - 2, -1, -1):
            yield {'hist': dict(h, steps=h['steps'][:j] + h['steps'][j + 1:])}
        if len(h['apps']) > 1 and not any(s[0] in ('req', 'merge', 'merge_flat', 'remount') and s[1] == 1 for s in h['steps']) \
                and not any(s[0] == 'mutate' and s[1][0] == 'sec' and s[1][1] == 1 for s in h['steps']):
            yield {'hist': dict(h, apps=h['apps'][:1])}
        for a, ac in enumerate(h['apps']):
            if isinstance(ac['conf'], dict):
                for name in ac['conf']:
                    apps = copy.deepcopy(h['apps'])
                    del apps[a]['conf'][name]
                    yield {'hist': dict(h, apps=apps)}
        for t in c02.tree_variants(h['tree']):
            yield {'hist': dict(h, tree=t)}

    def messages(c):
        return [w for i, w, s in violations(run_hist(c)) if s == sig and i == len(c['hist']['steps']) - 1]

    def fails(c):
        return bool(messages(c))
    small = shrink_generic(case, variants, fails, budget=250)
    return small, (messages(small) or [None])[0]


def describe(st):
    return json.dumps(st, default=repr)


# ----------------------------------------------------------------------------------------------
# model side
# ----------------------------------------------------------------------------------------------
def dec_val(s):
    if s == 'N':
        return None
    if s == 'T':
        return True
    if s == 'F':
        return False
    if s[0] == 'i':
        return int(s[1:])
    return T.dec_text(s[1:])


def dec_conf(s):
    if s in ('E', '-'):
        return {}
    out = {}
    for kv in s.split(','):
        k, v = kv.split('~')
        out[T.dec_text(k)] = dec_val(v)
    return out


def dec_tools(s):
    if s == '-':
        return []
    out = []
    for item in s.split(';'):
        t, c = item.split(':')
        out.append((T.dec_text(t), dec_conf(c)))
    return out


def model_obs(line):
    if line.startswith('E:'):
        return {'error': line}
    parts = dict(p.split('=', 1) for p in line.split(' '))
    k = dec_conf(parts['K'])
    tm = dict(dec_tools(parts['TM']))
    run = dec_tools(parts['RUN'])
    ran = [[t, 'hook', sorted(c.items(), key=repr)] for t, c in run if t in TOOLS]
    ran += [[t, 'page', sorted(c.items(), key=repr)] for t, c in dec_tools(parts['H'])]
    ids = dict(('%s.%s' % (ns, attr), tid) for tid, attr, nss, _how in CUSTOM_TOOLS for ns in nss)
    custom = [[ids.get(t, t), sorted(c.items(), key=repr)] for t, c in dec_tools(parts.get('CRUN', '-'))]
    return {'config': {x: v for x, v in k.items() if x in GEN_KEYS},
            'toolmap': {t: tm[t] for t in TOOLS if t in tm},
            'tools_ran': sorted(ran, key=repr), 'custom_ran': sorted(custom, key=repr)}


def check_tool_decorator_args(ctx):
    """`@tools.x(...)` takes keyword arguments only."""
    cherrypy = T.cp()
    ensure_tools()
    case = {'hist': {'tool_decorator': 'positional'}}
    try:
        cherrypy.tools.p1('positional')
        ctx.oracle_fail(case, 'cherrypy.tools.p1("positional") was accepted: tool arguments are keyword arguments', 'tool_decorator_positional')
    except TypeError:
        pass
    except Exception as e:
        ctx.oracle_fail(case, 'cherrypy.tools.p1("positional") raised %s' % type(e).__name__, 'tool_decorator_positional')


def raised_in_code_under_test(e):
    """Did the exception come out of the cherrypy package (an observation) rather than out of the harness?"""
    tb = e.__traceback__
    last = None
    while tb is not None:
        last = tb.tb_frame.f_code.co_filename
        tb = tb.tb_next
    return last is not None and (os.sep + 'cherrypy' + os.sep) in last


def check_hist_cases(ctx, cases, compare_model=True):
    pending = []
    if len(cases) > 1:
        check_tool_decorator_args(ctx)
    failing = 0
    for case in cases:
        if failing >= 25:
            # enough evidence; a broken tree may also make every further request slower (accumulating state)
            ctx.note('history run stopped after %d failing histories' % failing)
            break
        try:
            recs = run_hist(case)
        except common.HarnessError:
            raise
        except Exception as e:
            if not raised_in_code_under_test(e):
                raise
            # building the tree / mounting the applications went through CherryPy code that raised
            failing += 1
            ctx.case(case, nontrivial=True)
            ctx.oracle_fail(case, 'setting up the tree and its applications raised %s: %s' % (type(e).__name__, e), 'config_load_raised')
            continue
        hist = case['hist']
        ctx.count('hist:apps:%d' % len(hist['apps']))
        ctx.count('hist:kind:' + hist['kind'])
        for st in hist['steps']:
            ctx.count('hist:step:' + st[0])
        ths = sum(len(nd.get('th', [])) for nd in hist['tree']['nodes'])
        ctx.count('hist:tool_page_handlers:%d' % min(ths, 3))
        for r in recs:
            if r['obs'] is None:
                continue
            o = r['obs']
            single = cut(case, r['i'])
            nkeys = len(o['config'] or {})
            ctx.case(single, nontrivial=nkeys > 0,
                     key='hist:' + json.dumps([hist['tree'], hist['apps'], hist['steps'][:r['i'] + 1]], sort_keys=True, default=repr))
            ctx.count('hist:status:%d' % o['status'])
            ctx.count('hist:tools_ran:%d' % min(len(o['tools_ran']), 4))
            if any(x[1] == 'page' for x in o['tools_ran']):
                ctx.count('hist:served_by_tool_page_handler')
            if r['line'] is not None:
                pending.append((single, o, r['line']))
        reported = set()
        if any(r['bad'] for r in recs):
            failing += 1
        for i, what, sig in violations(recs):
            if sig in reported:
                continue
            reported.add(sig)
            report_failure(ctx, cut(case, i), what, sig, shrink_hist)
    if not compare_model:
        return
    out = ctx.model([x[2] for x in pending])
    if out is None:
        return
    for (single, o, line), mline in zip(pending, out):
        ctx.compared()
        if 'unknownDispatch' in mline:
            ctx.count('hist:model_unknown_dispatcher')      # a dispatcher form outside the model: not comparable
            continue
        if 'outOfFuel' in mline or mline == 'bad-op':
            raise common.HarnessError('model artefact %s on %s' % (mline, line[:200]))
        mo = model_obs(mline)
        if 'error' in mo:
            if not (o['status'] == 500 and not o['ran']):
                ctx.disagree(single, {k: o[k] for k in ('status', 'ran', 'config')}, mo, 'model expects a dispatcher error')
            continue
        if o['config'] is None:
            ctx.disagree(single, {k: o.get(k) for k in ('status', 'ran', 'config', 'hang')}, mo, 'no request.config on the real side')
            continue
        diffs = []
        if mo['config'] != o['config']:
            diffs.append('config')
        if mo['toolmap'] != o['toolmap']:
            diffs.append('toolmap')
        hooks_m = [x for x in mo['tools_ran'] if x[1] == 'hook']
        hooks_o = [x for x in o['tools_ran'] if x[1] == 'hook']
        if hooks_m != hooks_o:
            diffs.append('tools_ran')
        if mo['custom_ran'] != o.get('custom_ran', mo['custom_ran']):
            diffs.append('custom_toolbox')
        pages_m = [x for x in mo['tools_ran'] if x[1] == 'page']
        pages_o = [x for x in o['tools_ran'] if x[1] == 'page']
        hook_serves = bool(o['config'].get('tools.h1.on', False)) and bool(o['config'].get('tools.h1.serve', False))
        if pages_m != pages_o and not hook_serves:
            diffs.append('handler_tool_args')
        if diffs:
            ctx.disagree(single, {k: o.get(k) for k in ('config', 'toolmap', 'tools_ran', 'custom_ran', 'status', 'path_info')}, mo,
                         'request config observables differ in %s (last step of the history)' % diffs)


def replay(ctx, case):
    recs = run_hist(case)
    for r in recs:
        print('step %2d: %s' % (r['i'], describe(r['step'])))
        if r['obs'] is not None:
            o = r['obs']
            print('   impl  :', json.dumps({k: o.get(k) for k in ('status', 'ran', 'config', 'tools_ran', 'custom_ran')}, default=repr))
        for what, sig in r['bad']:
            print('   oracle: [%s] %s' % (sig, what))
    for i, what, sig in violations(recs):
        if sig == 'history_dependent':
            print('   oracle: [%s] %s' % (sig, what))
    check_hist_cases(ctx, [case])
