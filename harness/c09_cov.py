"""C09: which lines of the anchored functions the correspondence run executes (evidence only, never a verdict).

`sys.monitoring` LINE events restricted to the code objects of the anchored functions; every location is
switched off after its first report, so the cost is negligible.  Forked workers (thorough tier) do not report
back: the measurement covers what runs in the parent (corpus, targeted plans, the quick tier's random plans).
"""
import dis
import linecache
import os
import sys
import types

from . import common  # noqa: F401

import cherrypy
from cherrypy import _cprequest, _cptools, _cptree, _cpwsgi
from cherrypy.lib import reprconf

ANCHORED = [
    (_cprequest.Hook, ['__init__', '__lt__', '__call__']),
    (_cprequest.HookMap, ['__new__', 'attach', 'run', 'run_hooks', '__copy__']),
    (_cprequest, ['hooks_namespace']),
    (_cprequest.Request, ['close', 'run', 'respond', '_do_respond', 'handle_error']),
    (_cptools.Tool, ['_merged_args', '__call__', '_setup']),
    (_cptools.HandlerTool, ['_wrapper', '_setup']),
    (_cptools.ErrorTool, ['_wrapper', '_setup']),
    (_cptools.SessionTool, ['_setup']),
    (_cptools.CachingTool, ['_setup']),
    (_cptools.Toolbox, ['__setattr__', '__enter__', '__exit__']),
    (_cptree.Application, ['get_serving', 'release_serving']),
    (_cpwsgi.AppResponse, ['__init__', '__next__', 'close', 'run']),
    (_cpwsgi.InternalRedirector, ['__call__']),
    (_cpwsgi._TrappedResponse, ['__next__', 'close', 'trap']),
    (reprconf.NamespaceSet, ['__call__']),
]


def _codes():
    out = {}

    def add(code, name):
        if code in out:
            return
        out[code] = name
        for c in code.co_consts:
            if isinstance(c, types.CodeType):
                add(c, name + '.' + c.co_name)

    for owner, names in ANCHORED:
        for n in names:
            f = vars(owner).get(n) if isinstance(owner, type) else getattr(owner, n, None)
            f = getattr(f, '__func__', f)
            code = getattr(f, '__code__', None)
            if code is not None:
                add(code, '%s.%s' % (getattr(owner, '__name__', '?').split('.')[-1], n))
    # private helpers of these classes that the anchored methods may delegate to (a refactoring can add some)
    for owner in (_cptools.Tool, _cptools.HandlerTool, _cprequest.Request, _cprequest.HookMap):
        for n, f in vars(owner).items():
            f = getattr(f, '__func__', f)
            code = getattr(f, '__code__', None)
            if code is not None and n.startswith('_') and not n.startswith('__') and n != '_setargs':
                add(code, '%s.%s' % (owner.__name__, n))
    return out


class Coverage(object):
    def __init__(self):
        self.codes = _codes()
        self.seen = set()
        self.active = False
        self.tool = None

    def start(self):
        mon = getattr(sys, 'monitoring', None)
        if mon is None:
            return False
        for tool in (mon.COVERAGE_ID, mon.PROFILER_ID, 4, 3):
            try:
                mon.use_tool_id(tool, 'c09-anchored-lines')
            except ValueError:
                continue
            self.tool = tool
            break
        if self.tool is None:
            return False
        seen = self.seen

        def on_line(code, line):
            seen.add((code, line))
            return mon.DISABLE
        mon.register_callback(self.tool, mon.events.LINE, on_line)
        for code in self.codes:
            mon.set_local_events(self.tool, code, mon.events.LINE)
        self.active = True
        return True

    def stop(self):
        if not self.active:
            return
        mon = sys.monitoring
        for code in self.codes:
            try:
                mon.set_local_events(self.tool, code, 0)
            except Exception:     # noqa: BLE001
                pass
        mon.register_callback(self.tool, mon.events.LINE, None)
        mon.free_tool_id(self.tool)
        self.active = False

    def missing(self):
        """['file:function:line: source'] of executable lines of the anchored functions never executed."""
        out = []
        for code, name in self.codes.items():
            first = code.co_firstlineno
            lines = sorted({l for _, l in dis.findlinestarts(code) if l is not None and l != first})
            for l in lines:
                if (code, l) in self.seen:
                    continue
                src = linecache.getline(code.co_filename, l).strip()
                if not src or src.startswith(('"""', "'''", '#')):
                    continue
                out.append('%s:%s:%d: %s' % (os.path.basename(code.co_filename), name, l, src[:90]))
        return out
