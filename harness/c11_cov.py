"""C11 - which lines of the anchored functions the run executes.

`sys.monitoring` LINE events restricted to the code objects of the functions the property is anchored in
(static.staticdir / staticfile / _attempt / serve_file, every method of sessions.FileSession); each location
reports once and is then disabled, so the cost is negligible.  Workers return their hits with the results; the
never-executed lines end up in ctx.extra['anchored_lines_not_executed'].
"""
import linecache
import os
import sys
import types

ANCHORED = [
    ('cherrypy.lib.static', ['staticdir', 'staticfile', '_attempt', 'serve_file']),
    ('cherrypy.lib.sessions', ['FileSession']),
]

# lines of an anchored function that no request of this property can or should reach:
# (qualified name, text the line contains, why)
EXCLUDED = [
    ('staticdir', "branch = branch.replace('/', '\\\\')", 'Windows branch'),
    ('serve_file', 'cd = _make_content_disposition(disposition, name)', 'serve_file(disposition=...) is not used by the tools'),
    ('serve_file', 'name = os.path.basename(path)', 'serve_file(disposition=...) is not used by the tools'),
    ('serve_file', "response.headers['Content-Disposition'] = cd", 'serve_file(disposition=...) is not used by the tools'),
    ('serve_file', 'if name is None:', 'serve_file(disposition=...) is not used by the tools'),
]


def _funcs(obj):
    if isinstance(obj, (classmethod, staticmethod)):
        obj = obj.__func__
    if isinstance(obj, property):
        return [f for f in (obj.fget, obj.fset, obj.fdel) if f is not None]
    if isinstance(obj, types.FunctionType):
        return [obj]
    if isinstance(obj, type):
        out = []
        for v in vars(obj).values():
            out += _funcs(v)
        return out
    return []


class Coverage(object):
    def __init__(self):
        import importlib
        self.codes = {}
        self.hit = set()
        self.tid = None
        self.missing_anchors = []
        for modname, names in ANCHORED:
            try:
                mod = importlib.import_module(modname)
            except Exception:
                self.missing_anchors.append(modname)
                continue
            for qn in names:
                obj = getattr(mod, qn, None)
                fs = _funcs(obj)
                if not fs:
                    self.missing_anchors.append('%s.%s' % (modname, qn))
                for f in fs:
                    self._code(f.__code__)

    def _code(self, code):
        if code in self.codes:
            return
        self.codes[code] = True
        for c in code.co_consts:
            if isinstance(c, types.CodeType):
                self._code(c)

    def executable(self):
        out = set()
        self.excluded = {}
        for code in self.codes:
            for _, _, line in code.co_lines():
                if line is None or line == code.co_firstlineno:
                    continue
                text = linecache.getline(code.co_filename, line)
                why = None
                for qn, frag, w in EXCLUDED:
                    if code.co_qualname == qn and frag in text:
                        why = w
                if why is not None:
                    self.excluded[why] = self.excluded.get(why, 0) + 1
                    continue
                out.add((code.co_filename, line, code.co_qualname))
        return out

    def _line(self, code, line):
        self.hit.add((code.co_filename, line))
        return sys.monitoring.DISABLE

    def start(self):
        mon = getattr(sys, 'monitoring', None)
        if mon is None or not self.codes:
            return False
        for tid in (4, 3, 5, 2):
            try:
                mon.use_tool_id(tid, 'c11-cov')
            except ValueError:
                continue
            self.tid = tid
            break
        if self.tid is None:
            return False
        mon.register_callback(self.tid, mon.events.LINE, self._line)
        for code in self.codes:
            mon.set_local_events(self.tid, code, mon.events.LINE)
        return True

    def stop(self):
        if self.tid is None:
            return
        mon = sys.monitoring
        try:
            for code in self.codes:
                mon.set_local_events(self.tid, code, 0)
            mon.register_callback(self.tid, mon.events.LINE, None)
            mon.free_tool_id(self.tid)
        except ValueError:
            pass
        self.tid = None

    def hits(self):
        return sorted(self.hit)

    def add_hits(self, hits):
        for f, l in hits:
            self.hit.add((f, l))

    def report(self, ctx):
        ex = self.executable()
        missed = sorted((f, l, q) for f, l, q in ex if (f, l) not in self.hit)
        lines = []
        for f, l, q in missed:
            src = linecache.getline(f, l).strip()
            rel = f.split(os.sep + 'cherrypy' + os.sep, 1)[-1]
            lines.append('%s:%d %s: %s' % (rel, l, q, src[:100]))
        ctx.extra['anchored_lines_executable'] = len(ex)
        ctx.extra['anchored_lines_executed'] = len(ex) - len(missed)
        ctx.extra['anchored_lines_not_executed'] = lines
        ctx.extra['anchored_lines_out_of_scope'] = dict(sorted(self.excluded.items()))
        if self.missing_anchors:
            ctx.extra['anchored_functions_not_found'] = self.missing_anchors
        ctx.count('anchored_lines_not_executed', len(lines))
        ctx.count('anchored_lines_executable', len(ex))


_current = {'cov': None}


def start():
    """Start (or restart, in a forked worker) the monitor; never raises."""
    try:
        stop()
        cov = Coverage()
        if cov.start():
            _current['cov'] = cov
        return cov
    except Exception:
        return None


def stop():
    cov = _current['cov']
    if cov is not None:
        try:
            cov.stop()
        except Exception:
            pass
    _current['cov'] = None
    return cov
