"""C07 - target resources and the in-process WSGI runner.

One CherryPy application with one total page handler per target resource kind (plain handler, fixed-signature
handler, static dir / static file, RAM + file sessions, caching, basic + digest auth, json_in, multipart
consumer, url-encoded consumer, accept / encode / gzip / etags / decode / proxy tools, MethodDispatcher).
The handlers never fail on any argument the framework can hand them (that is the property's premise), so a
5xx status is the framework's own doing.

`call(case)` builds the WSGI environ a conforming HTTP server would derive from the client bytes described
by `case`, runs the application, and returns the observation: status, and - for a 5xx - the innermost
cherrypy frame and the exception class taken from the live traceback at logging time.
"""
import atexit
import io
import logging
import os
import sys
import tempfile
import shutil

from . import common   # noqa: F401  (sets sys.path for CHERRYPY_REPO before cherrypy is imported)

import cherrypy
from cherrypy.lib import auth_digest

REALM = 'realm'
DIGEST_KEY = 'a565c27146791cfb'
USERS = {'user': 'pw', 'josé': 'seña'}

_state = {}


FIXED_NOW = 1700000000


class _FixedClock(object):
    @staticmethod
    def time():
        return float(FIXED_NOW)


class _Capture(logging.Handler):
    """Error-log handler: remembers the exception being logged (class + innermost cherrypy frame)."""

    def __init__(self):
        logging.Handler.__init__(self, level=0)
        self.seen = []

    def emit(self, record):
        et, ev, tb = sys.exc_info()
        if et is None:
            return
        self.seen.append(describe_exc(et, ev, tb))


def describe_exc(et, ev, tb):
    pkg = os.path.dirname(os.path.abspath(cherrypy.__file__))
    inner = None
    last = None
    while tb is not None:
        co = tb.tb_frame.f_code
        fn = os.path.abspath(co.co_filename)
        last = (os.path.splitext(os.path.basename(fn))[0], co.co_name)
        if fn.startswith(pkg + os.sep):
            rel = os.path.relpath(fn, pkg)
            inner = (os.path.splitext(rel)[0].replace(os.sep, '.'), co.co_name)
        tb = tb.tb_next
    mod, func = inner or last or ('?', '?')
    # a ValueError born inside urllib.parse / ipaddress = urllib refusing the Host-derived netloc
    netloc = et is ValueError and last is not None and last[0] in ('parse', 'ipaddress')
    return {'module': mod, 'function': func, 'exc': et.__name__, 'netloc': netloc,
            'mro': [c.__name__ for c in et.__mro__ if c not in (object, BaseException)],
            'msg': str(ev)[:160]}


def _total(v):
    """What a careful handler does with an argument: look at it without assuming its shape."""
    if isinstance(v, list):
        return sum(_total(x) for x in v)
    f = getattr(v, 'file', None)
    if f is not None:
        try:
            f.seek(0)
            return len(f.read())
        except (OSError, ValueError):
            return 0
    val = getattr(v, 'value', None)
    if isinstance(val, (bytes, str)):
        return len(val)
    if isinstance(v, (bytes, str)):
        return len(v)
    return 1


class Rest(object):
    exposed = True

    def GET(self, *a, **kw):
        return b'get'

    def POST(self, *a, **kw):
        return b'post %d' % sum(_total(v) for v in kw.values())

    def PUT(self, **kw):
        return b'put'


class Root(object):

    @cherrypy.expose
    def index(self, **kw):
        return b'index'

    @cherrypy.expose
    def plain(self, *args, **kw):
        return b'plain %d' % sum(_total(v) for v in kw.values())

    @cherrypy.expose
    def args(self, a, b='x'):
        return b'args'

    @cherrypy.expose
    def form(self, *args, **kw):
        return b'form %d' % sum(_total(v) for v in kw.values())

    @cherrypy.expose
    def upload(self, *args, **kw):
        n = sum(_total(v) for v in kw.values())
        for p in (cherrypy.request.body.parts or []):
            n += _total(p)
        return b'upload %d' % n

    @cherrypy.expose
    def json(self, *args, **kw):
        return {'kind': type(getattr(cherrypy.request, 'json', None)).__name__}

    @cherrypy.expose
    def sess(self, *args, **kw):
        cherrypy.session['n'] = cherrypy.session.get('n', 0) + 1
        return b'sess'

    @cherrypy.expose
    def fsess(self, *args, **kw):
        cherrypy.session['n'] = cherrypy.session.get('n', 0) + 1
        return b'fsess'

    @cherrypy.expose
    def cache(self, *args, **kw):
        return b'cache'

    @cherrypy.expose
    def basic(self, *args, **kw):
        return b'basic'

    @cherrypy.expose
    def digest(self, *args, **kw):
        return b'digest'

    @cherrypy.expose
    def neg(self, *args, **kw):
        return 'héllo € ' * 40

    @cherrypy.expose
    def acc(self, *args, **kw):
        return b'acc'

    @cherrypy.expose
    def gz(self, *args, **kw):
        return b'gz ' * 100

    @cherrypy.expose
    def etag(self, *args, **kw):
        return b'etag body'

    @cherrypy.expose
    def decode(self, *args, **kw):
        return b'decode %d' % sum(_total(v) for v in kw.values())

    @cherrypy.expose
    def proxy(self, *args, **kw):
        return cherrypy.url().encode('utf-8', 'replace')

    @cherrypy.expose
    def autovary(self, *args, **kw):
        cherrypy.request.headers.get('Accept-Language')
        return b'autovary'

    @cherrypy.expose
    def referer(self, *args, **kw):
        return b'referer'

    @cherrypy.expose
    def dir(self, *args, **kw):      # reached as /dir and /dir/ : trailing_slash tool
        return b'dir'

    rest = Rest()


class Dir(object):
    @cherrypy.expose
    def index(self, **kw):
        return b'sub index'


def _get_ha1(realm, username):
    pw = USERS.get(username)
    if pw is None:
        return None
    return auth_digest.md5_hex('%s:%s:%s' % (username, realm, pw))


def _checkpassword(realm, username, password):
    return USERS.get(username) == password


def setup():
    """Build the application once per process."""
    if 'app' in _state:
        return _state
    tmp = tempfile.mkdtemp(prefix='c07-')
    static = os.path.join(tmp, 'static')
    sess = os.path.join(tmp, 'sessions')
    os.makedirs(static)
    os.makedirs(sess)
    with open(os.path.join(static, 'hello.txt'), 'wb') as f:
        f.write(b'0123456789abcdefghijklmnopqrstuvwxyz\n' * 3)
    with open(os.path.join(static, 'index.html'), 'wb') as f:
        f.write(b'<html>index</html>')
    cherrypy.config.update({'environment': 'test_suite', 'log.screen': False,
                            'log.access_file': '', 'log.error_file': ''})
    conf = {
        '/': {'request.show_tracebacks': False},
        '/static': {'tools.staticdir.on': True, 'tools.staticdir.dir': static,
                    'tools.staticdir.index': 'index.html'},
        '/file': {'tools.staticfile.on': True,
                  'tools.staticfile.filename': os.path.join(static, 'hello.txt')},
        '/sess': {'tools.sessions.on': True},
        '/fsess': {'tools.sessions.on': True, 'tools.sessions.storage_class': cherrypy.lib.sessions.FileSession,
                   'tools.sessions.storage_path': sess},
        '/cache': {'tools.caching.on': True, 'tools.caching.antistampede_timeout': 0.001},
        '/basic': {'tools.auth_basic.on': True, 'tools.auth_basic.realm': REALM,
                   'tools.auth_basic.checkpassword': _checkpassword},
        '/digest': {'tools.auth_digest.on': True, 'tools.auth_digest.realm': REALM,
                    'tools.auth_digest.get_ha1': _get_ha1, 'tools.auth_digest.key': DIGEST_KEY},
        '/json': {'tools.json_in.on': True, 'tools.json_out.on': True},
        '/neg': {'tools.accept.on': True, 'tools.accept.media': ['text/html', 'application/json'],
                 'tools.encode.on': True, 'tools.gzip.on': True,
                 'tools.gzip.mime_types': ['text/*', 'application/*+json']},
        '/acc': {'tools.accept.on': True, 'tools.accept.media': ['text/html', 'application/json']},
        '/gz': {'tools.gzip.on': True, 'tools.gzip.mime_types': ['text/*']},
        '/etag': {'tools.etags.on': True, 'tools.etags.autotags': True},
        '/decode': {'tools.decode.on': True},
        '/proxy': {'tools.proxy.on': True},
        '/autovary': {'tools.autovary.on': True},
        '/referer': {'tools.referer.on': True, 'tools.referer.pattern': r'http://[^/]*example\.com',
                     'tools.referer.accept_missing': True},
        '/rest': {'request.dispatch': cherrypy.dispatch.MethodDispatcher()},
    }
    # digest nonces carry a timestamp: a fixed clock for auth_digest keeps every case replayable bit for bit
    auth_digest.time = _FixedClock()
    root = Root()
    root.sub = Dir()
    app = cherrypy.Application(root, '', conf)
    cap = _Capture()
    # failures before the tool hooks exist (process_headers) are not logged by anything: observe the
    # exception where Request.respond hands it to handle_error (harness-side wrapper, code unchanged)
    from cherrypy import _cprequest
    orig_handle_error = _cprequest.Request.handle_error

    def handle_error(self):
        et, ev, tb = sys.exc_info()
        if et is not None:
            cap.seen.append(describe_exc(et, ev, tb))
        return orig_handle_error(self)
    if not getattr(_cprequest.Request.handle_error, '_c07', False):
        handle_error._c07 = True
        _cprequest.Request.handle_error = handle_error
    cherrypy.log.error_log.addHandler(cap)
    app.log.error_log.addHandler(cap)
    cherrypy.log.error_log.propagate = False
    app.log.error_log.propagate = False
    _state.update(app=app, tmp=tmp, static=static, sess=sess, cap=cap, pid=os.getpid())
    atexit.register(teardown)
    return _state


def teardown():
    st = _state
    if st.get('tmp') and st.get('pid') == os.getpid():
        shutil.rmtree(st['tmp'], ignore_errors=True)
    _state.clear()


# headers a server hands over without the HTTP_ prefix
_CGI = {'content-length': 'CONTENT_LENGTH', 'content-type': 'CONTENT_TYPE'}
# cheroot folds repeated comma-separated headers with ", "; for the others the last line wins
_COMMA = {'accept', 'accept-charset', 'accept-encoding', 'accept-language', 'accept-ranges', 'allow',
          'cache-control', 'connection', 'content-encoding', 'content-language', 'expect', 'if-match',
          'if-none-match', 'pragma', 'proxy-authenticate', 'te', 'trailer', 'transfer-encoding', 'upgrade',
          'vary', 'via', 'warning', 'www-authenticate'}


def build_environ(case):
    body = case.get('body', '').encode('latin-1')
    env = {
        'REQUEST_METHOD': case['method'],
        'SCRIPT_NAME': '',
        'PATH_INFO': case['path'],
        'QUERY_STRING': case.get('qs', ''),
        'SERVER_PROTOCOL': case.get('proto', 'HTTP/1.1'),
        'SERVER_NAME': 'localhost', 'SERVER_PORT': '8080', 'REMOTE_ADDR': '127.0.0.1',
        'REMOTE_PORT': '40000', 'ACTUAL_SERVER_PROTOCOL': 'HTTP/1.1',
        'wsgi.version': (1, 0), 'wsgi.url_scheme': 'http', 'wsgi.input': io.BytesIO(body),
        'wsgi.errors': io.StringIO(), 'wsgi.multithread': False, 'wsgi.multiprocess': False,
        'wsgi.run_once': False,
    }
    for name, value in case.get('headers', []):
        low = name.lower()
        key = _CGI.get(low) or ('HTTP_' + name.upper().replace('-', '_'))
        if key in env and low in _COMMA:
            env[key] = env[key] + ', ' + value
        else:
            env[key] = value
    return env


def call(case):
    """Run one request; returns {'status': int, 'exc': {...}|None, 'escaped': bool}."""
    st = setup()
    cap = st['cap']
    del cap.seen[:]
    env = build_environ(case)
    got = {}

    def start_response(status, headers, exc_info=None):
        got['status'] = status
        got['headers'] = headers
        return lambda data: None

    escaped = None
    try:
        it = st['app'](env, start_response)
        try:
            for chunk in it:
                pass
        finally:
            if hasattr(it, 'close'):
                it.close()
    except Exception:
        escaped = describe_exc(*sys.exc_info())
    status = None
    if 'status' in got:
        try:
            status = int(got['status'][:3])
        except ValueError:
            status = None
    if escaped is not None or status is None:
        return {'status': 599, 'exc': escaped or (cap.seen[-1] if cap.seen else None), 'escaped': True}
    exc = None
    if status >= 500:
        exc = cap.seen[-1] if cap.seen else None
    return {'status': status, 'exc': exc, 'escaped': False}


def signature(obs):
    e = obs.get('exc')
    if not e:
        return 'unknown:unknown:status%s' % obs.get('status')
    sig = '%s:%s:%s' % (e['module'], e['function'], e['exc'])
    # urllib's complaints about the Host-derived netloc get their own mark, so that any other ValueError raised
    # in the same function is a different signature
    if e.get('netloc'):
        sig += ':netloc'
    return sig
