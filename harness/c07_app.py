"""C07 - target resources and the in-process WSGI runner.

One CherryPy application with one total page handler per target resource kind (plain handler, fixed-signature
handler, static dir / static file, RAM + file sessions, caching, basic + digest auth, json_in, multipart
consumer, url-encoded consumer, accept / encode / gzip / etags / decode / proxy tools, MethodDispatcher).
The handlers never fail on any argument the framework can hand them (that is the property's premise), so a
5xx status is the framework's own doing.

`call(case)` builds the WSGI environ a conforming HTTP server would derive from the client bytes described
by `case`, runs the application, and returns the observation: status, and - for a 5xx - the innermost
cherrypy frame and the exception class taken from the live traceback at logging time.
"""
import atexit
import io
import logging
import os
import re
import sys
import tempfile
import shutil

from . import common   # noqa: F401  (sets sys.path for CHERRYPY_REPO before cherrypy is imported)

import cherrypy
from cherrypy.lib import auth_digest

REALM = 'realm'
DIGEST_KEY = 'a565c27146791cfb'
USERS = {'user': 'pw', 'josé': 'seña'}

_state = {}


FIXED_NOW = 1700000000


class _FixedClock(object):
    @staticmethod
    def time():
        return float(FIXED_NOW)


class _Capture(logging.Handler):
    """Error-log handler: remembers the exception being logged (class + innermost cherrypy frame)."""

    def __init__(self):
        logging.Handler.__init__(self, level=0)
        self.seen = []

    def emit(self, record):
        et, ev, tb = sys.exc_info()
        if et is None:
            return
        self.seen.append(describe_exc(et, ev, tb))


def describe_exc(et, ev, tb):
    pkg = os.path.dirname(os.path.abspath(cherrypy.__file__))
    inner = None
    last = None
    last_file = None
    while tb is not None:
        co = tb.tb_frame.f_code
        fn = os.path.abspath(co.co_filename)
        last = (os.path.splitext(os.path.basename(fn))[0], co.co_name)
        last_file = fn
        if fn.startswith(pkg + os.sep):
            rel = os.path.relpath(fn, pkg)
            inner = (os.path.splitext(rel)[0].replace(os.sep, '.'), co.co_name)
        tb = tb.tb_next
    mod, func = inner or last or ('?', '?')
    # a ValueError born inside urllib.parse / ipaddress = urllib refusing the Host-derived netloc
    netloc = et is ValueError and last is not None and last[0] in ('parse', 'ipaddress')
    # an exception born inside the server's reader object (wsgi.input of cheroot: malformed chunked framing, size limit)
    rfile = last_file is not None and (os.sep + 'cheroot' + os.sep) in last_file
    # text with a lone surrogate (decoded from an RFC 2047 word in utf-7 / unicode_escape) that something - error page,
    # response header, access log - tries to encode again
    surrogate = issubclass(et, UnicodeEncodeError) and getattr(ev, 'reason', '') == 'surrogates not allowed'
    return {'module': mod, 'function': func, 'exc': et.__name__, 'netloc': netloc, 'rfile': rfile, 'surrogate': surrogate,
            'mro': [c.__name__ for c in et.__mro__ if c not in (object, BaseException)],
            'msg': str(ev)[:160]}


def _total(v):
    """What a careful handler does with an argument: look at it without assuming its shape."""
    if isinstance(v, list):
        return sum(_total(x) for x in v)
    f = getattr(v, 'file', None)
    if f is not None:
        try:
            f.seek(0)
            return len(f.read())
        except (OSError, ValueError):
            return 0
    val = getattr(v, 'value', None)
    if isinstance(val, (bytes, str)):
        return len(val)
    if isinstance(v, (bytes, str)):
        return len(v)
    return 1


class Rest(object):
    exposed = True

    def GET(self, *a, **kw):
        return b'get'

    def POST(self, *a, **kw):
        return b'post %d' % sum(_total(v) for v in kw.values())

    def PUT(self, **kw):
        return b'put'


class Root(object):

    @cherrypy.expose
    def index(self, **kw):
        return b'index'

    @cherrypy.expose
    def plain(self, *args, **kw):
        return b'plain %d' % sum(_total(v) for v in kw.values())

    @cherrypy.expose
    def args(self, a, b='x'):
        return b'args'

    @cherrypy.expose
    def raw(self, *args, **kw):
        """A handler that reads the request entity itself, the three ways the API offers."""
        body = cherrypy.request.body
        mode = kw.get('mode')
        if isinstance(mode, list):
            mode = mode[0]
        if cherrypy.request.method not in cherrypy.request.methods_with_bodies:
            return b'raw: no entity'       # (the reader API is for requests whose entity was processed)
        if mode == 'lines':
            n = sum(len(x) for x in body.fp.readlines())
        elif mode == 'hint':
            n = sum(len(x) for x in body.fp.readlines(10))
        elif mode == 'line':
            n = len(body.fp.readline()) + len(body.fp.readline(5)) + len(body.fp.read())
        elif mode == 'file':
            f = body.read_into_file()
            f.seek(0)
            n = len(f.read())
        else:
            n = len(body.fp.read(3) or b'') + len(body.fp.read() or b'')
        return b'raw %d' % n

    @cherrypy.expose
    def enc(self, *args, **kw):          # tools.encode over a text body every charset of the fallback chain can encode
        return 'h\xe9llo ' * 4

    @cherrypy.expose
    def limit(self, *args, **kw):        # request.body.maxbytes = 1000
        return b'limit %d' % sum(_total(v) for v in kw.values())

    @cherrypy.expose
    def lcache(self, *args, **kw):       # a cached resource whose response carries validators
        cherrypy.response.headers['Last-Modified'] = 'Sun, 06 Nov 1994 08:49:37 GMT'
        return b'lcache'

    @cherrypy.expose
    def noargs(self):
        return b'noargs'

    @cherrypy.expose
    def kwonly(self, a, *, k='d'):
        return b'kwonly'

    @cherrypy.expose
    def form(self, *args, **kw):
        return b'form %d' % sum(_total(v) for v in kw.values())

    @cherrypy.expose
    def upload(self, *args, **kw):
        n = sum(_total(v) for v in kw.values())
        for p in (cherrypy.request.body.parts or []):
            n += _total(p)
        return b'upload %d' % n

    @cherrypy.expose
    def json(self, *args, **kw):
        return {'kind': type(getattr(cherrypy.request, 'json', None)).__name__}

    @cherrypy.expose
    def sess(self, *args, **kw):
        cherrypy.session['n'] = cherrypy.session.get('n', 0) + 1
        return b'sess'

    @cherrypy.expose
    def fsess(self, *args, **kw):
        cherrypy.session['n'] = cherrypy.session.get('n', 0) + 1
        return b'fsess'

    @cherrypy.expose
    def cache(self, *args, **kw):
        return b'cache'

    @cherrypy.expose
    def basic(self, *args, **kw):
        return b'basic'

    @cherrypy.expose
    def digest(self, *args, **kw):
        return b'digest'

    @cherrypy.expose
    def neg(self, *args, **kw):
        return 'héllo € ' * 40

    @cherrypy.expose
    def acc(self, *args, **kw):
        return b'acc'

    @cherrypy.expose
    def gz(self, *args, **kw):
        return b'gz ' * 100

    @cherrypy.expose
    def etag(self, *args, **kw):
        return b'etag body'

    @cherrypy.expose
    def decode(self, *args, **kw):
        return b'decode %d' % sum(_total(v) for v in kw.values())

    @cherrypy.expose
    def proxy(self, *args, **kw):
        return cherrypy.url().encode('utf-8', 'replace')

    @cherrypy.expose
    def autovary(self, *args, **kw):
        cherrypy.request.headers.get('Accept-Language')
        return b'autovary'

    @cherrypy.expose
    def referer(self, *args, **kw):
        return b'referer'

    @cherrypy.expose
    def dir(self, *args, **kw):      # reached as /dir and /dir/ : trailing_slash tool
        return b'dir'

    # ---- resources that reflect request data into response headers (what a careful application does with
    # ---- decoded client data: look at it, drop control characters, hand it to the framework's own API)
    @cherrypy.expose
    def redir(self, *args, **kw):
        """HTTPRedirect to a request-derived, relative URL."""
        to = _careful(kw.get('to'), url=True)
        if to is None:
            to = _careful(cherrypy.request.headers.get('X-Next'), url=True)
        if to is None:
            raise cherrypy.HTTPRedirect('/plain')
        raise cherrypy.HTTPRedirect('/plain/' + to, status=_redirect_status(kw.get('status')))

    @cherrypy.expose
    def echo(self, *args, **kw):
        """Decoded query/body parameters, request headers and cookies echoed in response headers / cookies."""
        resp = cherrypy.response
        req = cherrypy.request
        n = 0
        for k in sorted(kw, key=repr)[:4]:
            v = _careful(kw[k])
            if v is not None:
                resp.headers['X-Echo-%d' % n] = v
                n += 1
        for name in ('X-Custom', 'User-Agent', 'Referer', 'Accept-Language', 'Origin', 'From'):
            v = _careful(req.headers.get(name))
            if v is not None:
                resp.headers['X-Seen-' + name] = v
        for name in sorted(req.cookie.keys(), key=repr)[:3]:
            v = _careful(req.cookie[name].value)
            if v is not None:
                resp.cookie['seen'] = v
                resp.cookie['seen']['path'] = '/'
        return b'echo'

    @cherrypy.expose
    def tsx(self, *args, **kw):      # tools.trailing_slash.extra: /tsx/<anything>/ is redirected to /tsx/<anything>
        return b'tsx'

    @cherrypy.expose
    def stream(self, *args, **kw):
        def content():
            yield b'chunk one '
            yield b'chunk two'
        return content()
    stream._cp_config = {'response.stream': True}

    @cherrypy.expose
    def gzstream(self, *args, **kw):     # tools.gzip + tools.etags over a streamed body
        def content():
            for i in range(5):
                yield b'line %d of a streamed body\n' % i
        return content()
    gzstream._cp_config = {'response.stream': True}

    @cherrypy.expose
    def combo(self, *args, **kw):
        cherrypy.session['n'] = cherrypy.session.get('n', 0) + 1
        if kw.get('regen'):
            cherrypy.session.regenerate()
        return 'combo ' + 'h\xe9llo \u20ac ' * 30

    @cherrypy.expose
    def vhost(self, *args, **kw):
        return b'vhost'

    rest = Rest()


def _careful(v, url=False):
    """Client text as a careful handler passes it on: a str without control characters, of bounded length, and -
    where it becomes part of a URL - without the characters that delimit URL components."""
    if isinstance(v, list):
        v = v[0] if v else None
    if not isinstance(v, str) or not v:
        return None
    bad = set('/?#[]@:\\ "<>%') if url else set()
    # (no control characters, no lone surrogates: text that can be written down again)
    v = ''.join(c for c in v if ord(c) >= 32 and ord(c) != 127 and not 0xD800 <= ord(c) <= 0xDFFF and c not in bad)[:200]
    return v or None


def _redirect_status(v):
    if isinstance(v, str) and v in ('300', '301', '302', '303', '307', '308'):
        return int(v)
    return None


class Dir(object):
    @cherrypy.expose
    def index(self, **kw):
        return b'sub index'


class CallableHandler(object):
    """A page handler that is an object with __call__ (fixed signature)."""
    exposed = True

    def __call__(self, a, b='x'):
        return b'obj'


def _takes_debug(toolname):
    import inspect
    tool = getattr(cherrypy.tools, toolname, None)
    fn = getattr(tool, 'callable', None)
    if isinstance(fn, type):
        return hasattr(fn, 'debug')
    try:
        return fn is not None and 'debug' in inspect.signature(fn).parameters
    except (TypeError, ValueError):
        return False


def debug_twin(conf):
    """The same resources once more under /d, every enabled tool with `debug: True` (the tools then format
    what the client sent into log lines: configuration dimension of the statement)."""
    out = {}
    for section, opts in conf.items():
        if section == '/':
            continue
        twin = dict(opts)
        for k in opts:
            parts = k.split('.')
            if len(parts) == 3 and parts[0] == 'tools' and parts[2] == 'on' and _takes_debug(parts[1]):
                twin['tools.%s.debug' % parts[1]] = True
        out['/d' + section] = twin
    out['/d'] = {'tools.trailing_slash.debug': True}
    out['/d/tsx']['tools.trailing_slash.debug'] = True
    return out


def _get_ha1(realm, username):
    pw = USERS.get(username)
    if pw is None:
        return None
    return auth_digest.md5_hex('%s:%s:%s' % (username, realm, pw))


def _checkpassword(realm, username, password):
    return USERS.get(username) == password


def setup():
    """Build the application once per process."""
    if 'app' in _state:
        return _state
    tmp = tempfile.mkdtemp(prefix='c07-')
    static = os.path.join(tmp, 'static')
    sess = os.path.join(tmp, 'sessions')
    os.makedirs(static)
    os.makedirs(sess)
    with open(os.path.join(static, 'hello.txt'), 'wb') as f:
        f.write(b'0123456789abcdefghijklmnopqrstuvwxyz\n' * 3)
    with open(os.path.join(static, 'index.html'), 'wb') as f:
        f.write(b'<html>index</html>')
    cherrypy.config.update({'environment': 'test_suite', 'log.screen': False,
                            'log.access_file': '', 'log.error_file': ''})
    conf = {
        '/': {'request.show_tracebacks': False},
        '/static': {'tools.staticdir.on': True, 'tools.staticdir.dir': static,
                    'tools.staticdir.index': 'index.html'},
        '/file': {'tools.staticfile.on': True,
                  'tools.staticfile.filename': os.path.join(static, 'hello.txt')},
        '/sess': {'tools.sessions.on': True},
        '/fsess': {'tools.sessions.on': True, 'tools.sessions.storage_class': cherrypy.lib.sessions.FileSession,
                   'tools.sessions.storage_path': sess},
        '/cache': {'tools.caching.on': True, 'tools.caching.antistampede_timeout': 0.001},
        '/basic': {'tools.auth_basic.on': True, 'tools.auth_basic.realm': REALM,
                   'tools.auth_basic.checkpassword': _checkpassword},
        '/digest': {'tools.auth_digest.on': True, 'tools.auth_digest.realm': REALM,
                    'tools.auth_digest.get_ha1': _get_ha1, 'tools.auth_digest.key': DIGEST_KEY},
        '/json': {'tools.json_in.on': True, 'tools.json_out.on': True},
        '/neg': {'tools.accept.on': True, 'tools.accept.media': ['text/html', 'application/json'],
                 'tools.encode.on': True, 'tools.gzip.on': True,
                 'tools.gzip.mime_types': ['text/*', 'application/*+json']},
        '/acc': {'tools.accept.on': True, 'tools.accept.media': ['text/html', 'application/json']},
        '/gz': {'tools.gzip.on': True, 'tools.gzip.mime_types': ['text/*']},
        '/etag': {'tools.etags.on': True, 'tools.etags.autotags': True},
        '/decode': {'tools.decode.on': True},
        '/proxy': {'tools.proxy.on': True},
        '/autovary': {'tools.autovary.on': True},
        '/referer': {'tools.referer.on': True, 'tools.referer.pattern': r'http://[^/]*example\.com',
                     'tools.referer.accept_missing': True},
        '/rest': {'request.dispatch': cherrypy.dispatch.MethodDispatcher()},
        '/tsx': {'tools.trailing_slash.extra': True},
        '/limit': {'request.body.maxbytes': 1000},
        '/enc': {'tools.encode.on': True},
        '/gzstream': {'tools.gzip.on': True, 'tools.gzip.mime_types': ['text/*'], 'tools.etags.on': True,
                      'tools.etags.autotags': True},
        '/lcache': {'tools.caching.on': True, 'tools.caching.antistampede_timeout': 0.001, 'tools.etags.on': True,
                    'tools.etags.autotags': True},
        '/szip': {'tools.staticdir.on': True, 'tools.staticdir.dir': static, 'tools.staticdir.index': 'index.html',
                  'tools.gzip.on': True, 'tools.gzip.mime_types': ['text/*'], 'tools.encode.on': True,
                  'tools.etags.on': True},
        '/psub': {'tools.proxy.on': True},
        '/osub': {'tools.proxy.on': True, 'tools.proxy.local': 'Origin', 'tools.proxy.scheme': 'X-Forwarded-Ssl'},
        '/combo': {'tools.sessions.on': True, 'tools.proxy.on': True, 'tools.accept.on': True,
                   'tools.accept.media': ['text/html', 'text/plain'], 'tools.encode.on': True,
                   'tools.gzip.on': True, 'tools.gzip.mime_types': ['text/*'], 'tools.etags.on': True,
                   'tools.etags.autotags': True, 'tools.expires.on': True,
                   'tools.expires.secs': 0, 'tools.expires.force': True, 'tools.allow.on': True,
                   'tools.allow.methods': ['GET', 'HEAD', 'POST'], 'tools.response_headers.on': True,
                   'tools.response_headers.headers': [('X-Static', 'v')], 'tools.ignore_headers.on': True,
                   'tools.ignore_headers.headers': ('X-Ignore',), 'tools.log_headers.on': True},
        '/vhost': {'request.dispatch': cherrypy.dispatch.VirtualHost(
            **{'one.example': '/plain', 'two.example:8080': '/sub', 'localhost:8080': ''})},
    }
    conf.update(debug_twin(conf))
    conf['/d/fsess']['tools.sessions.storage_path'] = sess
    # digest nonces carry a timestamp: a fixed clock for auth_digest keeps every case replayable bit for bit
    auth_digest.time = _FixedClock()
    root = Root()
    root.d = Root()
    for r in (root, root.d):
        r.sub = Dir()
        r.psub = Dir()
        r.osub = Dir()
        r.obj = CallableHandler()
    app = cherrypy.Application(root, '', conf)
    cap = _Capture()
    # failures before the tool hooks exist (process_headers) are not logged by anything: observe the
    # exception where Request.respond hands it to handle_error (harness-side wrapper, code unchanged)
    from cherrypy import _cprequest
    orig_handle_error = _cprequest.Request.handle_error

    def handle_error(self):
        et, ev, tb = sys.exc_info()
        if et is not None:
            cap.seen.append(describe_exc(et, ev, tb))
        return orig_handle_error(self)
    if not getattr(_cprequest.Request.handle_error, '_c07', False):
        handle_error._c07 = True
        _cprequest.Request.handle_error = handle_error
    cherrypy.log.error_log.addHandler(cap)
    app.log.error_log.addHandler(cap)
    cherrypy.log.error_log.propagate = False
    app.log.error_log.propagate = False
    _state.update(app=app, tmp=tmp, static=static, sess=sess, cap=cap, pid=os.getpid())
    atexit.register(teardown)
    return _state


def teardown():
    st = _state
    if st.get('tmp') and st.get('pid') == os.getpid():
        shutil.rmtree(st['tmp'], ignore_errors=True)
    _state.clear()


# headers a server hands over without the HTTP_ prefix
_CGI = {'content-length': 'CONTENT_LENGTH', 'content-type': 'CONTENT_TYPE'}
# cheroot folds repeated comma-separated headers with ", "; for the others the last line wins
_COMMA = {'accept', 'accept-charset', 'accept-encoding', 'accept-language', 'accept-ranges', 'allow',
          'cache-control', 'connection', 'content-encoding', 'content-language', 'expect', 'if-match',
          'if-none-match', 'pragma', 'proxy-authenticate', 'te', 'trailer', 'transfer-encoding', 'upgrade',
          'vary', 'via', 'warning', 'www-authenticate'}


class _InjectingReader(object):
    """wsgi.input whose read methods call `hook` (fault injection at the server's reader object)."""

    def __init__(self, hook):
        self.hook = hook

    def read(self, size=None):
        return self.hook()

    def readline(self, size=None):
        return self.hook()

    def readlines(self, hint=None):
        return self.hook()

    def close(self):
        pass


def make_input(case, body, headers):
    """wsgi.input: a plain byte stream, or - `rfile` - what CherryPy's own server (cheroot) hands over: a
    KnownLengthRFile limited to the declared length, or a ChunkedRFile de-chunking the raw wire bytes (with the
    server's body size limit `maxlen`)."""
    kind = case.get('rfile')
    if kind == 'inject':
        return _InjectingReader(case['_hook'])
    if kind in ('known', 'chunked'):
        try:
            import cheroot.server as cs
            raw = io.BufferedReader(io.BytesIO(body))
            if kind == 'chunked':
                return cs.ChunkedRFile(raw, int(case.get('maxlen') or 0))
            cl = dict((k.lower(), v) for k, v in headers).get('content-length', '')
            if cl.isascii() and cl.isdigit() and len(cl) < 19:
                return cs.KnownLengthRFile(raw, int(cl))
        except ImportError:
            pass
    return io.BytesIO(body)


def build_environ(case):
    body = case.get('body', '').encode('latin-1')
    env = {
        'REQUEST_METHOD': case['method'],
        'SCRIPT_NAME': '',
        'PATH_INFO': case['path'],
        'QUERY_STRING': case.get('qs', ''),
        'SERVER_PROTOCOL': case.get('proto', 'HTTP/1.1'),
        'SERVER_NAME': 'localhost', 'SERVER_PORT': '8080', 'REMOTE_ADDR': '127.0.0.1',
        'REMOTE_PORT': '40000', 'ACTUAL_SERVER_PROTOCOL': 'HTTP/1.1',
        'wsgi.version': (1, 0), 'wsgi.url_scheme': 'http', 'wsgi.input': io.BytesIO(body),
        'wsgi.errors': io.StringIO(), 'wsgi.multithread': False, 'wsgi.multiprocess': False,
        'wsgi.run_once': False,
    }
    for name, value in case.get('headers', []):
        low = name.lower()
        key = _CGI.get(low) or ('HTTP_' + name.upper().replace('-', '_'))
        if key in env and low in _COMMA:
            env[key] = env[key] + ', ' + value
        else:
            env[key] = value
    if case.get('rfile'):
        env['wsgi.input'] = make_input(case, body, case.get('headers', []))
    return env


class _Hang(BaseException):
    """Raised by the per-request alarm: the code under test did not answer within REQUEST_TIMEOUT seconds."""


REQUEST_TIMEOUT = 60
HANG = {'n': 0}      # requests that did not answer; after the first the timeout shrinks, after six nothing more is run


def _on_alarm(signum, frame):
    raise _Hang()


SKIPPED = 'skip:hang'      # what `guarded` returns once the code under test has hung six times: not run, not judged


def guarded(fn, default='err:Hang'):
    """Call the code under test directly (a parser function, not a whole request) under the same alarm as requests:
    a function that does not return is an observation (`default`), counted like a request that hangs."""
    import signal
    import threading
    if HANG['n'] >= 6:
        return SKIPPED
    if threading.current_thread() is not threading.main_thread():
        return fn()
    old = signal.signal(signal.SIGALRM, _on_alarm)
    signal.setitimer(signal.ITIMER_REAL, globals()['REQUEST_TIMEOUT'])
    try:
        return fn()
    except _Hang:
        HANG['n'] += 1
        globals()['REQUEST_TIMEOUT'] = 3
        return default
    finally:
        signal.setitimer(signal.ITIMER_REAL, 0)
        signal.signal(signal.SIGALRM, old)


def call(case):
    """Run one request; returns {'status': int, 'exc': {...}|None, 'escaped': bool, 'headers': [...], 'malformed': str|None}.

    Whatever the code under test does (raise out of the WSGI callable, never call start_response, hand over
    something that is not a header list, hang) is an observation, not a harness error."""
    import signal
    st = setup()
    cap = st['cap']
    del cap.seen[:]
    hang_obs = {'status': 598, 'exc': {'module': 'harness', 'function': 'timeout', 'exc': 'Hang', 'mro': [], 'netloc': False,
                                       'msg': 'no answer within %ds' % REQUEST_TIMEOUT}, 'escaped': True, 'headers': [],
                'malformed': None}
    if HANG['n'] >= 6:
        # the verdict has its failing inputs; what is not run is not judged
        return {'status': 200, 'skipped': True, 'exc': None, 'escaped': False, 'headers': [], 'malformed': None}
    env = build_environ(case)
    got = {'calls': 0}

    def start_response(status, headers, exc_info=None):
        got['calls'] += 1
        got['status'] = status
        got['headers'] = headers
        return lambda data: None

    escaped = None
    chunks_ok = True
    nbody = 0
    use_alarm = False
    try:
        import threading
        use_alarm = threading.current_thread() is threading.main_thread()
    except Exception:
        use_alarm = False
    if use_alarm:
        old = signal.signal(signal.SIGALRM, _on_alarm)
        signal.setitimer(signal.ITIMER_REAL, globals()['REQUEST_TIMEOUT'])
    try:
        try:
            it = st['app'](env, start_response)
            try:
                for chunk in it:
                    if not isinstance(chunk, bytes):
                        chunks_ok = False
                    else:
                        nbody += len(chunk)
            finally:
                if hasattr(it, 'close'):
                    it.close()
        except _Hang:
            HANG['n'] += 1
            globals()['REQUEST_TIMEOUT'] = 3
            return hang_obs
        except (Exception, SystemExit):      # whatever comes out of the WSGI callable is an observation
            escaped = describe_exc(*sys.exc_info())
    finally:
        if use_alarm:
            signal.setitimer(signal.ITIMER_REAL, 0)
            signal.signal(signal.SIGALRM, old)
    status = None
    if 'status' in got:
        try:
            status = int(str(got['status'])[:3])
        except ValueError:
            status = None
    if escaped is not None or status is None:
        return {'status': 599, 'exc': escaped or (cap.seen[-1] if cap.seen else None), 'escaped': True,
                'headers': [], 'malformed': None}
    exc = None
    if status >= 500:
        exc = cap.seen[-1] if cap.seen else None
    headers, malformed = _wellformed(got, chunks_ok, nbody, case)
    return {'status': status, 'exc': exc, 'escaped': False, 'headers': headers, 'malformed': malformed}


def _wellformed(got, chunks_ok, nbody, case):
    """The response as far as the WSGI / HTTP framing goes (what the statement's "answered with" presupposes):
    a status line `NNN reason`, a list of (str, str) header pairs a server can put on the wire (Latin-1, no
    CR/LF/NUL), bytes chunks.  Returns (headers as list of pairs, None | description of the first defect)."""
    bad = None
    status = got.get('status')
    hdrs = got.get('headers')
    out = []
    if not isinstance(status, str) or len(status) < 4 or not status[:3].isdigit() or status[3] != ' ':
        bad = 'status line %r' % (status,)
    if not isinstance(hdrs, list):
        return out, bad or 'headers are %s' % type(hdrs).__name__
    for item in hdrs:
        if not (isinstance(item, tuple) and len(item) == 2 and isinstance(item[0], str) and isinstance(item[1], str)):
            bad = bad or 'header item %r' % (item,)
            continue
        k, v = item
        out.append([k, v])
        try:
            k.encode('latin-1')
            v.encode('latin-1')
        except UnicodeEncodeError:
            bad = bad or 'header %s not Latin-1' % k
        if not k or any(c in k for c in '\r\n\x00: ') or any(c in v for c in '\r\n\x00'):
            bad = bad or 'header %s carries CR/LF/NUL' % k
    if not chunks_ok:
        bad = bad or 'body chunk that is not bytes'
    return out, bad


# ----------------------------------------------------------------------------------------------
# multi-step cases: earlier requests of the same client, what it learns from their responses
# ----------------------------------------------------------------------------------------------
def captures(headers, caps):
    """What a client remembers from a response: digest challenge, session cookie, validators."""
    import re
    for k, v in headers:
        low = k.lower()
        if low == 'www-authenticate' and v[:6].lower() == 'digest':
            for name in ('realm', 'nonce', 'qop', 'algorithm', 'opaque'):
                m = re.search(r'\b%s="([^"]*)"' % name, v)
                if m:
                    caps[name] = m.group(1)
        elif low == 'set-cookie':
            m = re.match(r'\s*session_id=([^;]*)', v)
            if m:
                caps['sid'] = m.group(1)
        elif low == 'etag':
            caps['etag'] = v
            caps['etagbare'] = v[2:].strip('"') if v.startswith('W/') else v.strip('"')
        elif low == 'last-modified':
            caps['lastmod'] = v
        elif low == 'location':
            caps['location'] = v
    return caps


DEFAULT_CAPS = {'realm': REALM, 'nonce': '0:0', 'qop': 'auth', 'algorithm': 'MD5', 'opaque': '', 'sid': '0' * 40,
                'etag': '"0"', 'etagbare': '0', 'lastmod': 'Thu, 01 Jan 1970 00:00:00 GMT', 'location': '/'}


def fill(text, caps):
    if '{{' not in text:
        return text
    for k, v in caps.items():
        text = text.replace('{{%s}}' % k, v)
    return text


def resolve(case, caps):
    """The request as sent: placeholders filled with what the client learned, digest credentials computed."""
    from . import c07_gen as gen
    c = dict(case)
    c['qs'] = fill(case.get('qs', ''), caps)
    c['path'] = fill(case['path'], caps)
    hs = []
    for h in case.get('headers', []):
        v = fill(h[1], caps)
        if len(h) > 2 and h[2] in ('b', 'q'):
            v = gen.word(v, h[2])             # the value travels as one RFC 2047 encoded word
        hs.append([h[0], gen.sanitize(v)])
    spec = case.get('digest')
    if spec:
        uri = c['path'] + ('?' + c['qs'] if c['qs'] else '')
        hs.append(['Authorization', gen.sanitize(gen.build_digest(spec, caps, c['method'], uri))])
    c['headers'] = hs
    return c


def run_steps(case):
    """Run the earlier requests of the case (`pre`), then the case itself.  Returns (observation of the last
    request, list of observations of the earlier ones, the request as actually sent)."""
    caps = dict(DEFAULT_CAPS)
    pre_obs = []
    clock0 = auth_digest.time
    try:
        for step in case.get('pre', []):
            o = call(resolve(step, caps))
            captures(o.get('headers') or [], caps)
            pre_obs.append(o)
        adv = case.get('clock')
        if adv:
            class _Later(object):
                @staticmethod
                def time():
                    return float(FIXED_NOW + adv)
            auth_digest.time = _Later()
        sent = resolve(case, caps)
        return call(sent), pre_obs, sent
    finally:
        auth_digest.time = clock0


def signature(obs):
    e = obs.get('exc')
    if not e:
        return 'unknown:unknown:status%s' % obs.get('status')
    sig = '%s:%s:%s' % (e['module'], e['function'], e['exc'])
    if e.get('surrogate'):
        # wherever the text was being encoded: the defect is that it got in (K12)
        return 'surrogate:%s' % e['exc']
    if e.get('rfile'):
        # whichever SizedReader method was reading: the exception is the server reader's (K7)
        return 'rfile:cheroot:%s' % e['exc']
    # urllib's complaints about the Host-derived netloc get their own mark, so that any other ValueError raised
    # in the same function is a different signature
    if e.get('netloc'):
        sig += ':netloc'
    # Python refusing a keyword argument named like the bound first argument of the page handler (K6); any other
    # TypeError out of the dispatcher is a different signature
    if e['exc'] == 'TypeError' and e['function'] == '__call__' and e['module'] == '_cpdispatch' \
            and re.search(r"got multiple values for argument 'self'$", e.get('msg') or ''):
        sig += ':bound-arg'
    return sig
