"""C13 (c): request-level fault plans through in-process WSGI with the sessions tool on.

A *plan* is a dict
  {'kind': 'req', 'mode': implicit|early|explicit, 'file': bool, 'acts': [touch|acquire|release|regen…],
   'afterReq': bool (an engine listener on 'after_request' raises while the request is released),
   'out': ok|http|redirect|exc, 'stream': bool, 'gen': bool, 'genTouch': bool, 'genRaise': bool,
   'consume': full|abandon, 'saveFails': bool, 'oer': ok|http|redirect|exc,
   'brb' / 'bh' / 'bf' / 'eer': [[prio, failsafe, out]…]}        (user hooks)

`run_plan` creates a session with a first plain request, then runs the planned request with that
cookie and records `(point, Session.locked, lock held by this request)` at handler entry (H), when
the application call has returned and the server is about to send the body (B) and after
`close()` (E); finally it inspects every lock object / lock file the request could have touched.
"""
from __future__ import annotations

import io
import os
import shutil
import tempfile
import threading

from . import common
from . import c13_sched as S

_state = {}


def _classes():
    """Storage classes with a fault switch (`_save` raises when the data say so): public
    extension point `tools.sessions.storage_class`."""
    if 'ram' in _state:
        return _state['ram'], _state['file']
    from cherrypy.lib import sessions

    def _maybe_fail_release(self):
        # a transient failure of the lock layer: the FIRST release attempt of this request raises
        # before anything is released
        _state['release_attempts'] = _state.get('release_attempts', 0) + 1
        if self._data.get('boomrel') and not getattr(self, '_rel_failed', False):
            self._rel_failed = True
            raise IOError('lock layer failure (planned)')

    class FaultyRam(sessions.RamSession):
        def _save(self, expiration_time):
            if self._data.get('boom'):
                raise IOError('storage failure (planned)')
            return sessions.RamSession._save(self, expiration_time)

        def release_lock(self):
            _maybe_fail_release(self)
            return sessions.RamSession.release_lock(self)

    class FaultyFile(sessions.FileSession):
        def _save(self, expiration_time):
            if self._data.get('boom'):
                raise IOError('storage failure (planned)')
            return sessions.FileSession._save(self, expiration_time)

        def release_lock(self, path=None):
            _maybe_fail_release(self)
            return sessions.FileSession.release_lock(self, path)

    _state['ram'], _state['file'] = FaultyRam, FaultyFile
    return FaultyRam, FaultyFile


class _Planned(Exception):
    pass


def _raise(out):
    import cherrypy
    if out == 'http':
        raise cherrypy.HTTPError(418, 'planned')
    if out == 'redirect':
        raise cherrypy.HTTPRedirect('/elsewhere')
    if out == 'exc':
        raise _Planned('planned')


def _environ(path, cookie=None):
    env = {
        'REQUEST_METHOD': 'GET', 'SCRIPT_NAME': '', 'PATH_INFO': path, 'QUERY_STRING': '',
        'SERVER_NAME': 'localhost', 'SERVER_PORT': '80', 'SERVER_PROTOCOL': 'HTTP/1.1',
        'wsgi.version': (1, 0), 'wsgi.url_scheme': 'http', 'wsgi.input': io.BytesIO(b''),
        'wsgi.errors': io.StringIO(), 'wsgi.multithread': True, 'wsgi.multiprocess': False,
        'wsgi.run_once': False, 'REMOTE_ADDR': '127.0.0.1', 'HTTP_HOST': 'localhost',
    }
    if cookie:
        env['HTTP_COOKIE'] = 'session_id=' + cookie
    return env


def file_lock_free(path):
    """Can the lock file be taken right now (an independent flock on a fresh descriptor)?"""
    import fcntl
    fd = os.open(path, os.O_RDWR)
    try:
        try:
            fcntl.flock(fd, fcntl.LOCK_EX | fcntl.LOCK_NB)
        except OSError:
            return False
        fcntl.flock(fd, fcntl.LOCK_UN)
        return True
    finally:
        os.close(fd)


class ReqEnv:
    """One sandbox: patched primitives for the RAM backend, a temp dir for the file backend."""

    def __init__(self, file_backend):
        import cherrypy
        from cherrypy.lib import sessions
        self.cherrypy = cherrypy
        self.sessions = sessions
        self.file = file_backend
        self.sched = S.Sched()
        R = sessions.RamSession
        self.saved = (sessions.threading, R.cache, R.locks)
        sessions.threading = S.Shim(self.sched)
        R.cache = {}
        R.locks = {}
        self.tmp = tempfile.mkdtemp(prefix='c13-') if file_backend else None

    def close(self):
        sessions = self.sessions
        R = sessions.RamSession
        sessions.threading, R.cache, R.locks = self.saved
        if self.tmp:
            shutil.rmtree(self.tmp, ignore_errors=True)

    def me(self):
        return ('os', threading.get_ident())

    def held(self, sess):
        """How often does the calling request hold the lock of the session's current id."""
        if sess is None:
            return 0
        if self.file:
            p = os.path.join(self.tmp, 'session-' + sess.id + '.lock')
            if not os.path.exists(p):
                return 0
            return 0 if file_lock_free(p) else 1
        l = self.sessions.RamSession.locks.get(sess.id)
        if l is None or l.owner != self.me():
            return 0
        return l.count

    def leaked(self):
        """Lock objects / lock files still held after the request."""
        out = []
        if self.file:
            for f in sorted(os.listdir(self.tmp)):
                if f.endswith('.lock') and not file_lock_free(os.path.join(self.tmp, f)):
                    out.append(f[-12:])
        else:
            for k, l in self.sessions.RamSession.locks.items():
                if l.owner is not None:
                    out.append('%s…:%s' % (k[:6], l.count))
        return out


def build_app(env, plan, journal, holder):
    cherrypy = env.cherrypy
    Hook = cherrypy._cprequest.Hook
    FaultyRam, FaultyFile = _classes()

    def observe(point):
        sess = holder.get('sess')
        journal.append('%s:%d:%d' % (point, 1 if getattr(sess, 'locked', False) else 0, env.held(sess)))

    class Root:
        @cherrypy.expose
        def setup(self):
            cherrypy.session['n'] = 0
            return b'ok'

        @cherrypy.expose
        def readback(self):
            # what a later request presenting the id finds stored (plain data only)
            import json as _json
            return _json.dumps({k: v for k, v in cherrypy.session.items()
                                if isinstance(v, (int, str))}, sort_keys=True).encode('ascii')

        @cherrypy.expose
        def planned(self):
            holder['sess'] = cherrypy.serving.session
            observe('H')
            sess = cherrypy.session
            for a in plan['acts']:
                if a == 'touch':
                    sess['n'] = sess.get('n', 0) + 1
                    if plan['saveFails']:
                        sess['boom'] = 1
                    if plan.get('relFail'):
                        sess['boomrel'] = 1
                elif a == 'acquire':
                    sess.acquire_lock()
                elif a == 'release':
                    sess.release_lock()
                elif a == 'regen':
                    cherrypy.tools.sessions.regenerate()
            if plan['out'] == 'iredir':
                # an InternalRedirect to another session-using resource, raised by a handler that (optionally) has
                # switched streaming on: the first request has to let go of the lock before the target is served
                if plan['stream']:
                    cherrypy.response.stream = True
                raise cherrypy.InternalRedirect('/setup')
            _raise(plan['out'])
            if plan['stream']:
                cherrypy.response.stream = True
            if not plan['gen']:
                return b'abc'

            def gen():
                yield b'a'
                if plan['genTouch']:
                    cherrypy.session['g'] = 1
                    if plan['saveFails']:
                        cherrypy.session['boom'] = 1
                yield b'b'
                if plan['genRaise']:
                    raise _Planned('in generator')
                yield b'c'
            return gen()

    def grab():
        holder['sess'] = getattr(cherrypy.serving, 'session', None)

    conf = {
        'tools.sessions.on': True,
        'tools.sessions.locking': 'implicit',
        'tools.sessions.clean_freq': 0,
        'request.show_tracebacks': True,
        'tools.sessions.debug': bool(plan.get('debug')),
        # tools.encode (on by default) reads a non-streamed generator body inside the handler stage; without
        # it sessions.save() itself collapses the body (`if is_iterator(response.body): collapse_body()`)
        'tools.encode.on': not plan.get('noEncode'),
        'tools.sessions.storage_class': FaultyFile if env.file else FaultyRam,
        # a fail-safe no-op probe right after sessions.init: remembers the session object
        'hooks.before_request_body.probe': Hook(grab, failsafe=True, priority=51),
    }
    if env.file:
        conf['tools.sessions.storage_path'] = env.tmp
        if not well_behaved(plan):
            # a second acquire_lock() of a file session never succeeds: let the polling loop give up
            conf['tools.sessions.lock_timeout'] = 0.25
    planned_conf = dict(conf)
    planned_conf['tools.sessions.locking'] = plan['mode']
    n = 0
    for point, key in (('before_request_body', 'brb'), ('before_handler', 'bh'),
                       ('before_finalize', 'bf'), ('on_end_request', 'eer')):
        for prio, fs, out in plan[key]:
            n += 1
            planned_conf['hooks.%s.u%d' % (point, n)] = Hook(
                (lambda o=out: _raise(o)), failsafe=bool(fs), priority=prio)
    if plan['oer'] != 'ok':
        planned_conf['hooks.on_end_resource.u'] = Hook(lambda: _raise(plan['oer']), failsafe=False, priority=50)
    app = cherrypy.Application(Root(), '', {'/setup': conf, '/planned': planned_conf, '/readback': conf})
    app.log.screen = False
    app.log.error_file = ''
    app.log.access_file = ''
    return app, observe


def call(app, environ, consume='full', sr_fail=False):
    got = {'sr_calls': 0}

    def start_response(status, headers, exc_info=None):
        got['sr_calls'] += 1
        if sr_fail and got['sr_calls'] == 1:
            # the server's start_response refuses (once): the application object the server would close() is never
            # handed over, so whatever the request holds has to be let go by the application itself
            raise _Planned('start_response failed (planned)')
        got['status'] = status
        got['headers'] = headers
        return lambda b: None
    it = app(environ, start_response)
    return it, got


def run_plan(plan):
    """Returns {'journal': [...], 'leaked': [...], 'status': '200', 'locked_end': bool}."""
    env = ReqEnv(plan['file'])
    try:
        journal, holder = [], {}
        app, observe = build_app(env, plan, journal, holder)
        # request 0: create the session
        it, got = call(app, _environ('/setup'))
        try:
            setup_body = b''.join(it)
        finally:
            it.close()
        cookie = None
        for k, v in got['headers']:
            if k.lower() == 'set-cookie' and v.startswith('session_id='):
                cookie = v.split(';')[0].split('=', 1)[1]
        if cookie is None or not got['status'].startswith('200'):
            # the plain implicit-locking request that creates the session failed: the code under test
            # (not the harness) cannot serve a locked session request
            tail = setup_body[-400:].decode('utf-8', 'replace')
            return {'journal': ['setup-failed'], 'leaked': env.leaked(), 'status': got['status'][:3],
                    'locked_end': False, 'gen_error': None, 'setup_failed': tail}
        if env.leaked():
            return {'journal': ['setup-leak'], 'leaked': env.leaked(), 'status': got['status'][:3],
                    'locked_end': True, 'gen_error': None}
        holder.clear()
        # the planned request
        boom = None
        if plan.get('afterReq'):
            def boom():
                raise _Planned("'after_request' listener")
            env.cherrypy.engine.subscribe('after_request', boom)
        try:
            r = _planned_request(env, plan, app, observe, cookie, journal, holder)
            if not r['leaked'] and not r['locked_end']:
                # a later request presenting the id: what did the planned request leave in the store?
                try:
                    it, got = call(app, _environ('/readback', cookie))
                    try:
                        body = b''.join(it)
                    finally:
                        it.close()
                    import json as _json
                    r['readback'] = _json.loads(body.decode('ascii')) if got.get('status', '').startswith('200') else None
                except Exception as e:      # noqa: BLE001 - an observation
                    r['readback'] = 'failed:%s' % type(e).__name__
            return r
        finally:
            if boom is not None:
                env.cherrypy.engine.unsubscribe('after_request', boom)
    finally:
        env.close()


def _planned_request(env, plan, app, observe, cookie, journal, holder):
    _state['release_attempts'] = 0
    if True:
        try:
            it, got = call(app, _environ('/planned', cookie), sr_fail=bool(plan.get('srFail')))
        except Exception as e:      # noqa: BLE001 - the WSGI callable let it through: an observation
            observe('B')
            observe('E')
            sess = holder.get('sess')
            return {'journal': journal, 'leaked': env.leaked(), 'status': '???',
                    'locked_end': bool(getattr(sess, 'locked', False)), 'gen_error': None,
                    'close_error': None, 'call_error': type(e).__name__,
                    'release_attempts': _state.get('release_attempts', 0)}
        observe('B')
        gen_error = None
        close_error = None
        try:
            if plan['consume'] == 'abandon':
                i = iter(it)
                try:
                    next(i)
                except StopIteration:
                    pass
            else:
                for _ in it:
                    pass
        except Exception as e:      # a failing streamed generator: the server logs it and closes
            gen_error = type(e).__name__
        finally:
            try:
                it.close()
            except Exception as e:  # e.g. ChannelFailures of a failing 'after_request' listener: the server logs it
                close_error = type(e).__name__
        observe('E')
        sess = holder.get('sess')
        return {'journal': journal, 'leaked': env.leaked(), 'status': got.get('status', '???')[:3],
                'locked_end': bool(getattr(sess, 'locked', False)), 'gen_error': gen_error,
                'close_error': close_error, 'release_attempts': _state.get('release_attempts', 0)}


def plan_line(p):
    def hooks(hs):
        return ','.join('%d:%d:%s' % (a, 1 if b else 0, c) for a, b, c in hs) or '-'
    b = lambda x: '1' if x else '0'
    return 'req %s %s %s %s %s %s %s %s %s %s %s %s %s %s %s' % (
        p['mode'], b(p['file']), ','.join(p['acts']) or '-', p['out'], b(p['stream']), b(p['gen']),
        b(p['genTouch']), b(p['genRaise']), p['consume'], b(p['saveFails']), p['oer'],
        hooks(p['brb']), hooks(p['bh']), hooks(p['bf']), hooks(p['eer']))


def well_behaved(p):
    l = p['mode'] != 'explicit'
    for a in p['acts']:
        if a == 'acquire':
            if l:
                return False
            l = True
        elif a == 'release':
            if not l:
                return False
            l = False
    return True


USER_PRIOS = [10, 30, 55, 70, 95]


def gen_plan(rng):
    mode = rng.choice(['implicit', 'implicit', 'early', 'explicit'])
    file = rng.random() < 0.4
    # handler script; with the RAM backend sometimes one that acquires a lock it holds / releases one
    # it does not hold (a file session never gets a second lock on its own path: targeted plans only)
    acts = []
    l = mode != 'explicit'
    sloppy = (not file) and rng.random() < 0.2
    for _ in range(rng.choice([0, 1, 1, 2, 2, 3, 4])):
        a = rng.choice(['touch', 'touch', 'regen', 'acquire', 'release'])
        if not sloppy:
            if a == 'acquire' and l:
                a = 'release'
            if a == 'release' and not l:
                a = 'acquire'
        if a == 'acquire':
            l = True
        elif a == 'release':
            l = False
        acts.append(a)
    out = rng.choice(['ok', 'ok', 'ok', 'http', 'redirect', 'exc'])
    gen = rng.random() < 0.5
    stream = gen and rng.random() < 0.6

    def hooks(p_any):
        hs = []
        if rng.random() < p_any:
            # distinct priorities (a tie is ordered by config iteration order, not C13's business)
            for prio in rng.sample(USER_PRIOS, rng.choice([1, 1, 2])):
                hs.append([prio, rng.random() < 0.3, rng.choice(['ok', 'exc', 'exc', 'http', 'redirect'])])
        return hs
    return {
        'kind': 'req', 'mode': mode, 'file': file, 'acts': acts, 'out': out, 'stream': stream, 'gen': gen,
        'genTouch': gen and rng.random() < 0.5, 'genRaise': gen and rng.random() < 0.3,
        'consume': rng.choice(['full', 'full', 'abandon']) if stream else 'full',
        'saveFails': rng.random() < 0.25,
        'afterReq': rng.random() < 0.15,
        'debug': rng.random() < 0.15,
        'noEncode': rng.random() < 0.3,
        'oer': rng.choice(['ok'] * 8 + ['exc', 'http']),
        'brb': hooks(0.15), 'bh': hooks(0.2), 'bf': hooks(0.3), 'eer': hooks(0.4),
    }
