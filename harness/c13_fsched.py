"""C13 (b): real FileSession request threads + the real FileSession.clean_up under the scheduler.

Nothing in /repo is edited.  The harness rebinds the module globals through which
`cherrypy.lib.sessions` reaches the file system and the lock:

    sessions.FileLock  -> InstrFileLock   (the FileLock *contract*: one holder per lock path)
    sessions.os        -> shim: unlink / remove / rename / replace / listdir / path.exists yield, rest passes
    sessions.open      -> shim around builtins.open (module global shadows the builtin)
    sessions.pickle    -> shim: load / dump yield
    sessions.time      -> shim: sleep yields (only reached when an acquire timed out)
    sessions.datetime  -> logical clock (as for the RAM backend)

The data files are REAL files in a temp dir.  Every operation of a managed thread on the contended
session's file, on its lock or on the directory listing first hands the baton back, so a step
executes exactly one such operation.  At execution time the probe records, independently of the
model: who holds the session's lock when a mutating / destructive file operation runs, which
version of the file each actor loaded, and whether a dump or an unlink destroys a version the
actor has not seen.

case = {'kind': 'fsched', 'n': 2|3, 'file': None | [counter, exp], 'sched': [tok…], 'lt': [bool…]}
tokens '<i>' | 'S' | 'K<d>' | 'X<i>' (request i, configured with `lock_timeout`, is waiting for the lock
and its LockChecker timer expires: the real polling loop runs Timeout -> sleep -> expired() -> LockTimeout)
| 'P<i>' (one unsuccessful poll: Timeout -> sleep -> next attempt); clock unit = 30 s, session timeout
1 min = 2 units.

Compared with the model by trace inclusion modulo stuttering (see c13_ramn.py): after every turn the
observation (lock holder, content of the data file read back from disk, lost flag, status of every
request, crashed flag / number of sweeps of the sweeper) is recorded, never a program counter.
"""
from __future__ import annotations

import builtins
import datetime as _dt
import os as _os
import pickle as _pickle
import shutil
import tempfile
import time as _time

from . import common
from . import c13_sched as S
from . import c13_ram as RAM

SID = 'c13f' + '0' * 36
DEBUG = False
MUTATING = ('open.w', 'pickle.dump', 'unlink', 'replace')


class LockTable:
    """Who holds which lock FILE.  A flock is a lock on the inode behind the path: when the lock file is
    unlinked, the next FileLock(path) creates a new file, i.e. a different lock (a new *generation* of the
    path), whoever still holds the old one."""

    def __init__(self):
        self.gen = {}
        self.held = {}                  # (path, generation) -> (owner, FileLock object)

    def get(self, path):
        """holder of the lock file the path names NOW"""
        return self.held.get((path, self.gen.get(path, 0)))

    def take(self, path, owner, obj):
        key = (path, self.gen.get(path, 0))
        self.held[key] = (owner, obj)
        return key

    def drop(self, key, obj):
        h = self.held.get(key)
        if h is not None and h[1] is obj:
            del self.held[key]

    def unlinked(self, path):
        self.gen[path] = self.gen.get(path, 0) + 1

    def everyone(self, path):
        """owners of every generation of the path (more than one = the lock file was replaced under a holder)"""
        return [o for (p, g), (o, _) in sorted(self.held.items(), key=lambda kv: kv[0][1]) if p == path]


class InstrFileLock:
    """`filelock.FileLock` reduced to its contract, observable and schedulable: one holder per lock FILE
    (the file is created on the first attempt, as filelock does)."""

    def __init__(self, run, path, *a, **k):
        self.run = run
        self.path = str(path)
        self.lid = _os.path.basename(self.path)[-14:]
        self.key = None

    @property
    def owner(self):
        h = self.run.holders.get(self.path)
        return h[0] if h else None

    def acquire(self, timeout=None, *a, **k):
        self.run.sched.yield_point(('lock.acquire', self, self.path, True))
        me = self.run.me()
        if not _os.path.exists(self.path):
            try:
                builtins.open(self.path, 'a').close()
            except OSError:
                pass
        if self.run.holders.get(self.path) is None:
            self.key = self.run.holders.take(self.path, me, self)
            return self
        raise self.run.sessions.Timeout(self.path)

    def release(self, force=False):
        self.run.sched.yield_point(('lock.release', self, self.path))
        if self.key is not None:
            self.run.holders.drop(self.key, self)

    @property
    def is_locked(self):
        return self.key is not None and self.run.holders.held.get(self.key, (None, None))[1] is self


class _PathShim:
    def __init__(self, run):
        self._run = run

    def exists(self, p):
        self._run.fileop('exists', p)
        return _os.path.exists(p)

    def __getattr__(self, name):
        return getattr(_os.path, name)


class _OsShim:
    def __init__(self, run):
        self._run = run
        self.path = _PathShim(run)

    def unlink(self, p, *a, **k):
        self._run.fileop('unlink', p)
        if str(p) == self._run.datafile and self._run.take_fault(2):
            raise PermissionError(13, 'planned fault: os.unlink fails', str(p))
        r = _os.unlink(p, *a, **k)
        if str(p).endswith('.lock'):
            self._run.holders.unlinked(str(p))      # the path now names no lock file: the next one is another lock
            if str(p) == self._run.lockpath:
                self._run.lockfile_unlinked.append(self._run.me())
        return r

    remove = unlink

    def rename(self, src, dst, *a, **k):
        self._run.fileop('replace', dst)
        return _os.rename(src, dst, *a, **k)

    replace = rename

    def listdir(self, p='.'):
        self._run.sched.yield_point(('listdir', None))
        return _os.listdir(p)

    def __getattr__(self, name):
        return getattr(_os, name)


class _PickleShim:
    def __init__(self, run):
        self._run = run

    def load(self, f, *a, **k):
        name = getattr(f, 'name', '')
        self._run.fileop('pickle.load', name)
        if str(name) == self._run.datafile and self._run.take_fault(0):
            raise _pickle.UnpicklingError('planned fault: the session file cannot be read')
        return self._odd(str(name) == self._run.datafile, _pickle.load(f, *a, **k))

    def loads(self, data, *a, **k):
        # bytes read from the file this actor opened last
        ours = self._run.last_read.get(self._run.me()) == self._run.datafile
        return self._odd(ours, _pickle.loads(data, *a, **k))

    def _odd(self, ours, value):
        """planned fault 1: the stored expiry comes back as a datetime that cannot be compared with now()"""
        if ours and isinstance(value, tuple) and len(value) == 2 and isinstance(value[1], _dt.datetime) \
                and self._run.take_fault(1):
            return (value[0], value[1].replace(tzinfo=_dt.timezone.utc))
        return value

    def dump(self, obj, f, *a, **k):
        self._run.fileop('pickle.dump', getattr(f, 'name', ''))
        return _pickle.dump(obj, f, *a, **k)

    def __getattr__(self, name):
        return getattr(_pickle, name)


class _TimeShim:
    def __init__(self, run):
        self._run = run

    def sleep(self, t):
        self._run.sched.yield_point(('sleep', None))

    def __getattr__(self, name):
        return getattr(_time, name)


class _LockingClock:
    """`cherrypy.lib.locking.datetime`: the LockChecker timer of a request is past once the harness says so."""

    def __init__(self, run):
        outer = run

        class _Meta(type):
            def __instancecheck__(cls, obj):
                return isinstance(obj, _dt.datetime)

        class datetime(_dt.datetime, metaclass=_Meta):
            @classmethod
            def now(cls, tz=None):
                base = _dt.datetime(2030, 1, 1, tzinfo=tz)
                return base + _dt.timedelta(days=1 if outer.timer_expired.get(outer.me()) else 0)
        self.datetime = datetime
        self.timedelta = _dt.timedelta
        self.timezone = _dt.timezone


class FileRun:
    def __init__(self, n, file0, lt=None, scripts=None):
        from cherrypy.lib import sessions, locking
        self.sessions = sessions
        self.locking = locking
        self.n = n
        self.lt = list(lt or []) + [False] * n
        self.scripts = (list(scripts or []) + ['m'] * n)[:n]
        self.timer_expired = {}
        self.sweeps = 0
        self.tmp = tempfile.mkdtemp(prefix='c13s-')
        self.datafile = _os.path.join(self.tmp, 'session-' + SID)
        self.lockpath = self.datafile + '.lock'
        self.holders = LockTable()
        self.lockfile_unlinked = []
        self.fault = {}                 # actor -> armed fault kind
        self.faults_consumed = []
        self.last_read = {}
        self.faults_armed = []
        self.sched = S.Sched(interesting=self._interesting)
        self.clock = RAM.FakeDatetimeModule()
        if file0 is not None:
            with builtins.open(self.datafile, 'wb') as f:
                _pickle.dump(({'n': file0[0]}, RAM.BASE + _dt.timedelta(seconds=RAM.UNIT * file0[1])), f)
        self.saved = {k: sessions.__dict__.get(k, _MISSING) for k in
                      ('FileLock', 'os', 'open', 'pickle', 'time', 'datetime')}
        sessions.FileLock = lambda path, *a, **k: InstrFileLock(self, path, *a, **k)
        sessions.os = _OsShim(self)
        sessions.open = self._open
        sessions.pickle = _PickleShim(self)
        sessions.time = _TimeShim(self)
        sessions.datetime = self.clock
        self.saved_locking_datetime = locking.datetime
        locking.datetime = _LockingClock(self)
        # oracle bookkeeping
        self._fs_cache = None
        self.version = 0
        self.seen = {}
        self.lost = False
        self.lost_why = None
        self.saves = 0
        self.unlocked_ops = []
        self.timeout_leak = []
        self.livelock = []
        self.max_occ = 0
        self.errors = {}
        self.sweeper_obj = sessions.FileSession(id=None, storage_path=self.tmp, timeout=1, clean_freq=0, debug=DEBUG)
        for i in range(n):
            self.sched.spawn('r%d' % i, self._worker(i))
            self.sched.step('r%d' % i)
        self.sched.spawn('S', self._sweeper)
        self.sched.step('S')

    # ---- shims' callbacks ----------------------------------------------------------------------
    def _interesting(self, op):
        k = op[0]
        if k in ('start', 'sweep.start', 'listdir', 'sleep'):
            return True
        key = op[2] if k.startswith('lock.') else op[1]
        return key in (self.datafile, self.lockpath)

    def me(self):
        st = self.sched.current()
        return st.name if st is not None else 'main'

    def _open(self, path, mode='r', *a, **k):
        kind = 'open.w' if any(c in mode for c in 'wax+') else 'open.r'
        self.fileop(kind, path)
        if kind == 'open.r':
            self.last_read[self.me()] = str(path)
        if kind == 'open.r' and str(path) == self.datafile and self.take_fault(0):
            raise IOError(5, 'planned fault: the session file cannot be opened', str(path))
        if kind == 'open.r' and str(path) == self.datafile and not _os.path.exists(path):
            self.seen[self.me()] = self.version        # "nothing there" is what this actor has seen
        return builtins.open(path, mode, *a, **k)

    def take_fault(self, kind):
        """Is a fault of this kind armed for the calling actor?  (consumes it)"""
        me = self.me()
        if self.fault.get(me) == kind:
            del self.fault[me]
            self.faults_consumed.append((me, kind))
            return True
        return False

    def fileop(self, kind, path):
        """Yield, then (at execution time) evaluate the statement's predicates on this operation."""
        path = str(path)
        self.sched.yield_point((kind, path))
        if path != self.datafile or self.sched.current() is None:
            return
        me = self.me()
        owners = self.holders.everyone(self.lockpath)
        if kind in MUTATING and me not in owners:
            self.unlocked_ops.append('%s:%s(lock held by %s)' % (me, kind, ','.join(owners) or 'nobody'))
        if kind in ('exists', 'open.r', 'pickle.load'):
            self.seen[me] = self.version               # what this actor's view of the file is based on

    def _account(self, name, before, after):
        """Ghost bookkeeping from the CONTENT of the data file before / after a turn (not from the name of
        the operation that changed it): a new record is a save, a disappearance is an unlink."""
        if after == before:
            return
        if after not in ('A', 'E') and not after.startswith('?'):
            if self.seen.get(name) != self.version:
                self.lost = True
                self.lost_why = self.lost_why or '%s saved over a version it had not loaded' % name
            self.version += 1
            self.saves += 1
        elif after == 'A' and name == 'S':      # a request that deletes its session under the lock destroys on purpose
            if self.seen.get(name) != self.version:
                self.lost = True
                self.lost_why = self.lost_why or \
                    '%s unlinked the session file although it was saved after %s checked it' % (name, name)

    # ---- real code ---------------------------------------------------------------------------------
    def _worker(self, i):
        FS = self.sessions.FileSession

        script = self.scripts[i]

        def body():
            kw = {'lock_timeout': 5} if self.lt[i] else {}
            s = FS(id=SID, storage_path=self.tmp, timeout=1, clean_freq=0, debug=DEBUG, **kw)
            if s.id != SID:
                return 'gone'
            try:
                s.acquire_lock()
            except self.locking.LockTimeout:
                h = self.holders.get(self.lockpath)
                if s.locked or (h and h[0] == 'r%d' % i):
                    self.timeout_leak.append('r%d' % i)
                return 'failed'
            try:
                for op in script:
                    if op == 'm':
                        v = s.get('n', 0)
                        s['n'] = v + 1
                    elif op == 'd':
                        s.delete()
                    elif op == 'g':
                        s.regenerate()
                s.save()
            finally:
                if s.locked:                # what the fail-safe on_end_request hook `sessions.close` does
                    s.release_lock()
            return 'done'
        return body

    def _sweeper(self):
        s = self.sweeper_obj
        while True:
            self.sched.yield_point(('sweep.start', None))
            self.sweeps += 1
            s.clean_up()

    # ---- controller ----------------------------------------------------------------------------------
    def label(self, op):
        if op is None:
            return '-'
        k = op[0]
        if k.startswith('lock.'):
            return '1.0'
        if k == 'listdir':
            return '2.0'
        if k in ('exists', 'open.r', 'open.w', 'pickle.load', 'pickle.dump', 'unlink', 'replace'):
            return '0.0'
        return '-'

    def waiting(self, name):
        """parked in front of an acquire of the session lock that somebody else holds"""
        st = self.sched.threads[name]
        if st.status == 'done' or st.pending[0] != 'lock.acquire':
            return False
        h = self.holders.get(self.lockpath)
        return h is not None and h[0] != name

    def poll(self, i, expire):
        """Run the real polling loop of request i once while the lock is held by somebody else:
        acquire -> Timeout -> sleep -> checker.expired() [-> LockTimeout when `expire`].
        Returns False when the token does not apply (nothing was executed)."""
        name = 'r%d' % i
        if not self.waiting(name) or (expire and not self.lt[i]):
            return False
        if expire:
            self.timer_expired[name] = True
        st = self.sched.threads[name]
        self._fs_cache = None
        self.sched.step(name, force=True)                 # the attempt fails: Timeout
        guard = 0
        while st.status != 'done' and st.pending[0] != 'lock.acquire':
            self.sched.step(name, force=True)             # sleep, whatever else the loop does
            guard += 1
            if guard > 8:
                # the code under test does something else than poll: an observation, not a harness error
                if str(i) not in self.livelock:
                    self.livelock.append(str(i))
                break
        if st.status == 'done' and st.exc is not None and name not in self.errors:
            self.errors[name] = type(st.exc).__name__
        return True

    def step(self, tok):
        """One turn.  Returns the label of the access executed, or None when the token does not apply."""
        sched = self.sched
        if tok.startswith('K'):
            self.clock.units += int(tok[1:])
            return '-'
        if tok.startswith('X') or tok.startswith('P'):
            return '-' if self.poll(int(tok[1:]), tok.startswith('X')) else None
        if tok.startswith('F'):             # arm a fault for the sweep's next matching file operation
            if sched.threads['S'].status == 'done':
                return None
            self.fault['S'] = int(tok[1:])
            self.faults_armed.append(int(tok[1:]))
            return '-'
        name = 'S' if tok in ('S', 'S0') else 'r' + tok
        st = sched.threads[name]
        if name == 'S' and st.status != 'done' and st.pending[0] == 'sweep.start':
            sched.step('S')
        lab = self.label(sched.pending(name)) if sched.enabled(name) else '-'
        before = self.file_state()
        sched.step(name)
        self._fs_cache = None
        self._account(name, before, self.file_state())
        self.max_occ = max(self.max_occ, len(set(self.holders.everyone(self.lockpath))))
        if st.status == 'done' and st.exc is not None and name not in self.errors:
            self.errors[name] = type(st.exc).__name__
            if isinstance(st.exc, (common.HarnessError, S._Abandoned)):
                raise common.HarnessError('managed thread %s: %r' % (name, st.exc))
        return lab

    def file_state(self):
        if self._fs_cache is None:
            self._fs_cache = self._file_state()
        return self._fs_cache

    def _file_state(self):
        if not _os.path.exists(self.datafile):
            return 'A'
        if _os.path.getsize(self.datafile) == 0:
            return 'E'
        try:
            with builtins.open(self.datafile, 'rb') as f:
                data, exp = _pickle.load(f)
        except Exception as e:
            return '?' + type(e).__name__
        u = (exp - RAM.BASE).total_seconds() / RAM.UNIT
        return '%s:%s' % (data.get('n'), int(u) if u == int(u) else u)

    def observation(self):
        sched = self.sched
        h = self.holders.get(self.lockpath)
        out = [0 if not h else (1001 if h[0] == 'S' else 1 + int(h[0][1:]) if h[0].startswith('r') else 999)]
        f = self.file_state()
        if f == 'A':
            out.append(0)
        elif f == 'E':
            out.append(1)
        elif f.startswith('?'):
            out += [3]
        else:
            v, e = f.split(':')
            out += [2, int(v) if v != 'None' else 0, int(float(e))]
        out.append(1 if self.lost else 0)
        for i in range(self.n):
            st = sched.threads['r%d' % i]
            if st.status != 'done':
                out.append(0)
            elif st.exc is not None:
                out.append(4)
            else:
                out.append({'done': 1, 'gone': 2, 'failed': 3}.get(st.result, 4))
        sw = sched.threads['S']
        out += [1 if sw.status == 'done' else 0, self.sweeps]
        return out

    def final(self):
        sched = self.sched
        h = self.holders.get(self.lockpath)
        sweeper_moves = bool(h and h[0] == 'S' and sched.enabled('S'))
        return [1 if (not sched.done('r%d' % i) and not sched.enabled('r%d' % i) and not sweeper_moves) else 0
                for i in range(self.n)]

    def finish(self, snaps=None):
        """Let the sweep end its pass and every request that can still run finish.  An actor that keeps
        taking turns without ever finishing (e.g. polling for ever a lock it leaked itself) is recorded
        as a livelock of the code under test — an observation for the oracle, not a harness error."""
        extra = []
        sw = self.sched.threads['S']

        def sweeping():
            return sw.status != 'done' and sw.pending[0] != 'sweep.start' and self.sched.enabled('S')

        def do(tok):
            lab = self.step(tok)
            extra.append(tok)
            if snaps is not None:
                snaps.append((self.observation(), lab))

        def drive(tok, cond, limit):
            n = 0
            while cond():
                if n >= limit:
                    if tok not in self.livelock:
                        self.livelock.append(tok)
                    return False
                do(tok)
                n += 1
            return n > 0
        drive('S', sweeping, 60)
        while True:
            progressed = False
            for i in range(self.n):
                if str(i) not in self.livelock:
                    progressed |= bool(drive(str(i), lambda i=i: self.sched.enabled('r%d' % i), 120))
            # a sweep that was waiting for the lock can go on now
            if 'S' not in self.livelock:
                progressed |= bool(drive('S', sweeping, 60))
            if not progressed:
                break
        return extra

    def observations(self):
        sched = self.sched
        reqs = ['r%d' % i for i in range(self.n)]
        h = self.holders.get(self.lockpath)
        return {'max_occ': self.max_occ, 'lost': self.lost, 'lost_why': self.lost_why, 'saves': self.saves,
                'unlocked_ops': list(self.unlocked_ops), 'errors': dict(self.errors),
                'timeout_leak': list(self.timeout_leak), 'livelock': list(self.livelock),
                'faults_armed': list(self.faults_armed), 'faults_consumed': list(self.faults_consumed),
                'lockfile_unlinked': list(self.lockfile_unlinked),
                'all_holders': self.holders.everyone(self.lockpath),
                'held_by': [h[0]] if h else [],
                'blocked': [r for r in reqs if not sched.done(r) and not sched.enabled(r)],
                'unfinished': [r for r in reqs if not sched.done(r)],
                'results': {r: (sched.threads[r].result if sched.done(r) else None) for r in reqs},
                'file': self.file_state(),
                'sweeper_error': self.errors.get('S')}

    def close(self):
        try:
            self.sched.close()
        finally:
            self.locking.datetime = self.saved_locking_datetime
            for k, v in self.saved.items():
                if v is _MISSING:
                    self.sessions.__dict__.pop(k, None)
                else:
                    setattr(self.sessions, k, v)
            shutil.rmtree(self.tmp, ignore_errors=True)


_MISSING = object()


def run_case(case):
    """Returns (o0, [(tok, observation, label)…], final, observations)."""
    run = FileRun(case['n'], case.get('file'), case.get('lt'), case.get('scripts'))
    try:
        o0 = run.observation()
        trace = []
        for t in case['sched']:
            lab = run.step(t)
            if lab is None:                     # an X / P token that does not apply here
                continue
            trace.append((t, run.observation(), lab))
        snaps = []
        extra = run.finish(snaps)
        trace += [(t, o, lab) for t, (o, lab) in zip(extra, snaps)]
        return o0, trace, run.final(), run.observations()
    finally:
        run.close()


def run_policy(case, order, preempt, prefix=(), sweeps=1, limit=200):
    """Adaptive schedule (see c13_ramn.run_policy); `prefix` tokens run first."""
    run = FileRun(case['n'], case.get('file'), case.get('lt'), case.get('scripts'))
    try:
        o0 = run.observation()
        trace = []
        for t in prefix:
            lab = run.step(t)
            if lab is not None:
                trace.append((t, run.observation(), lab))

        def idle():
            sw = run.sched.threads['S']
            return sw.status == 'done' or sw.pending[0] == 'sweep.start'

        def finished(a):
            if a == 'S':
                return run.sched.done('S') or (run.sweeps >= sweeps and idle())
            return run.sched.done('r' + a)

        def runnable(a):
            return not finished(a) and run.sched.enabled('S' if a == 'S' else 'r' + a)
        cur, k = None, 0
        while k < limit:
            if k in preempt and runnable(preempt[k]):
                cur = preempt[k]
            if cur is None or not runnable(cur):
                cands = [a for a in order if runnable(a)]
                if not cands:
                    break
                cur = cands[0]
            lab = run.step(cur)
            trace.append((cur, run.observation(), lab))
            k += 1
        snaps = []
        extra = run.finish(snaps)
        trace += [(t, o, lab) for t, (o, lab) in zip(extra, snaps)]
        return o0, trace, run.final(), run.observations()
    finally:
        run.close()


def nats(l):
    return '.'.join(str(int(x)) for x in l) if l else '-'


def model_line(case, o0, trace, final, fuel=8):
    f = case.get('file')
    lt = (list(case.get('lt') or []) + [False] * case['n'])[:case['n']]
    # an unsuccessful poll is a turn of that request which changes nothing
    tr = '|'.join('%s@%s@%s' % (t[1:] if t.startswith('P') else t, nats(o), lab) for t, o, lab in trace) or '-'
    scripts = (list(case.get('scripts') or []) + ['m'] * case['n'])[:case['n']]
    return 'fileT %s %s %s %d %d %s %s %s' % ('A' if f is None else '%d:%d' % tuple(f), nats([1 if x else 0 for x in lt]),
                                              ';'.join(sc or '-' for sc in scripts), case['n'], fuel, nats(o0), tr, nats(final))


INITS = [('live', [5, 100], []), ('expired', [5, 0], ['K3']), ('expiring', [5, 1], []), ('absent', None, [])]


def gen_random(rng):
    n = rng.choice([2, 2, 3])
    name, file0, prefix = rng.choice(INITS[:3] * 4 + INITS[3:])
    actors = [str(i) for i in range(n)]
    toks = list(prefix)
    if rng.random() < 0.7:                      # everybody passes __init__ while the file exists
        order = actors[:]
        rng.shuffle(order)
        toks += order
    L = rng.randint(8, 40)
    while len(toks) < L:
        r = rng.random()
        if r < 0.55:
            a = rng.choice(actors)
        elif r < 0.92:
            a = 'S'
        elif r < 0.96:
            toks.append(rng.choice(['K1', 'K1', 'K2', 'K3']))
            continue
        else:
            toks.append(rng.choice(['X', 'X', 'P']) + rng.choice(actors))
            continue
        toks += [a] * rng.choice([1, 1, 2, 2, 3, 4, 6])
    lt = [rng.random() < 0.5 for _ in range(n)]
    toks = toks[:max(L, len(prefix))]
    if rng.random() < 0.25:                     # a fault for the sweep somewhere
        toks.insert(rng.randrange(len(toks) + 1), 'F%d' % rng.choice([0, 1, 2, 2]))
    scripts = [rng.choice(SCRIPTS) for _ in range(n)]
    return {'kind': 'fsched', 'n': n, 'file': file0, 'sched': toks, 'init': name, 'lt': lt, 'scripts': scripts}


SCRIPTS = ['m', 'm', 'm', 'm', 'mm', 'md', 'dm', 'mdm', 'mg', 'gm', 'mgm', 'd', '']


def gen_fault(rng):
    """The sweep FAILS inside its locked region (open / load / expiry comparison / unlink raises once) on a
    live, expired or expiring file, with requests for that id before, during and after the failing sweep."""
    n = rng.choice([1, 2, 2])
    name, file0, prefix = rng.choice(INITS[:3])
    actors = [str(i) for i in range(n)]
    toks = list(prefix)
    if rng.random() < 0.7:
        toks += actors                                  # past __init__ before the sweep
    if rng.random() < 0.5 and 'K3' not in toks:
        toks.append('K3')                               # let the session expire: the sweep will unlink
    toks.append('F%d' % rng.choice([0, 1, 1, 2, 2]))
    toks += ['S'] * rng.randint(1, 4)
    for a in actors:
        if rng.random() < 0.5:
            toks += [a] * rng.randint(1, 3)             # requests arrive while the sweep is inside
    toks += ['S'] * rng.randint(2, 6)
    rest = []
    for a in actors:
        rest += [a] * rng.randint(3, 9)
    rest += ['S'] * rng.randint(0, 6)
    rng.shuffle(rest)
    return {'kind': 'fsched', 'n': n, 'file': file0, 'sched': toks + rest, 'init': name,
            'lt': [rng.random() < 0.4 for _ in range(n)], 'scripts': [rng.choice(['m', 'm', 'mm', 'dm']) for _ in range(n)]}


def gen_delete(rng):
    """A request deletes / regenerates its session INSIDE the locked region and goes on working, while
    another request for that id is already past __init__ and waits for (polls) the lock."""
    n = rng.choice([2, 2, 3])
    name, file0, prefix = rng.choice(INITS[:3])
    actors = [str(i) for i in range(n)]
    rng.shuffle(actors)
    a = actors[0]
    scripts = ['m'] * n
    scripts[int(a)] = rng.choice(['mdm', 'dm', 'mdmm', 'mgm', 'dmdm', 'md'])
    for b in actors[1:]:
        if rng.random() < 0.3:
            scripts[int(b)] = rng.choice(['mm', 'dm', 'md'])
    toks = list(prefix) + actors                        # everybody passes __init__ while the file exists
    toks += [a] * rng.randint(1, 6)                     # A takes the lock, maybe loads, maybe deletes
    for b in actors[1:]:
        toks += [b] * rng.choice([1, 1, 2])             # the others arrive at their acquire
        if rng.random() < 0.3:
            toks.append('P' + b)
    rest = []
    for x in actors:
        rest += [x] * rng.randint(3, 10)
    rest += ['S'] * rng.randint(0, 5)
    rng.shuffle(rest)
    return {'kind': 'fsched', 'n': n, 'file': file0, 'sched': toks + rest, 'init': name,
            'lt': [False] * n, 'scripts': scripts}


def gen_timeout(rng):
    """Targeted at the lock_timeout paths: a request (or the sweep) holds the lock, the others poll
    and time out at every point of the holder's locked region."""
    n = rng.choice([2, 3])
    name, file0, prefix = rng.choice(INITS[:3])
    actors = [str(i) for i in range(n)]
    rng.shuffle(actors)
    holder = rng.choice([actors[0], 'S'])
    toks = list(prefix) + actors                         # everybody passes __init__
    toks += [holder] * rng.randint(1 if holder != 'S' else 2, 5)        # the holder gets into its locked region
    waiting = [a for a in actors if a != holder]
    for a in waiting:
        toks += [a] * rng.choice([1, 2])                 # the others arrive at their acquire
    for a in waiting:
        toks.append(rng.choice(['X', 'X', 'P']) + a)
        if rng.random() < 0.4:
            toks += [holder] * rng.randint(1, 3)
    if rng.random() < 0.5:
        toks.append('X' + rng.choice(waiting))
    return {'kind': 'fsched', 'n': n, 'file': file0, 'sched': toks, 'init': name,
            'lt': [rng.random() < 0.8 for _ in range(n)]}
