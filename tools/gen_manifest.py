#!/venv/bin/python
"""Regenerate MANIFEST.json from the per-property modules (harness/cNN.py).

A property without a module is listed under not_applicable with the reason given in
tools/not_claimed.json (default: not built yet).  Run after adding / changing a module.
"""
import importlib
import json
import os
import sys

VERIF = os.path.dirname(os.path.dirname(os.path.abspath(__file__)))
sys.path.insert(0, VERIF)
BASE = json.load(open('/root/.vp/BASELINE.json')) if os.path.exists('/root/.vp/BASELINE.json') else {}
props = [json.loads(l) for l in open(os.path.join(VERIF, 'properties.jsonl'))]
nc_path = os.path.join(VERIF, 'tools', 'not_claimed.json')
not_claimed = json.load(open(nc_path)) if os.path.exists(nc_path) else {}
hooks_path = os.path.join(VERIF, 'tools', 'hook_commits.json')
hook_commits = json.load(open(hooks_path)) if os.path.exists(hooks_path) else []

checks, na, engines = [], [], {}
for p in props:
    pid = p['id']
    path = os.path.join(VERIF, 'harness', pid.lower() + '.py')
    if not os.path.exists(path) or pid in not_claimed:
        na.append({'property_id': pid,
                   'reason': not_claimed.get(pid, 'check not built yet in this round (planned in DESIGN.md section 6)')})
        continue
    m = importlib.import_module('harness.' + pid.lower())
    checks.append({
        'property_id': pid,
        'quick_cmd': './check %s --tier quick' % pid,
        'thorough_cmd': './check %s --tier thorough' % pid,
        'evidence_file': 'evidence/%s.json' % pid,
        'replay_cmd_template': './check %s --replay {path}' % pid,
        'engine': 'lean-proof+correspondence',
        'level_claimed': {
            'category': getattr(m, 'LEVEL', 'proof'),
            'text': getattr(m, 'LEVEL_TEXT', 'Lean 4 theorems about a hand-written model + differential correspondence with /repo'),
            'design_ref': 'DESIGN.md section 6, ' + pid,
        },
        'level_note': getattr(m, 'LEVEL_NOTE', '; '.join(getattr(m, 'TRUSTED_BASE', []) + getattr(m, 'ASSUMPTIONS', []))),
        'technique': getattr(m, 'TECHNIQUE', 'Lean 4 machine-checked proof over a model tied to the code by a differential correspondence check'),
    })

manifest = {
    'version': 1,
    'setup_cmd': './setup',
    'hooks': {
        'guard': 'CHERRYPY_VERIF',
        'enable': 'none needed: checks import /repo as it is (editable install in /venv); observation goes through '
                  'public extension points and harness-side replacement of module globals naming primitives',
        'baseline_off_cmd': BASE.get('cmd', 'cd /repo && /venv/bin/python -m pytest -ra -q -p no:cacheprovider --timeout=900 --continue-on-collection-errors --junitxml=<file>'),
        'source_commits': hook_commits,
        'add_only': True,
    },
    'engines': [
        {'name': 'lean-proof+correspondence', 'path': 'lean/ + harness/',
         'serves_properties': [c['property_id'] for c in checks],
         'kind_free_text': 'Lean 4 models (lean/CpModel), theorems (lean/CpProofs), compiled line-protocol drivers '
                           '(lean/Drv) and a Python differential harness (harness/) that runs the real code in-process, '
                           'the model on the same cases, and an independent oracle; verdict rule in harness/common.py'},
    ],
    'checks': checks,
    'not_applicable': na,
    'notes': 'Every check: regenerate tables from /repo, lake build of the property\'s theorems + driver, axiom audit '
             '(#print axioms), corpus + known-finding witnesses, generated correspondence stream (VERIF_SEED), verdict. '
             'Exit 2 = harness error/timeout (never a violation). known_findings.json lists recorded defects.',
}
json.dump(manifest, open(os.path.join(VERIF, 'MANIFEST.json'), 'w'), indent=1)
print('MANIFEST.json: %d checks, %d not claimed' % (len(checks), len(na)))
