#!/usr/bin/env python3
"""Print the prompt given to an isolated sub-agent that seeds a property-breaking change.
Usage: seed_prompt.py Cxx <worktree> <outdir>.  The agent sees only the property text."""
import json, sys
pid, wt, out = sys.argv[1:4]
import glob, os
prev = []
for f in sorted(glob.glob('/verif/seeded/%s-*/meta.json' % pid)):
    m = json.load(open(f))
    prev.append('  - ' + (m.get('title') or '').strip())
prev_txt = ('\nChanges of this kind that were ALREADY produced in an earlier round - do NOT repeat them or near variants, attack other clauses, other code paths and other mechanisms:\n' + '\n'.join(prev) + '\n') if prev and '--fresh' not in sys.argv else ''
p = [json.loads(l) for l in open('/verif/properties.jsonl') if json.loads(l)['id'] == pid][0]
print(f"""You are testing how well a verification effort can detect subtle regressions in the CherryPy web framework. You have your own scratch git worktree of the project at {wt} (a checkout of the current HEAD of the repository; Python 3.12 interpreter with all dependencies: /venv/bin/python). Work ONLY inside {wt} and {out} (create {out}); do not look at or touch /verif or /repo, and do not read any directory other than {wt}, {out} and the Python standard library.

Here is a semantic property the code base is supposed to satisfy:

  Title: {p['title']}
  Statement: {p['statement']}
  Quantified over: {p['quantifier']['text']}
  Anchored in: {', '.join(p['anchors']['files'])}

Your task: produce THREE different, independent, realistic changes (bugs a maintainer could plausibly introduce: a refactoring slip, an optimisation, an "obvious" simplification, an off-by-one, a dropped branch, a wrong object consulted, a missing finally, two cooperating sites that each look fine alone) to the project's source under {wt}/cherrypy (NOT the tests) such that each change
  (a) still imports/compiles,
  (b) still passes the project's existing test-suite modules that exercise the touched code, unedited (run them: `cd {wt} && flock /tmp/cp-pytest.lock /venv/bin/python -m pytest -q -p no:cacheprovider cherrypy/test/test_<relevant>.py`; the flock matters because the suite binds a fixed TCP port and others run it concurrently; the tests test_conn.py::LimitedRequestQueueTests::test_queue_full and test_core.py::CoreRequestHandlingTest::testRedirect fail on the pristine tree already and may be ignored; running from {wt} makes pytest import the worktree's cherrypy), and
  (c) BREAKS the property above in a way that needs something specific to manifest — a particular interleaving, a crash or fault at a particular point, a multi-step sequence of operations, an unusual input, or two cooperating sites — NOT something ordinary use would expose at once.
Prefer three changes that attack different parts/clauses of the property and different mechanisms.
{prev_txt}
Never use `git stash` (the stash is shared between worktrees of the repository and other agents work concurrently in their own worktrees); to set a change aside use `git -C {wt} diff > file; git -C {wt} checkout -- .; git -C {wt} apply file`.

For each change i in 1..3 write into {out}/{'{i}'}/ :
  - patch.diff : `git -C {wt} diff` of that change alone against the pristine HEAD (make each change on a clean tree: `git -C {wt} checkout -- .` between changes),
  - demo.py (or demo_test.py) : a small self-contained program that exercises the real code in-process (for example by calling a cherrypy.Application as a WSGI callable, or the relevant class directly; `sys.path.insert(0, '{wt}')` first so it imports the worktree) and exits 0 / prints PASS on the pristine tree and exits non-zero / prints FAIL with the change applied; it must be deterministic (no sleeps-as-synchronisation, use explicit gates/events for interleavings),
  - meta.json : {{"property": "{pid}", "title": "<one line>", "what_breaks": "<which clause of the property and how>", "needs": "<what specific input / sequence / interleaving / fault is needed for it to manifest>", "tests_run": "<the pytest command(s) you ran and their result with the change applied>", "demo_result_pristine": "...", "demo_result_changed": "..."}}.
Verify all of (a)-(c) yourself for every change (run the demo on the pristine tree and on the changed tree; run the relevant test modules on the changed tree). Leave the worktree clean (pristine) at the end. Your final message: a short list of the three changes with one line each.""")
