#!/usr/bin/env python3
"""Re-evaluate every stored seeded change (seeded/*) and property-preserving change (benign/*) against the
checks as they are now, several at a time, and record the verdicts in their meta.json (DESIGN.md sections 12 and
12b are generated from those files).

usage: sweep.py [--jobs N] [--seeded] [--benign] [--only ID,ID,...] [--props C01,C02] [--seeds 0,1] [--no-restore]

A job never runs two checks of the same property at once (the generated tables and the evidence file of a
property are shared); different properties run in parallel, each run works on a private copy of its driver
binary (harness/common.py).  Afterwards every property touched is run once against /repo itself, so that
tables regenerated from a patched tree are restored and the evidence files come from /repo.
"""
import json
import os
import re
import subprocess
import sys
import threading
from concurrent.futures import ThreadPoolExecutor

VERIF = os.path.dirname(os.path.dirname(os.path.abspath(__file__)))
PROPS = [json.loads(l) for l in open(os.path.join(VERIF, 'properties.jsonl'))]
LOCKS = {p['id']: threading.Lock() for p in PROPS}
PRINT = threading.Lock()


def sh(cmd, cwd=None, env=None, timeout=3600):
    e = dict(os.environ)
    if env:
        e.update(env)
    try:
        r = subprocess.run(cmd, shell=True, cwd=cwd, env=e, stdout=subprocess.PIPE, stderr=subprocess.STDOUT,
                           timeout=timeout)
    except subprocess.TimeoutExpired:
        return 124, 'TIMEOUT'
    return r.returncode, '\n'.join(l for l in r.stdout.decode('utf-8', 'replace').splitlines() if 'conda' not in l)


def say(*a):
    with PRINT:
        print(*a, flush=True)


def head():
    return sh('git -C %s rev-parse --short HEAD' % VERIF)[1].strip()


def worktree(tag, patch):
    wt = '/tmp/sw-%s-%d' % (tag.lower(), os.getpid())
    sh('git -C /repo worktree remove --force %s' % wt)
    rc, out = sh('git -C /repo worktree add --detach %s HEAD' % wt)
    if rc:
        return None, out
    rc, out = sh('git apply %s' % patch, cwd=wt)
    if rc:
        sh('git -C /repo worktree remove --force %s' % wt)
        return None, 'patch does not apply: ' + out[-300:]
    return wt, ''


def run_check(prop, wt, seed):
    with LOCKS[prop]:
        rc, out = sh('./check %s --tier quick' % prop, cwd=VERIF, env={'CHERRYPY_REPO': wt, 'VERIF_SEED': str(seed)},
                     timeout=3000)
    lines = out.splitlines()
    viol = [l for l in lines if l.startswith('VIOLATION')]
    detail = [l.strip()[:400] for l in lines if 'oracle failed' in l or 'disagreement' in l or 'HARNESS' in l
              or l.strip().startswith('lean:')][:4]
    return rc, viol, detail


def seed_job(sid, seeds):
    d = os.path.join(VERIF, 'seeded', sid)
    meta = json.load(open(os.path.join(d, 'meta.json')))
    prop = sid.split('-')[0]
    if meta.get('neutralised_by'):
        kind = 'neutralised'
    else:
        kind = 'seed'
    wt, err = worktree(sid, os.path.join(d, 'patch.diff'))
    if wt is None:
        say(sid, 'NOT-EVALUATED', err)
        return sid, None
    try:
        res = []
        for s in seeds:
            rc, viol, detail = run_check(prop, wt, s)
            res.append({'seed': s, 'exit': rc, 'violations': viol, 'detail': detail})
    finally:
        sh('git -C /repo worktree remove --force %s' % wt)
    first = res[0]
    meta.update({
        'check_cmd': 'CHERRYPY_REPO=<worktree with patch> VERIF_SEED=%s ./check %s --tier quick' % (first['seed'], prop),
        'check_exit': first['exit'], 'check_violation_lines': first['violations'],
        'check_detail': first['detail'][:3],
        'detected': first['exit'] == 1 and bool(first['violations']),
        'detected_with_failing_input': first['exit'] == 1 and any('no-failing-input-found' not in v
                                                                   for v in first['violations']),
        'sweep': [{'seed': r['seed'], 'exit': r['exit'],
                   'with_failing_input': any('no-failing-input-found' not in v for v in r['violations'])}
                  for r in res],
        'evaluated_at_verif_commit': head(),
    })
    json.dump(meta, open(os.path.join(d, 'meta.json'), 'w'), indent=1)
    say(sid, kind, ' '.join('seed%s:exit%s%s' % (r['seed'], r['exit'],
                                                 '' if r['exit'] != 1 else
                                                 ('+input' if any('no-failing-input-found' not in v for v in r['violations'])
                                                  else '+no-input')) for r in res))
    return sid, res


def props_for(patch_text, prop):
    touched = set(re.findall(r'^\+\+\+ b/(\S+)', patch_text, flags=re.M))
    res = [prop]
    for p in PROPS:
        if p['id'] != prop and touched & set(p['anchors'].get('files', [])):
            res.append(p['id'])
    return res


def benign_job(bid, seeds):
    d = os.path.join(VERIF, 'benign', bid)
    meta = json.load(open(os.path.join(d, 'meta.json')))
    prop = bid.split('-')[0]
    patch = os.path.join(d, 'patch.diff')
    wt, err = worktree(bid, patch)
    if wt is None:
        meta['patch_applies'] = False
        json.dump(meta, open(os.path.join(d, 'meta.json'), 'w'), indent=1)
        say(bid, 'NOT-EVALUATED', err)
        return bid, None
    runs, alarms = [], []
    try:
        for p in props_for(open(patch).read(), prop):
            for s in seeds:
                rc, viol, detail = run_check(p, wt, s)
                runs.append({'property': p, 'seed': s, 'exit': rc})
                if rc != 0:
                    alarms.append({'property': p, 'seed': s, 'exit': rc, 'lines': (viol + detail)[:6]})
    finally:
        sh('git -C /repo worktree remove --force %s' % wt)
    meta.update({'benign_id': bid, 'patch_applies': True, 'checks_run': runs, 'alarms': alarms,
                 'evaluated_at_verif_commit': head()})
    json.dump(meta, open(os.path.join(d, 'meta.json'), 'w'), indent=1)
    say(bid, 'quiet' if not alarms else 'ALARM ' + '; '.join('%s seed %s exit %s | %s' % (
        a['property'], a['seed'], a['exit'], ' | '.join(a['lines'])[:300]) for a in alarms))
    return bid, alarms


def main():
    a = sys.argv[1:]
    jobs = int(a[a.index('--jobs') + 1]) if '--jobs' in a else 4
    seeds = [int(x) for x in a[a.index('--seeds') + 1].split(',')] if '--seeds' in a else [0, 1]
    only = set(a[a.index('--only') + 1].split(',')) if '--only' in a else None
    props = set(a[a.index('--props') + 1].split(',')) if '--props' in a else None
    norestore = '--no-restore' in a
    do_seeded = '--seeded' in a or '--benign' not in a
    do_benign = '--benign' in a or '--seeded' not in a
    work = []
    if do_seeded:
        for sid in sorted(os.listdir(os.path.join(VERIF, 'seeded'))):
            if os.path.exists(os.path.join(VERIF, 'seeded', sid, 'patch.diff')) and (not only or sid in only) and (not props or sid.split('-')[0] in props):
                work.append((seed_job, sid))
    if do_benign:
        for bid in sorted(os.listdir(os.path.join(VERIF, 'benign'))):
            if os.path.exists(os.path.join(VERIF, 'benign', bid, 'patch.diff')) and (not only or bid in only) and (not props or bid.split('-')[0] in props):
                work.append((benign_job, bid))
    # interleave properties so that neighbouring jobs rarely want the same lock
    work.sort(key=lambda w: (w[1].split('-')[1], w[1].split('-')[0]))
    touched = set()
    with ThreadPoolExecutor(max_workers=jobs) as ex:
        for fn, ident in work:
            ex.submit(fn, ident, seeds)
            touched.add(ident.split('-')[0])
    # restore tables / evidence from /repo itself
    for p in ([] if norestore else sorted(props or LOCKS)):
        rc, out = sh('./check %s --tier quick' % p, cwd=VERIF, timeout=3000)
        say('restore', p, 'exit', rc)
    return 0


if __name__ == '__main__':
    sys.exit(main())
