#!/usr/bin/env python3
"""Print the prompt given to an isolated sub-agent that produces property-PRESERVING changes
(refactors a maintainer would make) used to test the checks for false alarms.
Usage: benign_prompt.py Cxx <worktree> <outdir>.  The agent sees only the property text."""
import json, sys
pid, wt, out = sys.argv[1:4]
p = [json.loads(l) for l in open('/verif/properties.jsonl') if json.loads(l)['id'] == pid][0]
mech = '; '.join('%s (%s)' % (m.get('name', ''), m.get('where', '')) for m in p['anchors'].get('mechanism', []))
print(f"""You are helping to test a verification effort for false alarms. You have your own scratch git worktree of the CherryPy web framework at {wt} (a checkout of the current HEAD of the repository; Python 3.12 interpreter with all dependencies: /venv/bin/python). Work ONLY inside {wt} and {out} (create {out}); do not look at or touch /verif or /repo, and do not read any directory other than {wt}, {out} and the Python standard library. Never use `git stash` (shared between worktrees; other agents work concurrently): to set a change aside use `git -C {wt} diff > file; git -C {wt} checkout -- .`.

Here is a semantic property the code base satisfies and must KEEP satisfying:

  Title: {p['title']}
  Statement: {p['statement']}
  Quantified over: {p['quantifier']['text']}
  Anchored in: {', '.join(p['anchors']['files'])}
  Mechanisms: {mech}

Your task: produce FOUR different, independent, realistic changes to the project's source under {wt}/cherrypy (NOT the tests), made to the code this property is anchored in (the functions/classes named above), such that each change
  (a) still imports/compiles and passes the project's existing test-suite modules that exercise the touched code, unedited (run them: `cd {wt} && flock /tmp/cp-pytest.lock /venv/bin/python -m pytest -q -p no:cacheprovider cherrypy/test/test_<relevant>.py`; the flock matters because the suite binds a fixed TCP port and others run it concurrently; test_conn.py::LimitedRequestQueueTests::test_queue_full and test_core.py::CoreRequestHandlingTest::testRedirect fail on the pristine tree already and may be ignored), and
  (b) PRESERVES the property above for every input / history / schedule / configuration it quantifies over - you must be able to argue that convincingly - and also preserves everything else a user of the public API can observe that the property talks about.
The changes should be of the kinds maintainers really make, and between them they should be varied and not trivial (not just a comment or whitespace): e.g. rename locals and private helpers; extract a helper function or inline one; restructure a loop (while -> for, early return, comprehension); reorder statements that do not depend on each other; introduce temporaries (one statement becomes three lines) or merge lines; replace a regex by string methods with identical semantics (or the reverse); change the wording of an error/log message or docstring; change an internal buffer/chunk size that is not observable in the property; add a debug-level log call; add type hints; swap `dict.get`+test for `in`+index; turn a class attribute default into an __init__ assignment with the same value; use a context manager instead of try/finally with the same semantics; add an equivalent fast path that provably computes the same result. At least one of the four must restructure control flow of a central function of the mechanism (not only rename), and at least one must change only text that a client may see but the property does not constrain (e.g. the wording of an error page or log line), if such text exists in the anchored code.

For each change i in 1..4 write into {out}/{'{i}'}/ :
  - patch.diff : `git -C {wt} diff` of that change alone against the pristine HEAD (make each change on a clean tree: `git -C {wt} checkout -- .` between changes),
  - meta.json : {{"property": "{pid}", "kind": "benign", "title": "<one line>", "why_preserved": "<the argument why the property still holds for every quantified input>", "tests_run": "<the pytest command(s) you ran and their result with the change applied>"}}.
Leave the worktree clean (pristine) at the end. Your final message: a short list of the four changes with one line each.""")
