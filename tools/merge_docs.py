#!/usr/bin/env python3
"""Regenerate the generated tail of DESIGN.md (between the BEGIN/END GENERATED markers):
section 11 = findings status table from findings/*.json, section 12 = seeded changes and which
check caught them (seeded/*/meta.json), section 13 = the per-property build notes docs/Cxx.md."""
import glob, json, os, re
V = os.path.dirname(os.path.dirname(os.path.abspath(__file__)))
BEGIN, END = '<!-- BEGIN GENERATED -->', '<!-- END GENERATED -->'
out = [BEGIN, '']
out.append('## 11. Findings: status after the build rounds\n')
out.append('Generated from `findings/*.json` (what the checks read). `fixed` = repaired in /repo by the named `fix:` '
           'commit (suppresses nothing, witness kept as regression); `known` = genuine defect recorded, not repaired '
           '(only an oracle failure with exactly this signature is reported as KNOWN-FINDING).\n')
out.append('| prop | id | status | commit | what failed |\n|---|---|---|---|---|')
for f in sorted(glob.glob(os.path.join(V, 'findings', '*.json'))):
    for e in json.load(open(f)).get('findings', []):
        out.append('| %s | %s | %s | %s | %s |' % (e.get('property', ''), e.get('id', ''), e.get('status', ''),
                   e.get('commit', '') or '', (e.get('text', '') or '').replace('|', '\\|').replace('\n', ' ')[:400]))
out.append('')
out.append('## 12. Independently seeded changes and which check catches them\n')
out.append('Each change was produced by a fresh sub-agent that saw only the property text and a scratch worktree '
           '(prompt: `tools/seed_prompt.py`), then confirmed and evaluated by `tools/eval_seed.py` (demo passes on the '
           'pristine tree and fails with the patch; named test modules still pass; the check is run against the patched '
           'worktree). Stored under `seeded/<id>/`.\n')
out.append('| seed | change | needs | check verdict (quick unless noted) | caught by |\n|---|---|---|---|---|')
for f in sorted(glob.glob(os.path.join(V, 'seeded', '*', 'meta.json'))):
    m = json.load(open(f))
    verdict = 'MISSED' if not m.get('detected') else ('VIOLATION with failing input' if m.get('detected_with_failing_input')
                                                       else 'VIOLATION no-failing-input-found')
    if m.get('note'):
        verdict += ' — ' + m['note']
    out.append('| %s | %s | %s | %s | %s |' % (m.get('seed_id', os.path.basename(os.path.dirname(f))),
               (m.get('title', '') or '').replace('|', '\\|')[:200], (m.get('needs', '') or '').replace('|', '\\|')[:220],
               verdict, '; '.join(m.get('check_detail', []))[:260].replace('|', '\\|')))
out.append('')
out.append('### 12b. Property-preserving changes (false-alarm test)\n')
out.append('Each change was produced by a fresh sub-agent that saw only the property text (prompt: `tools/benign_prompt.py`) and was asked '
           'for realistic refactors / rewordings of the anchored code that keep the property true; `tools/eval_benign.py` runs the quick '
           'check (seeds 0 and 1) of the property and of every other property whose anchor files the patch touches against a scratch '
           'worktree with the patch. Expected verdict: quiet (exit 0). Stored under `benign/<id>/`.\n')
out.append('| id | change | checks run | verdict |\n|---|---|---|---|')
for f in sorted(glob.glob(os.path.join(V, 'benign', '*', 'meta.json'))):
    m = json.load(open(f))
    runs = m.get('checks_run') or []
    props = sorted({r['property'] for r in runs})
    alarms = m.get('alarms')
    if alarms is None:
        verdict = 'not evaluated'
    elif not alarms:
        verdict = 'quiet'
    else:
        verdict = 'ALARM: ' + '; '.join('%s seed %s exit %s' % (a['property'], a['seed'], a['exit']) for a in alarms)
    if m.get('note'):
        verdict += ' — ' + m['note']
    out.append('| %s | %s | %s | %s |' % (m.get('benign_id', os.path.basename(os.path.dirname(f))),
               (m.get('title', '') or '').replace('|', '\\|')[:260], ' '.join(props), verdict.replace('|', '\\|')[:400]))
out.append('')
out.append('## 13. Per-property build notes\n')
out.append('(Verbatim from `docs/Cxx.md`, written by whoever built the check; they supersede the round-0 plan in section 6 '
           'where the two differ.)\n')
for f in sorted(glob.glob(os.path.join(V, 'docs', 'C[0-9][0-9].md'))):
    txt = open(f).read().strip()
    txt = re.sub(r'^(#+) ', lambda m: '##' + m.group(1) + ' ', txt, flags=re.M)
    out.append(txt)
    out.append('')
out.append(END)
p = os.path.join(V, 'DESIGN.md')
s = open(p).read()
if BEGIN in s:
    s = s[:s.index(BEGIN)] + '\n'.join(out) + s[s.index(END) + len(END):]
else:
    s = s.rstrip('\n') + '\n\n' + '\n'.join(out) + '\n'
open(p, 'w').write(s)
print('DESIGN.md regenerated tail: %d lines' % len(out))
