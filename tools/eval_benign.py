#!/usr/bin/env python3
"""Evaluate property-PRESERVING changes (tools/benign_prompt.py) against the checks: no alarm expected.

usage: eval_benign.py <PROP> <srcdir> [--only 1,2] [--all-props]
   or: eval_benign.py --stored <benign-id> [...]     (re-evaluate benign/<id>/ already stored)

For each <srcdir>/<i>/{patch.diff,meta.json}: stored as /verif/benign/<PROP>-b<i>/; in a scratch
worktree of /repo with the patch applied, `./check` runs (quick, VERIF_SEED 0 and 1) for <PROP> and for
every other property whose anchor files the patch touches (--all-props: all 20).  Expected: exit 0
everywhere.  Verdicts are recorded in meta.json (`alarms`: list of {property, seed, exit, lines}).
Afterwards the touched properties are re-run against /repo so regenerated tables are restored.
"""
import json
import os
import re
import shutil
import subprocess
import sys

VERIF = os.path.dirname(os.path.dirname(os.path.abspath(__file__)))
PROPS = [json.loads(l) for l in open(os.path.join(VERIF, 'properties.jsonl'))]


def sh(cmd, cwd=None, env=None, timeout=3600):
    e = dict(os.environ)
    if env:
        e.update(env)
    r = subprocess.run(cmd, shell=True, cwd=cwd, env=e, stdout=subprocess.PIPE, stderr=subprocess.STDOUT,
                       timeout=timeout)
    out = '\n'.join(l for l in r.stdout.decode('utf-8', 'replace').splitlines() if 'conda' not in l)
    return r.returncode, out


def props_for(patch_text, prop, all_props):
    if all_props:
        return [p['id'] for p in PROPS]
    touched = set(re.findall(r'^\+\+\+ b/(\S+)', patch_text, flags=re.M))
    res = [prop]
    for p in PROPS:
        if p['id'] != prop and touched & set(p['anchors'].get('files', [])):
            res.append(p['id'])
    return res


def evaluate(bid, all_props=False):
    dst = os.path.join(VERIF, 'benign', bid)
    prop = bid.split('-')[0]
    patch = open(os.path.join(dst, 'patch.diff')).read()
    meta = json.load(open(os.path.join(dst, 'meta.json')))
    wt = '/tmp/evb-%s-%d' % (bid.lower(), os.getpid())
    rc, out = sh('git -C /repo worktree add --detach %s HEAD' % wt)
    if rc:
        print(out)
        return None
    alarms, runs = [], []
    try:
        rc_a, out_a = sh('git apply %s' % os.path.join(dst, 'patch.diff'), cwd=wt)
        if rc_a:
            print(bid, 'patch does not apply:', out_a)
            meta['patch_applies'] = False
            json.dump(meta, open(os.path.join(dst, 'meta.json'), 'w'), indent=1)
            return None
        plist = props_for(patch, prop, all_props)
        for p in plist:
            for seed in ('0', '1'):
                rc_k, out_k = sh('./check %s --tier quick' % p, cwd=VERIF,
                                 env={'CHERRYPY_REPO': wt, 'VERIF_SEED': seed}, timeout=3000)
                lines = [l.strip()[:400] for l in out_k.splitlines()
                         if l.startswith('VIOLATION') or 'oracle failed' in l or 'disagreement' in l
                         or 'HARNESS' in l or l.strip().startswith('lean:')][:6]
                runs.append({'property': p, 'seed': int(seed), 'exit': rc_k})
                if rc_k != 0:
                    alarms.append({'property': p, 'seed': int(seed), 'exit': rc_k, 'lines': lines})
        meta.update({'benign_id': bid, 'patch_applies': True, 'checks_run': runs, 'alarms': alarms,
                     'evaluated_at_verif_commit': sh('git -C %s rev-parse --short HEAD' % VERIF)[1].strip()})
        json.dump(meta, open(os.path.join(dst, 'meta.json'), 'w'), indent=1)
    finally:
        sh('git -C /repo worktree remove --force %s' % wt)
    for p in plist:          # restore generated tables from /repo
        sh('./check %s --tier quick' % p, cwd=VERIF, timeout=3000)
    return alarms


def main():
    a = sys.argv[1:]
    all_props = '--all-props' in a
    ids = []
    if a and a[0] == '--stored':
        ids = [x for x in a[1:] if not x.startswith('--')]
    else:
        prop, src = a[0], a[1]
        only = a[a.index('--only') + 1].split(',') if '--only' in a else None
        for i in sorted(os.listdir(src)):
            d = os.path.join(src, i)
            if not os.path.isfile(os.path.join(d, 'patch.diff')) or (only and i not in only):
                continue
            bid = '%s-b%s' % (prop, i)
            dst = os.path.join(VERIF, 'benign', bid)
            os.makedirs(dst, exist_ok=True)
            shutil.copy(os.path.join(d, 'patch.diff'), os.path.join(dst, 'patch.diff'))
            if os.path.exists(os.path.join(d, 'meta.json')):
                shutil.copy(os.path.join(d, 'meta.json'), os.path.join(dst, 'meta.json'))
            else:
                json.dump({'property': prop, 'kind': 'benign'}, open(os.path.join(dst, 'meta.json'), 'w'))
            ids.append(bid)
    for bid in ids:
        alarms = evaluate(bid, all_props)
        if alarms is None:
            print(bid, 'NOT-EVALUATED')
        elif alarms:
            for al in alarms:
                print(bid, 'ALARM', al['property'], 'seed', al['seed'], 'exit', al['exit'], '|', ' | '.join(al['lines'])[:500])
        else:
            print(bid, 'quiet')
    return 0


if __name__ == '__main__':
    sys.exit(main())
