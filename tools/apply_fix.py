#!/usr/bin/env python3
"""Apply a proposed fix (proposed_fixes/<slug>.diff + .msg) to /repo as one `fix:` commit and
record the commit hash in findings/<PROP>.json (entry ids given on the command line).
usage: apply_fix.py <slug> [finding-id ...]"""
import json, os, subprocess, sys
VERIF = os.path.dirname(os.path.dirname(os.path.abspath(__file__)))
slug, ids = sys.argv[1], sys.argv[2:]
diff = os.path.join(VERIF, 'proposed_fixes', slug + '.diff')
msg = os.path.join(VERIF, 'proposed_fixes', slug + '.msg')
assert open(msg).read().startswith('fix:'), 'message must start with fix:'
st = subprocess.run(['git', '-C', '/repo', 'status', '--porcelain', '--untracked-files=no'], capture_output=True, text=True).stdout
assert not st.strip(), '/repo working tree is dirty:\n' + st
subprocess.check_call(['git', '-C', '/repo', 'apply', '--index', diff])
subprocess.check_call(['git', '-C', '/repo', 'commit', '-q', '-F', msg])
sha = subprocess.run(['git', '-C', '/repo', 'log', '-1', '--format=%h'], capture_output=True, text=True).stdout.strip()
prop = slug.split('-')[0]
fp = os.path.join(VERIF, 'findings', prop + '.json')
if ids and os.path.exists(fp):
    d = json.load(open(fp))
    for e in d['findings']:
        if e['id'] in ids:
            e['commit'] = sha
            e['status'] = 'fixed'
            e['patch'] = slug
    json.dump(d, open(fp, 'w'), indent=1)
print(slug, '->', sha)
