#!/bin/sh
# Re-run a property's check against a stored seeded change (seeded/<id>/patch.diff) in a scratch
# worktree of /repo (never /repo itself) and print the verdict.
# usage: tools/reeval_seed.sh <seed-id> [quick|thorough]      (VERIF_SEED honoured, default 0)
sid=$1; tier=${2:-quick}; prop=${sid%%-*}
verif=$(cd "$(dirname "$0")/.." && pwd)
wt=/tmp/ev-$sid-$$
mkdir -p /tmp/q
git -C /repo worktree add --detach $wt HEAD >/dev/null 2>&1 || { echo "$sid WORKTREE-FAILS"; exit 2; }
if ! git -C $wt apply $verif/seeded/$sid/patch.diff; then
  echo "$sid PATCH-FAILS"; git -C /repo worktree remove --force $wt; exit 2
fi
cd $verif
CHERRYPY_REPO=$wt VERIF_SEED=${VERIF_SEED:-0} ./check $prop --tier $tier > /tmp/q/seed-$sid.log 2>&1
rc=$?
echo "$sid exit=$rc violations=$(grep -c '^VIOLATION' /tmp/q/seed-$sid.log) $(grep '^VIOLATION' /tmp/q/seed-$sid.log | head -2 | tr '\n' ' ')"
grep 'oracle failed\|disagreement\|HARNESS' /tmp/q/seed-$sid.log | head -3 | cut -c1-300
git -C /repo worktree remove --force $wt
# record the verdict in seeded/<id>/meta.json (what DESIGN.md section 12 is generated from)
/venv/bin/python - "$verif/seeded/$sid/meta.json" "$rc" "/tmp/q/seed-$sid.log" "$tier" "${VERIF_SEED:-0}" <<'PY'
import json, sys, subprocess
path, rc, log, tier, seed = sys.argv[1], int(sys.argv[2]), sys.argv[3], sys.argv[4], sys.argv[5]
out = open(log, errors='replace').read().splitlines()
viol = [l for l in out if l.startswith('VIOLATION')]
m = json.load(open(path))
m.update({'check_cmd': 'CHERRYPY_REPO=<worktree with patch> VERIF_SEED=%s ./check %s --tier %s' % (seed, m.get('property'), tier),
          'check_exit': rc, 'check_violation_lines': viol,
          'check_detail': [l.strip() for l in out if 'oracle failed' in l or 'disagreement' in l][:3],
          'detected': rc == 1 and bool(viol),
          'detected_with_failing_input': rc == 1 and any('no-failing-input-found' not in v for v in viol),
          'evaluated_at_verif_commit': subprocess.run(['git', '-C', '/verif', 'rev-parse', '--short', 'HEAD'], capture_output=True, text=True).stdout.strip()})
json.dump(m, open(path, 'w'), indent=1)
PY
# the run above may have regenerated lean/CpModel/Gen tables from the patched tree: restore them from /repo
./check $prop --tier quick > /tmp/q/restore-$sid.log 2>&1 || echo "WARNING: restoring run on /repo exited $? (see /tmp/q/restore-$sid.log)"
exit $rc
