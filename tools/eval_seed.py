#!/usr/bin/env python3
"""Confirm and evaluate independently seeded property-breaking changes.

usage: eval_seed.py <PROP> <srcdir> [--no-tests] [--tier quick|thorough]

<srcdir>/<i>/{patch.diff,demo.py|demo_test.py,meta.json} as written by a seeding sub-agent
(tools/seed_prompt.py).  For each change, in a scratch worktree of /repo (never /repo itself):
  1. the demo passes on the pristine tree and fails with the patch applied,
  2. the test modules named in meta.json still pass with the patch (unless --no-tests),
  3. `CHERRYPY_REPO=<worktree> ./check <PROP>` is run and its verdict recorded.
Confirmed changes are stored as /verif/seeded/<PROP>-<i>/ (patch.diff, demo, meta.json with
what was run and what the check reported).  The worktree is removed afterwards.
"""
import json
import os
import re
import shutil
import subprocess
import sys

VERIF = os.path.dirname(os.path.dirname(os.path.abspath(__file__)))


def sh(cmd, cwd=None, env=None, timeout=3600):
    e = dict(os.environ)
    if env:
        e.update(env)
    try:
        r = subprocess.run(cmd, shell=True, cwd=cwd, env=e, stdout=subprocess.PIPE, stderr=subprocess.STDOUT,
                           timeout=timeout)
    except subprocess.TimeoutExpired:
        subprocess.run('pkill -f "%s"' % cmd.split()[-1], shell=True)
        return 124, 'TIMEOUT after %ds: %s' % (timeout, cmd)
    out = '\n'.join(l for l in r.stdout.decode('utf-8', 'replace').splitlines() if 'conda' not in l)
    return r.returncode, out


def main():
    prop, src = sys.argv[1], sys.argv[2]
    no_tests = '--no-tests' in sys.argv
    tier = sys.argv[sys.argv.index('--tier') + 1] if '--tier' in sys.argv else 'quick'
    only = sys.argv[sys.argv.index('--only') + 1].split(',') if '--only' in sys.argv else None
    summary = []
    for i in sorted(os.listdir(src)):
        d = os.path.join(src, i)
        if not os.path.isfile(os.path.join(d, 'patch.diff')) or (only and i not in only):
            continue
        sid = '%s-%s' % (prop, i)
        wt = '/tmp/ev-%s' % sid.lower()
        sh('git -C /repo worktree remove --force %s' % wt)
        rc, out = sh('git -C /repo worktree add --detach %s HEAD' % wt)
        if rc:
            print(out)
            return 2
        try:
            meta = json.load(open(os.path.join(d, 'meta.json'))) if os.path.exists(os.path.join(d, 'meta.json')) else {}
            demo_name = 'demo.py' if os.path.exists(os.path.join(d, 'demo.py')) else 'demo_test.py'
            demo_src = open(os.path.join(d, demo_name)).read()
            demo_src = re.sub(r"(['\"])/tmp/seed\d*-[a-z0-9-]+?(/?)\1", "__import__('os').environ.get('CHERRYPY_REPO', '/repo')",
                              demo_src)
            dst = os.path.join(VERIF, 'seeded', sid)
            os.makedirs(dst, exist_ok=True)
            open(os.path.join(dst, demo_name), 'w').write(demo_src)
            shutil.copy(os.path.join(d, 'patch.diff'), os.path.join(dst, 'patch.diff'))
            runner = '/venv/bin/python %s' % os.path.join(dst, demo_name)
            if demo_name == 'demo_test.py':
                runner = '/venv/bin/python -m pytest -q -p no:cacheprovider %s' % os.path.join(dst, demo_name)
            rc_p, out_p = sh(runner, cwd=wt, env={'CHERRYPY_REPO': wt}, timeout=600)
            rc_a, out_a = sh('git apply %s' % os.path.join(dst, 'patch.diff'), cwd=wt)
            if rc_a:
                print(sid, 'patch does not apply:', out_a)
                summary.append((sid, 'PATCH-FAILS', ''))
                continue
            rc_c, out_c = sh(runner, cwd=wt, env={'CHERRYPY_REPO': wt}, timeout=600)
            tests = sorted(set(re.findall(r'cherrypy/test/test_\w+\.py', meta.get('tests_run', ''))))
            t_res = 'skipped'
            if tests and not no_tests:
                rc_t, out_t = sh('flock /tmp/cp-pytest.lock /venv/bin/python -m pytest -q -p no:cacheprovider '
                                 '--timeout=900 %s 2>&1 | tail -15' % ' '.join(tests), cwd=wt, timeout=3000)
                summ = [l for l in out_t.splitlines() if re.search(r'\d+ (passed|failed|error)', l)]
                t_res = (summ[-1].strip() if summ else 'rc=%d' % rc_t) + ' [' + ' '.join(tests) + ']'
            rc_k, out_k = sh('./check %s --tier %s' % (prop, tier), cwd=VERIF,
                             env={'CHERRYPY_REPO': wt, 'VERIF_SEED': os.environ.get('VERIF_SEED', '0')}, timeout=3000)
            viol = [l for l in out_k.splitlines() if l.startswith('VIOLATION')]
            orac = [l.strip() for l in out_k.splitlines() if 'oracle failed' in l or 'disagreement' in l][:3]
            confirmed = (rc_p == 0 and rc_c != 0)
            meta.update({
                'seed_id': sid, 'confirmed_demo': confirmed,
                'demo_rc_pristine': rc_p, 'demo_rc_changed': rc_c,
                'demo_tail_changed': out_c[-300:],
                'tests_confirmed': t_res,
                'check_cmd': 'CHERRYPY_REPO=<worktree with patch> ./check %s --tier %s' % (prop, tier),
                'check_exit': rc_k, 'check_violation_lines': viol, 'check_detail': orac,
                'detected': rc_k == 1 and bool(viol),
                'detected_with_failing_input': rc_k == 1 and any('no-failing-input-found' not in v for v in viol),
            })
            json.dump(meta, open(os.path.join(dst, 'meta.json'), 'w'), indent=1)
            summary.append((sid, 'demo %s' % ('ok' if confirmed else 'NOT-CONFIRMED(p=%d,c=%d)' % (rc_p, rc_c)),
                            'tests: %s | check exit %d %s' % (t_res, rc_k, '; '.join(viol)[:160])))
            print(' | '.join(summary[-1]), flush=True)
        finally:
            sh('git -C /repo worktree remove --force %s' % wt)
    return 0


if __name__ == '__main__':
    sys.exit(main())
