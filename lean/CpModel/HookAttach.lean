import CpModel.Pipeline
import CpModel.Gen.C09Tables
/-
  Model of how a request's `HookMap` comes into being (C09): from the class-level `Request.hooks`, the
  *effective* configuration `request.config` (as the dispatcher merged it), the toolboxes and the
  attributes of the callables, to the list of `Hook` objects per hook point.  Transcribed statement by
  statement from

    cherrypy/_cprequest.py  Hook.__init__, Hook.__lt__, HookMap.attach, HookMap.copy, hooks_namespace,
                            request_namespace (only `request.error_response`), Request._do_respond
                            (`self.hooks = self.__class__.hooks.copy()`, `self.namespaces(self.config)`)
    cherrypy/lib/reprconf.py NamespaceSet.__call__ (grouping by namespace, handler order, enter/exit)
    cherrypy/_cptools.py    Toolbox.__enter__/populate/__exit__, Tool._merged_args, Tool._setup,
                            HandlerTool._setup, ErrorTool._setup, CachingTool._setup, SessionTool._setup

  Core Lean only.  Values are Python values as far as the code looks at them: `None`, `bool`, `int`,
  `float` (dyadic: an integer number of quarters, enough for every boundary value the generator uses; no
  NaN / infinity), `str`.  `is None`, truthiness, `==` with a string literal and `<` between two values are
  the only operations the code applies to them.

  What `sorted(self[point])` gives (`Hook.__lt__` is `self.priority < other.priority`, nothing else is
  defined, so CPython's sort uses `<` only): `sortedHooks` below.  It is a *specification-level* transcription:
  a list of fewer than two hooks is returned unchanged without any comparison; if all priorities are numbers
  (`bool` counts as 0/1, `int` and `float` compare by value) or all are strings the result is the stable
  ascending sort; any other list of two or more hooks makes some comparison between values of different
  kinds (or with `None`), which raises `TypeError` out of `HookMap.run` before any hook ran (every comparison
  sort must link all elements by comparisons, so a list with two kinds compares across kinds at some point).

  Not modelled: NaN / infinite priorities, tools missing from the toolbox (`AttributeError` in `__exit__`,
  reported as `none`), config keys without a dot after the tool name, `tools.<t>.point` style entries that
  clash with positional parameters of `attach`, hooks attached while the request runs.
-/
namespace CpModel.HookAttach
open CpModel.Pipeline

/-! ## Python values -/

inductive Val where
  | none
  | bool (b : Bool)
  | int (i : Int)
  /-- a float with value `q / 4` -/
  | float (q : Int)
  /-- a string, as its code points -/
  | str (s : List Nat)
  deriving DecidableEq, Repr, Inhabited

/-- `x is None` -/
def Val.isNone : Val → Bool
  | .none => true
  | _ => false

/-- `bool(x)` -/
def Val.truthy : Val → Bool
  | .none => false
  | .bool b => b
  | .int i => i != 0
  | .float q => q != 0
  | .str s => !s.isEmpty

/-- the numeric value in quarters, for values Python treats as numbers -/
def Val.num? : Val → Option Int
  | .bool b => some (if b then 4 else 0)
  | .int i => some (4 * i)
  | .float q => some q
  | _ => Option.none

def Val.str? : Val → Option (List Nat)
  | .str s => some s
  | _ => Option.none

/-- lexicographic `<` on code point lists (Python's `str.__lt__`) -/
def strLt : List Nat → List Nat → Bool
  | [], [] => false
  | [], _ :: _ => true
  | _ :: _, [] => false
  | a :: as, b :: bs => if a < b then true else if b < a then false else strLt as bs

/-- `a < b`; `none` = `TypeError` -/
def Val.lt? (a b : Val) : Option Bool :=
  match a.num?, b.num? with
  | some x, some y => some (decide (x < y))
  | _, _ =>
    match a.str?, b.str? with
    | some s, some t => some (strLt s t)
    | _, _ => Option.none

/-! ## Callables, hooks -/

/-- Identity of a callable that ends up as `Hook.callback`. -/
inductive Cb where
  /-- a user callable (probe id) -/
  | user (id : Nat)
  /-- the bound method `tool._wrapper` of the HandlerTool / CachingTool whose callable is `id` -/
  | wrapper (id : Nat)
  /-- the bound method `tool._lock_session` of the SessionTool whose callable is `id` -/
  | lock (id : Nat)
  /-- `cherrypy.lib.sessions.save` / `.close` -/
  | sessionsSave
  | sessionsClose
  deriving DecidableEq, Repr, Inhabited

/-- The two attributes `Hook.__init__` / `Tool._setup` read off a callable with `getattr(cb, name, default)`;
    `none` = the attribute does not exist. -/
structure Attrs where
  prio : Option Val := Option.none
  failsafe : Option Val := Option.none
  deriving DecidableEq, Repr, Inhabited

inductive Key where
  | on | priority | failsafe | locking
  | other (n : Nat)
  deriving DecidableEq, Repr, Inhabited

abbrev Conf := List (Key × Val)

/-- `d.get(k)` on an association list with unique keys -/
def Conf.get? (c : Conf) (k : Key) : Option Val := (c.find? (·.1 = k)).map (·.2)

/-- `del d[k]` / the dict after `d.pop(k, …)` -/
def Conf.del (c : Conf) (k : Key) : Conf := c.filter (·.1 ≠ k)

/-- `d[k] = v`: an existing key keeps its position -/
def Conf.set (c : Conf) (k : Key) (v : Val) : Conf :=
  if c.any (·.1 = k) then c.map (fun e => if e.1 = k then (k, v) else e) else c ++ [(k, v)]

/-- value codes of the generated tables: `(0, _)` None, `(1, b)` bool, `(2, i)` int, `(3, q)` float `q/4` -/
def valOfCode : Nat × Int → Val
  | (0, _) => .none
  | (1, b) => .bool (b != 0)
  | (2, i) => .int i
  | (_, q) => .float q

/-- A `Hook` object: what `Hook.__init__` stored. -/
structure AHook where
  cb : Cb
  prio : Val
  failsafe : Val
  kwargs : Conf
  deriving DecidableEq, Repr, Inhabited

/-- `Hook.priority` / `Hook.failsafe` defaults (the `getattr` fallbacks of `Hook.__init__`), measured on the
    live class: `Hook(lambda: None)` -/
def hookDefaultPrio : Val := valOfCode Gen.C09.hookDefaultPriority
def hookDefaultFailsafe : Val := valOfCode Gen.C09.hookDefaultFailsafe

/-- `Hook.__init__(self, callback, failsafe=None, priority=None, **kwargs)` -/
def mkHook (attrs : Cb → Attrs) (cb : Cb) (failsafe priority : Val) (kwargs : Conf) : AHook :=
  { cb := cb
    failsafe := if failsafe.isNone then (attrs cb).failsafe.getD hookDefaultFailsafe else failsafe
    prio := if priority.isNone then (attrs cb).prio.getD hookDefaultPrio else priority
    kwargs := kwargs }

/-- `HookMap.attach(point, callback, failsafe=None, priority=None, **kwargs)` called as
    `attach(point, cb, priority=p, **conf)`: a `failsafe` entry of `conf` binds the named parameter. -/
def attachKw (attrs : Cb → Attrs) (cb : Cb) (p : Val) (conf : Conf) : AHook :=
  mkHook attrs cb ((conf.get? .failsafe).getD .none) p (conf.del .failsafe)

/-! ## Tools -/

/-- which `_setup` the tool's class has -/
inductive Kind where
  | plain      -- Tool._setup
  | handler    -- HandlerTool._setup
  | error      -- ErrorTool._setup
  | caching    -- CachingTool._setup
  | session    -- SessionTool._setup
  deriving DecidableEq, Repr, Inhabited

structure Tool where
  /-- attribute name in its toolbox -/
  name : Nat
  kind : Kind
  /-- `self._point` -/
  point : Point
  /-- `self.callable` -/
  cb : Nat
  /-- `self._priority` -/
  prio : Val
  deriving DecidableEq, Repr, Inhabited

/-- `Tool._merged_args()` (no argument): `conf = {}; conf.update(tm[name]) if name in tm; del conf['on']` -/
def mergedArgs (bucket : Conf) : Conf := bucket.del .on

/-- `p = conf.pop('priority', None); if p is None: p = getattr(self.callable, 'priority', self._priority)` -/
def toolPriority (attrs : Cb → Attrs) (t : Tool) (conf : Conf) : Val :=
  let p := (conf.get? .priority).getD .none
  if p.isNone then (attrs (.user t.cb)).prio.getD t.prio else p

def strImplicit : List Nat := [105, 109, 112, 108, 105, 99, 105, 116]
def strEarly : List Nat := [101, 97, 114, 108, 121]

/-- What one `tool._setup()` does to the request. -/
structure Setup where
  hooks : List (Point × AHook) := []
  /-- `request.error_response = self._wrapper` -/
  errorResponse : Option Nat := Option.none
  deriving Repr, Inhabited

def setupTool (attrs : Cb → Attrs) (t : Tool) (bucket : Conf) : Setup :=
  let conf := mergedArgs bucket
  match t.kind with
  | .plain =>
    { hooks := [(t.point, attachKw attrs (.user t.cb) (toolPriority attrs t conf) (conf.del .priority))] }
  | .handler =>
    { hooks := [(t.point, attachKw attrs (.wrapper t.cb) (toolPriority attrs t conf) (conf.del .priority))] }
  | .error => { errorResponse := some t.cb }
  | .caching =>
    -- p = conf.pop('priority', None); attach('before_handler', self._wrapper, priority=p, **conf)
    { hooks := [(.beforeHandler, attachKw attrs (.wrapper t.cb) ((conf.get? .priority).getD .none) (conf.del .priority))] }
  | .session =>
    let conf1 := conf.del .priority
    let main := (t.point, attachKw attrs (.user t.cb) (toolPriority attrs t conf) conf1)
    -- locking = conf.pop('locking', 'implicit')
    let locking := (conf1.get? .locking).getD (.str strImplicit)
    let lock :=
      if locking = .str strImplicit then [(Point.beforeHandler, mkHook attrs (.lock t.cb) .none .none [])]
      else if locking = .str strEarly then
        [(Point.beforeRequestBody, mkHook attrs (.lock t.cb) .none (valOfCode Gen.C09.sessionEarlyLockPriority) [])]
      else []
    { hooks := main :: lock ++ [(.beforeFinalize, mkHook attrs .sessionsSave .none .none []),
                                (.onEndRequest, mkHook attrs .sessionsClose .none .none [])] }

/-! ## Namespaces -/

inductive Ns where
  | hooks
  | request
  | toolbox (n : Nat)
  /-- any other namespace (`response`, `error_page`, the probe namespace …): attaches nothing -/
  | other
  deriving DecidableEq, Repr, Inhabited

/-- The value of a config entry, as far as the modelled handlers look at it. -/
inductive CVal where
  | val (v : Val)
  /-- a ready-made `Hook(cb, failsafe=fs, priority=p, **kw)` object -/
  | hookObj (cb : Nat) (fs p : Val) (kw : Conf)
  /-- a bare callable -/
  | callable (cb : Nat)
  /-- a string naming a callable (`reprconf.attributes`) -/
  | dotted (cb : Nat)
  deriving DecidableEq, Repr, Inhabited

/-- One entry of the flat config: namespace, and the rest of the key. -/
inductive Entry where
  /-- `hooks.<point>[.<anything>] = v` -/
  | hook (p : Point) (v : CVal)
  /-- `request.error_response = <callable cb>` -/
  | errorResponse (cb : Nat)
  /-- `<toolbox>.<tool>.<arg> = v` -/
  | tool (box : Nat) (name : Nat) (arg : Key) (v : Val)
  /-- anything else -/
  | other (ns : Ns)
  deriving DecidableEq, Repr, Inhabited

def Entry.ns : Entry → Ns
  | .hook _ _ => .hooks
  | .errorResponse _ => .request
  | .tool b _ _ _ => .toolbox b
  | .other n => n

/-- The request while `self.namespaces(self.config)` runs. -/
structure Req where
  /-- `request.hooks`, as one list in attachment order (`hooks[p]` = the entries with point `p`) -/
  hooks : List (Point × AHook) := []
  errorResponse : Option Nat := Option.none
  /-- `request.toolmaps` -/
  toolmaps : List (Nat × List (Nat × Conf)) := []
  deriving Repr, Inhabited

/-- `hooks_namespace(k, v)` -/
def hooksNamespace (attrs : Cb → Attrs) (p : Point) (v : CVal) : Option (Point × AHook) :=
  match v with
  | .hookObj cb fs pr kw => some (p, mkHook attrs (.user cb) fs pr kw)     -- isinstance(v, Hook)
  | .callable cb => some (p, mkHook attrs (.user cb) .none .none [])        -- Hook(v)
  | .dotted cb => some (p, mkHook attrs (.user cb) .none .none [])          -- Hook(attributes(v))
  | .val _ => Option.none       -- Hook(<not callable>): attached, fails when called — not generated

/-- `populate(k, v)`: `bucket = map.setdefault(toolname, {}); bucket[arg] = v` -/
def populate (m : List (Nat × Conf)) (name : Nat) (arg : Key) (v : Val) : List (Nat × Conf) :=
  if m.any (·.1 = name) then m.map (fun e => if e.1 = name then (name, e.2.set arg v) else e)
  else m ++ [(name, [(arg, v)])]

/-- the toolmap of one toolbox: `populate` over the config entries of its namespace, in config order -/
def toolmapOf (box : Nat) (entries : List Entry) : List (Nat × Conf) :=
  entries.foldl (fun m e => match e with
    | .tool b name arg v => if b = box then populate m name arg v else m
    | _ => m) []

/-- `Toolbox.__exit__`: `for name, settings in map.items(): if settings.get('on', False): getattr(self, name)._setup()`;
    `none` = the toolbox has no such tool (`AttributeError`). -/
def exitToolbox (attrs : Cb → Attrs) (tools : List Tool) : List (Nat × Conf) → Req → Option Req
  | [], r => some r
  | (name, settings) :: rest, r =>
    if ((settings.get? .on).getD (.bool false)).truthy then
      match tools.find? (·.name = name) with
      | Option.none => Option.none
      | some t =>
        let s := setupTool attrs t settings
        exitToolbox attrs tools rest
          { r with hooks := r.hooks ++ s.hooks
                   errorResponse := match s.errorResponse with | some c => some c | Option.none => r.errorResponse }
    else exitToolbox attrs tools rest r

/-- Everything known about the application besides the config. -/
structure Env where
  attrs : Cb → Attrs
  /-- toolbox number → its tools -/
  toolboxes : Nat → List Tool
  /-- `request.namespaces` in handler order -/
  nsOrder : List Ns

/-- `hooks_namespace` on one config entry of the `hooks` namespace -/
def hookOfEntry (attrs : Cb → Attrs) : Entry → Option (Point × AHook)
  | .hook p v => hooksNamespace attrs p v
  | _ => Option.none

/-- `request_namespace` on one config entry: `setattr(request, 'error_response', v)` -/
def setErrorResponse (r : Req) : Entry → Req
  | .errorResponse cb => { r with errorResponse := some cb }
  | _ => r

/-- one namespace handler over its share of the config -/
def runNamespace (env : Env) (config : List Entry) (ns : Ns) (r : Req) : Option Req :=
  let mine := config.filter (·.ns = ns)
  match ns with
  | .hooks => some { r with hooks := r.hooks ++ mine.filterMap (hookOfEntry env.attrs) }
  | .request => some (mine.foldl setErrorResponse r)
  | .toolbox b =>
    let m := toolmapOf b mine
    exitToolbox env.attrs (env.toolboxes b) m { r with toolmaps := r.toolmaps ++ [(b, m)] }
  | .other => some r

def runNamespaces (env : Env) (config : List Entry) : List Ns → Req → Option Req
  | [], r => some r
  | ns :: rest, r =>
    match runNamespace env config ns r with
    | Option.none => Option.none
    | some r' => runNamespaces env config rest r'

/-- `self.hooks = self.__class__.hooks.copy(); …; self.namespaces(self.config)` -/
def attachAll (env : Env) (clsHooks : List (Point × AHook)) (config : List Entry) : Option Req :=
  runNamespaces env config env.nsOrder { hooks := clsHooks }

/-- `request.hooks[p]` -/
def hooksAt (r : Req) (p : Point) : List AHook := (r.hooks.filter (·.1 = p)).map (·.2)

/-! ## `sorted(self[point])` -/

/-- insert `h` into an ascending list, *before* the first element that is not `<` it … that is, after every
    `y` with `y < h` or `y` equivalent and earlier: `h` came first in the input (the sort is built from the
    right), so it goes before equal keys. -/
def insertBy (lt : AHook → AHook → Bool) (h : AHook) : List AHook → List AHook
  | [] => [h]
  | y :: ys => if lt y h then y :: insertBy lt h ys else h :: y :: ys

def sortBy (lt : AHook → AHook → Bool) : List AHook → List AHook
  | [] => []
  | x :: xs => insertBy lt x (sortBy lt xs)

def numLt (a b : AHook) : Bool := match a.prio.num?, b.prio.num? with
  | some x, some y => decide (x < y)
  | _, _ => false

def strLtHook (a b : AHook) : Bool := match a.prio.str?, b.prio.str? with
  | some x, some y => strLt x y
  | _, _ => false

/-- `sorted(hooks)`; `none` = `TypeError` -/
def sortedHooks (l : List AHook) : Option (List AHook) :=
  match l with
  | [] => some []
  | [h] => some [h]
  | _ =>
    if l.all (·.prio.num?.isSome) then some (sortBy numLt l)
    else if l.all (·.prio.str?.isSome) then some (sortBy strLtHook l)
    else Option.none

/-! ## Link to the pipeline model (`CpModel.Hooks`, natural-number priorities) -/

/-- smallest numeric priority (quarters) of a list, `0` for a list without numbers -/
def minQ : List AHook → Int
  | [] => 0
  | h :: t => match h.prio.num? with
    | some q => if t.all (·.prio.num?.isNone) then q else min q (minQ t)
    | Option.none => minQ t

/-- order-preserving code of a numeric priority as a natural number, relative to a lower bound -/
def rank (base : Int) (h : AHook) : Nat := ((h.prio.num?.getD base) - base).toNat

/-- the pipeline model's view of a hook whose callback journals under identity `id` and has outcome `out` -/
def toHook (base : Int) (id : Nat) (out : Hooks.Out) (h : AHook) : Hooks.Hook :=
  { id := id, prio := rank base h, failsafe := h.failsafe.truthy, out := out }

/-! ## Per-request copies of the class-level map (aliasing)

  `HookMap.copy`: `newmap[k] = v[:]` — a new list object per point.  Lists are modelled as cells of a heap so
  that aliasing is expressible: a `HookMap` is a function from points to cell addresses. -/

structure Heap where
  cells : List (List AHook) := []
  deriving Repr, Inhabited

def Heap.read (h : Heap) (a : Nat) : List AHook := h.cells.getD a []

/-- `list.append` on the list object at address `a` -/
def Heap.append (h : Heap) (a : Nat) (x : AHook) : Heap :=
  { cells := h.cells.set a (h.read a ++ [x]) }

/-- allocate a new list object with the given content -/
def Heap.alloc (h : Heap) (l : List AHook) : Heap × Nat := ({ cells := h.cells ++ [l] }, h.cells.length)

def pointIdx : Point → Nat
  | .onStartResource => 0 | .beforeRequestBody => 1 | .beforeHandler => 2 | .beforeFinalize => 3
  | .onEndResource => 4 | .onEndRequest => 5 | .beforeErrorResponse => 6 | .afterErrorResponse => 7

def allPoints : List Point :=
  [.onStartResource, .beforeRequestBody, .beforeHandler, .beforeFinalize, .onEndResource, .onEndRequest,
   .beforeErrorResponse, .afterErrorResponse]

/-- a `HookMap`: the address of the list object of every point -/
abbrev HMap := Point → Nat

/-- `HookMap.copy()`: eight fresh list objects, each a copy of the corresponding list of `m` -/
def copyMap (h : Heap) (m : HMap) : Heap × HMap :=
  let base := h.cells.length
  ({ cells := h.cells ++ allPoints.map (fun p => h.read (m p)) }, fun p => base + pointIdx p)

/-- `self[point].append(Hook(...))` for a list of attachments -/
def appendAll (h : Heap) (m : HMap) : List (Point × AHook) → Heap
  | [] => h
  | (p, x) :: rest => appendAll (h.append (m p) x) m rest

/-- one request: copy the class-level map, attach `att` to the copy -/
def serveRequest (h : Heap) (cls : HMap) (att : List (Point × AHook)) : Heap × HMap :=
  let (h1, m) := copyMap h cls
  (appendAll h1 m att, m)

/-- a sequence of requests of the same request class -/
def serveAll (h : Heap) (cls : HMap) : List (List (Point × AHook)) → Heap × List HMap
  | [] => (h, [])
  | att :: rest =>
    let (h1, m) := serveRequest h cls att
    let (h2, ms) := serveAll h1 cls rest
    (h2, m :: ms)

end CpModel.HookAttach
