import CpModel.Validators
/-!
  C16 (conditional part, round 2) — the request flow with the configuration dimensions the first
  model (`CpModel.Validators.respond`) left out:

    * `response.stream` (config `response.stream: True`): `Response.finalize` first empties 1xx / 204 /
      205 / 304 responses (body flushed, Content-Length dropped — since b33ff58 also when streamed, F17d),
      then, for a streamed response, keeps a Content-Length only when somebody set it and delivers
      whatever `response.body` holds through the WSGI iterable;
    * handlers that validate themselves: a `gen` handler is a *script*, a list of steps executed in
      order, each of which may raise out of the handler:
        `body`         `cherrypy.response.body = <the entity>`   (bytes / list / generator / file)
        `since`        `cptools.validate_since()`
        `etags auto`   `cptools.validate_etags(autotags=auto)`   (sets the ETag header from the md5
                       of the *current* body when there is none, `auto` is on and the status is 200;
                       "guard against being run twice": the first call sets `response.ETag`, every
                       later call — the tool included — returns at once)
      then `response.body = handler()` (the entity), then the before_finalize hook `tools.etags`
      (when on) — which is one more `etags` step —, then `finalize`, then the HEAD rule of
      `Request.run`.
      `HTTPRedirect([], 304).set_response()` sets `response.body = None` and strips the entity
      headers at the moment of the raise; `HTTPError(412).set_response()` replaces the body by the
      error page and `clean_headers` drops ETag / Last-Modified / Content-Range.  After either,
      `before_finalize` runs again (`tools.etags` is a no-op on a non-2xx status) and `finalize`.

  `respondX` is the whole request; `respondX_legacy` (CpProofs.C16Flow) shows that it is a
  conservative extension of `Validators.respond`.

  Parameters: as in `CpModel.Validators`, plus `emptyTag` = `'"%s"' % md5(b'').hexdigest()` (what an
  `etags true` step computes when the handler has not produced its body yet).
-/
namespace CpModel.CondFlow
open CpModel.Ranges CpModel.Validators

inductive Step
  | body
  | since
  | etags (auto : Bool)
  deriving DecidableEq, Repr

structure ReqX where
  base : Req
  stream : Bool            -- response.stream
  script : List Step       -- `gen` kind only: what the handler does before returning the entity
  emptyTag : Text          -- md5 tag of the empty body (parameter)
  ifRange : Option Text := none   -- the If-Range request header: no code reads it (CherryPy does not implement
                                  -- If-Range; a Range is honoured whatever it says), see `respondX_ignores_ifRange`

/-- handler-visible response state: the ETag header and whether `response.body` holds the entity -/
structure HState where
  etagHdr : Option Text
  bodySet : Bool
  etagDone : Bool          -- `hasattr(response, 'ETag')`: validate_etags has run
  deriving DecidableEq, Repr

inductive HOut
  /-- a step raised; `etagHdr` is the ETag header at that moment (a 304 keeps it) -/
  | raised (v : Verdict) (etagHdr : Option Text)
  | done (st : HState)
  deriving DecidableEq, Repr

/-- one step of the script in state `st`: its verdict and the state it leaves -/
def runStep (r : ReqX) (st : HState) : Step → Verdict × HState
  | .body => (.pass, { st with bodySet := true })
  | .since =>
    (validateSince r.base.lastmod r.base.baseStatus r.base.getHead r.base.ius r.base.ims, st)
  | .etags auto =>
    if st.etagDone then (.pass, st) else
    let e := effectiveEtag st.etagHdr auto r.base.baseStatus
      (if st.bodySet then r.base.autoTag else r.emptyTag)
    (validateEtags e r.base.baseStatus r.base.getHead r.base.im r.base.inm, { st with etagHdr := e, etagDone := true })

/-- run the steps in order; the first one whose verdict is not `pass` raises -/
def runScript (r : ReqX) : List Step → HState → HOut
  | [], st => .done st
  | s :: ss, st =>
    match runStep r st s with
    | (.pass, st') => runScript r ss st'
    | (v, st') => .raised v st'.etagHdr

/-- the handler's own steps, `response.body = handler()`, then the before_finalize hook -/
def fullScript (r : ReqX) : List Step :=
  r.script ++ [.body] ++ (if r.base.etagsOn then [.etags r.base.autotags] else [])

def initState (r : ReqX) : HState := ⟨r.base.handlerEtag, false, false⟩

/-- finalize for a handler-generated body that nobody turned into 304 / 412 (as repaired by b33ff58, F17d:
    the statuses without a message body are tested BEFORE `self.stream`) -/
def plainRespX (r : ReqX) (status : Nat) (etag : Option Text) : Resp :=
  if noBodyStatus status then ⟨status, none, none, etag, .empty⟩
  else if r.stream then ⟨status, none, none, etag, .bytes r.base.content⟩
  else plainResp r.base status etag

/-- the same before b33ff58: `if self.stream:` came first, so a streamed response kept whatever body it
    held, whatever the status (kept for the refutation `CpProofs.C16.unfixed_finalize_304_with_body`) -/
def plainRespXUnfixed (r : ReqX) (status : Nat) (etag : Option Text) : Resp :=
  if r.stream then ⟨status, none, none, etag, .bytes r.base.content⟩
  else plainResp r.base status etag

/-- finalize for what `_serve_fileobj` prepared: a streamed response keeps only a Content-Length
    somebody set (`serve_fileobj` sets `None` for an object of unknown length) -/
def servedRespX (r : ReqX) (s : Served) (etag : Option Text) : Resp :=
  match s with
  | .whole _ clen body =>
    ⟨200, none, if r.stream && !r.base.lenKnown then none else some clen, etag, .bytes body⟩
  | s => servedResp s etag

def etagPhaseX (r : ReqX) (status : Nat) (ok : Option Text → Resp) : Resp :=
  etagPhase r.base status ok

/-- what the response becomes once the full script has run -/
def outcome (r : ReqX) : HOut → Resp
  | .raised v e => finish r.base (conditionalResp v e)
  | .done st => finish r.base (plainRespX r r.base.baseStatus st.etagHdr)

def respondX (r : ReqX) : Resp :=
  match r.base.kind with
  | .file =>
    match handler r.base with
    | .raised v => finish r.base (conditionalResp v r.base.handlerEtag)
    | .served (.unsat total) => finish r.base (servedResp (.unsat total) none)
    | .served s => etagPhaseX r (servedStatus s) (servedRespX r s)
    | .plain status => etagPhaseX r status (plainRespX r status)      -- not reached for `file`
  | .gen =>
    outcome r (runScript r (fullScript r) (initState r))

/-- the script of the first model: `validate_since()` before the body exists, or nothing -/
def legacyScript (r : Req) : List Step := if r.callSince then [.since] else []

def lift (r : Req) (emptyTag : Text) : ReqX := ⟨r, false, legacyScript r, emptyTag, none⟩

end CpModel.CondFlow
