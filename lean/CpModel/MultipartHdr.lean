import CpModel.Multipart
import CpModel.Gen.C04Tables
/-
  C04, second layer of the multipart model: what `Entity.__init__` / `Part` make of a part's header
  block and content, transcribed from `cherrypy/_cpreqbody.py` (and the stdlib primitives it calls):

  * `headersOut`      the keys of the part's `HeaderMap` (`str(key).title()`; ASCII header names);
  * `partInfoX`       Content-Disposition `name` / `filename` (quotes stripped once more) and `filename*`
                      (`charset'lang'value`: exactly three `'`-separated pieces, else 400; `urllib.parse.unquote(
                      value, charset)` with `errors='replace'`; a codec Python does not know is a 400 as soon as
                      the value contains a `%`), Content-Type value and `charset` parameter;
  * `attemptCharsets` `[charset] + [c for c in Part.attempt_charsets if c != charset]` (string comparison;
                      class list regenerated from the live `Part`), `decodeField` = `Entity.decode_entity`
                      (strict decoding, first success wins, none → 400);
  * `partProc`        `Entity.process` for a part: lookup of the part's Content-Type in `Part.processors`
                      (regenerated from the live class) — `default_proc` reads the part up to the boundary,
                      the inherited form / multipart processors do something else entirely (finding F28);
  * `storage`         `Part.default_proc`: a part with a truthy filename always goes to `make_file()`, another
                      one only when its content outgrew `maxrambytes`;
  * `formEntry`       `process_multipart_form_data`: unnamed → stays in `parts`; named without filename →
                      the decoded text; named with filename → the Part object.
  Text (decoded strings) is `List Nat` (code points) so that `filename*` can leave Latin-1.
  Codecs: us-ascii, utf-8 (core Lean's verified decoder for `strict`, CPython's error ranges for `replace`),
  iso-8859-1; any other name the generator uses is `unknown` to Python as well (table from `codecs.lookup`).
  Core Lean only.
-/
namespace CpModel.Multipart
open CpModel.Reader

abbrev CodePoints := List Nat

/-! ### header names -/

/-- `str.title()` on ASCII -/
def titleA : Bool → Bytes → Bytes
  | _, [] => []
  | prevCased, b :: bs =>
    if 97 ≤ b && b ≤ 122 then (if prevCased then b else b - 32) :: titleA true bs
    else if 65 ≤ b && b ≤ 90 then (if prevCased then b + 32 else b) :: titleA true bs
    else b :: titleA false bs

def headersOut (hs : List (Bytes × Bytes)) : List (Bytes × Bytes) := hs.map fun kv => (titleA false kv.1, kv.2)

/-! ### codecs -/

inductive Codec where
  | ascii | utf8 | latin1 | unknown
  deriving Repr, DecidableEq, Inhabited

def codecOfTag (n : Nat) : Codec :=
  if n = 0 then .ascii else if n = 1 then .utf8 else if n = 2 then .latin1 else .unknown

/-- `codecs.lookup(name)` for the names of the generated table; anything else: LookupError -/
def codecOf (name : Bytes) : Codec :=
  match Gen.C04.codecNames.find? (·.1 = name) with
  | some (_, tag) => codecOfTag tag
  | none => .unknown

def latin1Points (b : Bytes) : CodePoints := b.map (·.toNat)

def utf8Strict (b : Bytes) : Option CodePoints :=
  b.toByteArray.utf8Decode?.map fun a => a.toList.map Char.toNat

/-- `bytes.decode(codec)` (errors='strict'); `none` = LookupError / UnicodeDecodeError.  CPython answers `''`
    for empty input before it looks the codec up. -/
def decodeStrict (c : Codec) (b : Bytes) : Option CodePoints :=
  match c with
  | .ascii => if b.all (· < 128) then some (latin1Points b) else none
  | .utf8 => utf8Strict b
  | .latin1 => some (latin1Points b)
  | .unknown => if b.isEmpty then some [] else none

def isCont (b : UInt8) : Bool := 128 ≤ b && b ≤ 191

def REPL : Nat := 0xFFFD

/-- `bytes.decode('utf-8', 'replace')`: CPython's decoder reports an invalid start byte (1 byte), an invalid
    continuation byte (the bytes accepted so far) or an unexpected end of data (everything that is left), and
    each report becomes one U+FFFD. -/
def utf8Replace : Nat → Bytes → CodePoints
  | 0, _ => []
  | _ + 1, [] => []
  | fuel + 1, a :: rest =>
    if a < 0x80 then a.toNat :: utf8Replace fuel rest
    else if a < 0xC2 then REPL :: utf8Replace fuel rest
    else if a < 0xE0 then
      match rest with
      | [] => [REPL]
      | b :: r2 =>
        if isCont b then ((a.toNat - 0xC0) * 64 + (b.toNat - 0x80)) :: utf8Replace fuel r2
        else REPL :: utf8Replace fuel rest
    else if a < 0xF0 then
      match rest with
      | [] => [REPL]
      | b :: r2 =>
        if !isCont b || (if b < 0xA0 then a == 0xE0 else a == 0xED) then REPL :: utf8Replace fuel rest
        else match r2 with
          | [] => [REPL]
          | c :: r3 =>
            if isCont c then
              ((a.toNat - 0xE0) * 4096 + (b.toNat - 0x80) * 64 + (c.toNat - 0x80)) :: utf8Replace fuel r3
            else REPL :: utf8Replace fuel r2
    else if a < 0xF5 then
      match rest with
      | [] => [REPL]
      | b :: r2 =>
        if !isCont b || (if b < 0x90 then a == 0xF0 else a == 0xF4) then REPL :: utf8Replace fuel rest
        else match r2 with
          | [] => [REPL]
          | c :: r3 =>
            if !isCont c then REPL :: utf8Replace fuel r2
            else match r3 with
              | [] => [REPL]
              | d :: r4 =>
                if isCont d then
                  ((a.toNat - 0xF0) * 262144 + (b.toNat - 0x80) * 4096 + (c.toNat - 0x80) * 64 + (d.toNat - 0x80))
                    :: utf8Replace fuel r4
                else REPL :: utf8Replace fuel r3
    else REPL :: utf8Replace fuel rest

/-- `bytes.decode(codec, 'replace')`; `none` = LookupError -/
def decodeReplace (c : Codec) (b : Bytes) : Option CodePoints :=
  match c with
  | .ascii => some (b.map fun x => if x < 128 then x.toNat else REPL)
  | .utf8 => some (utf8Replace (b.length + 1) b)
  | .latin1 => some (latin1Points b)
  | .unknown => if b.isEmpty then some [] else none

/-! ### `urllib.parse.unquote(string, encoding, errors='replace')` on Latin-1 text -/

def hexVal (b : UInt8) : Option Nat :=
  if 48 ≤ b && b ≤ 57 then some (b.toNat - 48)
  else if 97 ≤ b && b ≤ 102 then some (b.toNat - 87)
  else if 65 ≤ b && b ≤ 70 then some (b.toNat - 55)
  else none

/-- `unquote_to_bytes` on an ASCII run: `%XX` → byte, a malformed `%` stays -/
def pctBytes : Bytes → Bytes
  | [] => []
  | 37 :: a :: b :: rest =>
    match hexVal a, hexVal b with
    | some x, some y => UInt8.ofNat (x * 16 + y) :: pctBytes rest
    | _, _ => 37 :: pctBytes (a :: b :: rest)
  | c :: rest => c :: pctBytes rest

/-- the maximal ASCII run at the front and what follows it -/
def spanAscii : Bytes → Bytes × Bytes
  | [] => ([], [])
  | b :: bs => if b < 128 then let (r, t) := spanAscii bs; (b :: r, t) else ([], b :: bs)

/-- `_asciire.split`: ASCII runs are percent-decoded and decoded with the codec, every other character is
    passed through -/
def unquoteRuns (c : Codec) : Nat → Bytes → Option CodePoints
  | 0, _ => some []
  | _ + 1, [] => some []
  | fuel + 1, b :: bs =>
    if b < 128 then
      let (run, tl) := spanAscii (b :: bs)
      match decodeReplace c (pctBytes run), unquoteRuns c fuel tl with
      | some x, some y => some (x ++ y)
      | _, _ => none
    else (unquoteRuns c fuel bs).map (b.toNat :: ·)

/-- `unquote(s, encoding)`: returned unchanged when it holds no `%` (the codec is not even looked up) -/
def unquoteText (c : Codec) (s : Bytes) : Option CodePoints :=
  if !s.contains 37 then some (latin1Points s) else unquoteRuns c (s.length + 1) s

/-! ### `Entity.__init__` for a part -/

def splitOnB (sep : UInt8) : Bytes → List Bytes
  | [] => [[]]
  | b :: bs =>
    if b = sep then [] :: splitOnB sep bs
    else match splitOnB sep bs with
      | [] => [[b]]
      | h :: t => (b :: h) :: t

def K_FILENAME_STAR : Bytes := K_FILENAME ++ [42]
def K_CHARSET : Bytes := [99, 104, 97, 114, 115, 101, 116]
def K_BOUNDARY : Bytes := [98, 111, 117, 110, 100, 97, 114, 121]

inductive InitErr where
  | badFilenameStar       -- HTTPError(400): not `charset'lang'value`, or an unknown charset
  deriving Repr, DecidableEq, Inhabited

structure InfoX where
  name : Option Bytes
  filename : Option CodePoints
  ctype : Bytes
  charset : Option Bytes          -- the `charset` parameter of the part's Content-Type
  deriving Repr, DecidableEq, Inhabited

def partInfoX (hs : List (Bytes × Bytes)) : Except InitErr InfoX :=
  let ctEl := (hdrGet hs K_CT).bind firstElement
  let ct := match ctEl with | some (v, _) => v | none => Gen.C04.partDefaultContentType
  let cs := match ctEl with | some (_, ps) => paramGet ps K_CHARSET | none => none
  match (hdrGet hs K_CD).bind firstElement with
  | none => .ok { name := none, filename := none, ctype := ct, charset := cs }
  | some (_, ps) =>
    let name := (paramGet ps K_NAME).map stripQuotes
    let fn0 := ((paramGet ps K_FILENAME).map stripQuotes).map latin1Points
    match paramGet ps K_FILENAME_STAR with
    | none => .ok { name := name, filename := fn0, ctype := ct, charset := cs }
    | some v =>
      match splitOnB 39 v with
      | [enc, _, val] =>
        match unquoteText (codecOf enc) val with
        | some f => .ok { name := name, filename := some f, ctype := ct, charset := cs }
        | none => .error .badFilenameStar
      | _ => .error .badFilenameStar

/-! ### field values -/

/-- `[dec] + [c for c in attempt_charsets if c != dec]`, or the class list when there is no (or an empty)
    `charset` parameter -/
def attemptCharsets (cs : Option Bytes) : List Bytes :=
  match cs with
  | none => Gen.C04.partAttemptCharsets
  | some d => if d.isEmpty then Gen.C04.partAttemptCharsets else d :: Gen.C04.partAttemptCharsets.filter (· ≠ d)

/-- `Entity.decode_entity`; `none` = HTTPError(400) -/
def decodeField : List Bytes → Bytes → Option CodePoints
  | [], _ => none
  | cs :: more, v =>
    match decodeStrict (codecOf cs) v with
    | some t => some t
    | none => decodeField more v

/-! ### `Entity.process` for a part, storage, form entries -/

/-- `ct.split('/', 1)[0]` -/
def topTypeB : Bytes → Bytes
  | [] => []
  | c :: cs => if c = 47 then [] else c :: topTypeB cs

def tblGetB (tbl : List (Bytes × Bytes)) (k : Bytes) : Option Bytes :=
  match tbl with
  | [] => none
  | (k', v) :: t => if k' = k then some v else tblGetB t k

def DEFAULT_PROC_B : Bytes := [100, 101, 102, 97, 117, 108, 116, 95, 112, 114, 111, 99]   -- default_proc

/-- name of the function `Part.process` runs for a part of this content type -/
def partProc (ct : Bytes) : Bytes :=
  match tblGetB Gen.C04.partProcessors ct with
  | some f => f
  | none =>
    match tblGetB Gen.C04.partProcessors (topTypeB ct) with
    | some f => f
    | none => DEFAULT_PROC_B

/-- `Part.default_proc`: `true` = the content is in `part.file` (from `make_file()`), `false` = in `part.value` -/
def storedInFile (filename : Option CodePoints) (spilled : Bool) : Bool :=
  (match filename with | some f => !f.isEmpty | none => false) || spilled

inductive FormEntry where
  | kept                         -- no name: stays in `entity.parts`
  | field (text : CodePoints)    -- name, no filename: `part.fullvalue()`
  | file                         -- name and filename: the Part itself
  deriving Repr, DecidableEq, Inhabited

/-- `process_multipart_form_data`, one part; `none` = 400 (no charset decodes the field) -/
def formEntry (i : InfoX) (content : Bytes) : Option FormEntry :=
  match i.name with
  | none => some .kept
  | some _ =>
    match i.filename with
    | some _ => some .file
    | none => (decodeField (attemptCharsets i.charset) content).map .field

end CpModel.Multipart
